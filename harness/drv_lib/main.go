// drv_lib: replay driver binding FoLib.tla / FoDict.tla to the real pkg/strings, pkg/buf, pkg/frt, pkg/dict.
//
//	drv_lib cases <cases.ndjson> <out.ndjson>   call table written by TLC from FoLibCases.tla
//	drv_lib fmt   -              <out.ndjson>   boundary values of every basic kind through SInterP / Sprintf1 / Sprintf2
//	drv_lib dict  <hists.ndjson> <out.ndjson>   histories (behaviours of FoDict) on real dictionaries
//
// The driver decides nothing: TLC validates what it records (FoLibTrace / FoDictTrace).
package main

import (
	"bufio"
	"encoding/json"
	"fmt"
	"io"
	"math"
	"os"
	"strconv"
	gostrings "strings"

	"github.com/karino2/folang/pkg/buf"
	"github.com/karino2/folang/pkg/dict"
	"github.com/karino2/folang/pkg/frt"
	"github.com/karino2/folang/pkg/strings"
)

type Case struct {
	Lib  string     `json:"lib"`
	Op   string     `json:"op"`
	A    []string   `json:"a"`
	B    []string   `json:"b"`
	C    []string   `json:"c"`
	Xs   [][]string `json:"xs"`
	N    int        `json:"n"`
	M    int        `json:"m"`
	K    int        `json:"k"`
	Cond bool       `json:"cond"`
	F    string     `json:"f"`
}

type Out struct {
	Case
	Ret   any    `json:"ret"`
	Log   []any  `json:"log"`
	Panic string `json:"panic"`
	Kind  string `json:"kind"`
	Dec   any    `json:"dec"`
	Ref   any    `json:"ref"`
}

func j(cs []string) string { return gostrings.Join(cs, "") }

// string -> sequence of one-character strings (ASCII universe)
func chars(s string) []string {
	r := []string{}
	for _, c := range s {
		r = append(r, string(c))
	}
	return r
}

func applyU(f string, x int) int {
	switch f {
	case "inc":
		return x + 1
	case "dbl":
		return 2 * x
	case "neg":
		return -x
	case "const7":
		return 7
	}
	panic("drv: unknown fn " + f)
}

func runCase(cs Case) (out Out) {
	out.Case = cs
	out.Log = []any{}
	out.Ret = 0
	out.Dec, out.Ref = 0, 0
	defer func() {
		if r := recover(); r != nil {
			out.Panic = fmt.Sprint(r)
			if cs.Lib == "frt" && cs.Op == "Assert" {
				out.Ret = "panic"
			}
		}
	}()
	a, b, c := j(cs.A), j(cs.B), j(cs.C)
	switch cs.Lib {
	case "strings":
		switch cs.Op {
		case "Concat":
			xs := []string{}
			for _, x := range cs.Xs {
				xs = append(xs, j(x))
			}
			out.Ret = chars(strings.Concat(a, xs))
		case "Length":
			out.Ret = strings.Length(a)
		case "AppendTail":
			out.Ret = chars(strings.AppendTail(a, b))
		case "AppendHead":
			out.Ret = chars(strings.AppendHead(a, b))
		case "HasSuffix":
			out.Ret = strings.HasSuffix(a, b)
		case "HasPrefix":
			out.Ret = strings.HasPrefix(a, b)
		case "TrimSuffix":
			out.Ret = chars(strings.TrimSuffix(a, b))
		case "EncloseWith":
			out.Ret = chars(strings.EncloseWith(a, b, c))
		case "Split":
			r := [][]string{}
			for _, p := range strings.Split(a, b) {
				r = append(r, chars(p))
			}
			out.Ret = r
		case "SplitN":
			r := [][]string{}
			for _, p := range strings.SplitN(cs.N, a, b) {
				r = append(r, chars(p))
			}
			out.Ret = r
		case "IsEmpty":
			out.Ret = strings.IsEmpty(a)
		case "IsNotEmpty":
			out.Ret = strings.IsNotEmpty(a)
		default:
			panic("drv: unknown strings op " + cs.Op)
		}
	case "buf":
		// two buffers written alternately: b1 gets xs in order, b2 gets xs reversed
		b1, b2 := buf.New(), buf.New()
		n := len(cs.Xs)
		for i := 0; i < n; i++ {
			buf.Write(b1, j(cs.Xs[i]))
			buf.Write(b2, j(cs.Xs[n-1-i]))
		}
		out.Ret = []any{chars(buf.String(b1)), chars(buf.String(b2))}
	case "frt":
		switch cs.Op {
		case "Pipe":
			out.Ret = frt.Pipe(cs.N, func(x int) int { out.Log = append(out.Log, x); return applyU(cs.F, x) })
		case "PipeUnit":
			frt.PipeUnit(cs.N, func(x int) { out.Log = append(out.Log, x) })
		case "IfElse":
			out.Ret = frt.IfElse(cs.Cond, func() int { out.Log = append(out.Log, "then"); return cs.N },
				func() int { out.Log = append(out.Log, "else"); return cs.M })
		case "IfElseUnit":
			frt.IfElseUnit(cs.Cond, func() { out.Log = append(out.Log, "then") }, func() { out.Log = append(out.Log, "else") })
		case "IfOnly":
			frt.IfOnly(cs.Cond, func() { out.Log = append(out.Log, "then") })
		case "Fst":
			out.Ret = frt.Fst(frt.NewTuple2(cs.N, cs.M))
		case "Snd":
			out.Ret = frt.Snd(frt.NewTuple2(cs.N, cs.M))
		case "Destr2":
			x, y := frt.Destr2(frt.NewTuple2(cs.N, cs.M))
			x2, y2 := frt.Destr(frt.NewTuple2(cs.N, cs.M))
			if x != x2 || y != y2 {
				panic("Destr differs from Destr2")
			}
			out.Ret = []int{x, y}
		case "Destr3":
			x, y, z := frt.Destr3(frt.NewTuple3(cs.N, cs.M, cs.K))
			out.Ret = []int{x, y, z}
		case "OpNot":
			out.Ret = frt.OpNot(cs.Cond)
		case "OpAnd":
			out.Ret = frt.OpAnd(cs.Cond, cs.N == 1)
		case "Assert":
			frt.Assert(cs.Cond, "assert message")
			out.Ret = "ok"
		case "Empty":
			out.Ret = []any{frt.Empty[int](), chars(frt.Empty[string]()), frt.Empty[bool]()}
		default:
			panic("drv: unknown frt op " + cs.Op)
		}
	default:
		panic("drv: unknown lib " + cs.Lib)
	}
	return out
}

// ---- formatting by kind
type fmtVal struct {
	kind string
	v    any
	dec  string // decimal rendering for integer kinds (strconv, independent of fmt and reflect)
}

type myStruct struct {
	A int
	b string
}

func fmtValues() []fmtVal {
	vs := []fmtVal{}
	addI := func(kind string, v any, x int64) { vs = append(vs, fmtVal{kind, v, strconv.FormatInt(x, 10)}) }
	addU := func(kind string, v any, x uint64) { vs = append(vs, fmtVal{kind, v, strconv.FormatUint(x, 10)}) }
	for _, x := range []int64{0, 1, -1, 42, math.MaxInt64, math.MinInt64} {
		addI("int", int(x), x)
		addI("int64", x, x)
	}
	for _, x := range []int64{0, 1, -1, math.MaxInt8, math.MinInt8} {
		addI("int8", int8(x), x)
	}
	for _, x := range []int64{0, -7, math.MaxInt16, math.MinInt16} {
		addI("int16", int16(x), x)
	}
	for _, x := range []int64{0, 9, math.MaxInt32, math.MinInt32} {
		addI("int32", int32(x), x)
	}
	for _, x := range []uint64{0, 3, math.MaxUint64, 1 << 63} {
		addU("uint", uint(x), x)
		addU("uint64", x, x)
		addU("uintptr", uintptr(x), x)
	}
	for _, x := range []uint64{0, 200, math.MaxUint8} {
		addU("uint8", uint8(x), x)
	}
	for _, x := range []uint64{0, 40000, math.MaxUint16} {
		addU("uint16", uint16(x), x)
	}
	for _, x := range []uint64{0, 3000000000, math.MaxUint32} {
		addU("uint32", uint32(x), x)
	}
	for _, s := range []string{"", "a", "abc def", "100%", "%d", "日本語", "é", "tab\tnl\n", "{x}", "\\"} {
		vs = append(vs, fmtVal{"string", s, ""})
	}
	for _, f := range []float64{0, 1.5, -2.25, 1e21, math.Inf(1), math.Inf(-1), math.NaN(), math.SmallestNonzeroFloat64, math.Copysign(0, -1)} {
		vs = append(vs, fmtVal{"float64", f, ""})
		vs = append(vs, fmtVal{"float32", float32(f), ""})
	}
	var nilp *int
	var nile error
	for _, o := range []any{true, false, []int{1, 2}, []string{}, nilp, nile, nil, myStruct{1, "x"}, frt.NewTuple2(1, "a"),
		map[string]int{"k": 1}, struct{}{}, [2]int{3, 4}, complex(1, 2), 'x', &myStruct{2, "y"} == nil} {
		vs = append(vs, fmtVal{"other", o, ""})
	}
	return vs
}

func runFmt(w io.Writer) {
	enc := json.NewEncoder(w)
	emit := func(op string, fv fmtVal, f func() string, ref string) {
		o := Out{}
		o.Lib, o.Op, o.Kind = "fmt", op, fv.kind
		o.A, o.B, o.C, o.Xs = []string{}, []string{}, []string{}, [][]string{}
		o.Log = []any{}
		o.Dec, o.Ref = fv.dec, ref
		if s, ok := fv.v.(string); ok {
			o.A = []string{s} // compared as a whole
		}
		func() {
			defer func() {
				if r := recover(); r != nil {
					o.Panic = fmt.Sprint(r)
					o.Ret = "PANIC"
				}
			}()
			o.Ret = f()
		}()
		if fv.kind == "string" {
			// string kind: ret must be the text itself; keep a as one-element list and ret likewise
			o.Ret = []any{o.Ret}
		}
		enc.Encode(o)
	}
	// a format without holes: %% is a literal percent sign whatever the number of arguments
	for _, c := range []struct{ f, want string }{{"100%% sure", "100% sure"}, {"plain", "plain"}, {"%%", "%"}, {"a%%b%%c", "a%b%c"}, {"", ""}} {
		f := c.f
		emit("SInterP0", fmtVal{"other", f, ""}, func() string { return frt.SInterP(f) }, c.want)
	}
	for _, fv := range fmtValues() {
		v := fv.v
		ref := ""
		switch fv.kind {
		case "float32", "float64":
			ref = fmt.Sprintf("%f", v)
		default:
			ref = fmt.Sprintf("%v", v)
		}
		// SInterP / toS: decimal for every integer kind, the string itself, %f for floats, %v otherwise
		emit("SInterP", fv, func() string { return frt.SInterP("%s", v) }, ref)
		// surrounded by text and a second hole
		fv2 := fv
		if fv.kind == "string" {
			fv2.kind = "other"
		}
		wrap := func(s string) string { return "<" + s + "|" + s + ">" }
		fv2.dec = wrap(fv.dec)
		refw := wrap(ref)
		if fv.kind == "string" {
			refw = wrap(v.(string))
		}
		emit("SInterP2", fv2, func() string { return frt.SInterP("<%s|%s>", v, v) }, refw)
		// Sprintf1 / Sprintf2 are fmt.Sprintf
		fvo := fv
		fvo.kind = "other"
		emit("Sprintf1", fvo, func() string { return frt.Sprintf1("[%v]", v) }, fmt.Sprintf("[%v]", v))
		emit("Sprintf2", fvo, func() string { return frt.Sprintf2("%v-%v", v, 7) }, fmt.Sprintf("%v-%v", v, 7))
		switch fv.kind {
		case "string":
			emit("Sprintf1s", fvo, func() string { return frt.Sprintf1("%s!", v) }, fmt.Sprintf("%s!", v))
		case "float32", "float64":
			emit("Sprintf1f", fvo, func() string { return frt.Sprintf1("%.2f", v) }, fmt.Sprintf("%.2f", v))
		case "other":
		default:
			emit("Sprintf1d", fvo, func() string { return frt.Sprintf1("%d", v) }, fv.dec)
		}
	}
}

// ---- dict histories
type DStep struct {
	Op    string  `json:"op"`
	D     int     `json:"d"`
	Key   string  `json:"key"`
	Val   int     `json:"val"`
	Pairs [][]any `json:"pairs"`
}

type DOut struct {
	H int `json:"h"`
	K int `json:"k"`
	DStep
	Ret   any    `json:"ret"`
	Panic string `json:"panic"`
}

func runDict(h int, steps []DStep, nd int, w io.Writer) {
	enc := json.NewEncoder(w)
	ds := make([]dict.Dict[string, int], nd+1)
	for i := range ds {
		ds[i] = dict.New[string, int]()
	}
	for k, st := range steps {
		o := DOut{H: h, K: k + 1, DStep: st}
		if o.Pairs == nil {
			o.Pairs = [][]any{}
		}
		o.Ret = 0
		func() {
			defer func() {
				if r := recover(); r != nil {
					o.Panic = fmt.Sprint(r)
				}
			}()
			d := ds[st.D]
			switch st.Op {
			case "New":
				ds[st.D] = dict.New[string, int]()
			case "Add":
				dict.Add(d, st.Key, st.Val)
			case "ToDict":
				var ps []frt.Tuple2[string, int]
				for _, p := range st.Pairs {
					ps = append(ps, frt.NewTuple2(p[0].(string), int(p[1].(float64))))
				}
				ds[st.D] = dict.ToDict(ps)
			case "ContainsKey":
				o.Ret = dict.ContainsKey(d, st.Key)
			case "TryFind":
				r := dict.TryFind(d, st.Key)
				o.Ret = []any{r.E0, r.E1}
			case "Item":
				o.Ret = dict.Item(d, st.Key)
			case "Keys":
				r := dict.Keys(d)
				if r == nil {
					r = []string{}
				}
				o.Ret = r
			case "Values":
				r := dict.Values(d)
				if r == nil {
					r = []int{}
				}
				o.Ret = r
			case "KVs":
				r := [][]any{}
				for _, p := range dict.KVs(d) {
					r = append(r, []any{p.E0, p.E1})
				}
				o.Ret = r
			default:
				panic("drv: unknown dict op " + st.Op)
			}
		}()
		enc.Encode(o)
		if o.Panic != "" {
			return
		}
	}
}

func main() {
	if len(os.Args) != 4 {
		fmt.Fprintln(os.Stderr, "usage: drv_lib cases|fmt|dict in out")
		os.Exit(2)
	}
	mode, in, outp := os.Args[1], os.Args[2], os.Args[3]
	fo, err := os.Create(outp)
	if err != nil {
		fmt.Fprintln(os.Stderr, err)
		os.Exit(2)
	}
	w := bufio.NewWriter(fo)
	defer func() { w.Flush(); fo.Close() }()
	if mode == "fmt" {
		runFmt(w)
		return
	}
	fi, err := os.Open(in)
	if err != nil {
		fmt.Fprintln(os.Stderr, err)
		os.Exit(2)
	}
	sc := bufio.NewScanner(fi)
	sc.Buffer(make([]byte, 1<<20), 1<<26)
	n := 0
	for sc.Scan() {
		line := sc.Bytes()
		if len(line) == 0 {
			continue
		}
		n++
		switch mode {
		case "cases":
			var cs Case
			if err := json.Unmarshal(line, &cs); err != nil {
				fmt.Fprintln(os.Stderr, "bad case:", err)
				os.Exit(2)
			}
			b, _ := json.Marshal(runCase(cs))
			w.Write(b)
			w.WriteByte('\n')
		case "dict":
			var steps []DStep
			if err := json.Unmarshal(line, &steps); err != nil {
				fmt.Fprintln(os.Stderr, "bad history:", err)
				os.Exit(2)
			}
			runDict(n, steps, 2, w)
		}
	}
}
