// probe.go: observation points for emitted programs (C01 / C03 / C17).
//
// Generated Folang programs declare
//
//	package_info _ =
//	  let Probe<T>: string->T->T
//	  let Mark: string->()
//
// and call them like any other function, so the program itself carries its observation points (they also pin the
// evaluation order).  show() is the refinement mapping from Go values to the canonical display of abstract values used by
// spec/FoSem.tla (Show); it relies only on the documented Go representation of Folang values:
//
//	int -> I<n>, string -> S"<s>", bool -> Btrue/Bfalse, slice -> L[..], frt.Tuple2/3 -> T(..),
//	union case struct U_C{Value} -> U:U_C(..) / U:U_C, record struct -> R:Name{f=..;..}, func -> F
package main

import (
	"bufio"
	"fmt"
	"os"
	"reflect"
	"strings"
)

var probeOut = bufio.NewWriterSize(os.Stdout, 1<<20)

func show(v reflect.Value) string {
	switch v.Kind() {
	case reflect.Int, reflect.Int64, reflect.Int32:
		return fmt.Sprintf("I%d", v.Int())
	case reflect.String:
		return "S\"" + v.String() + "\""
	case reflect.Bool:
		if v.Bool() {
			return "Btrue"
		}
		return "Bfalse"
	case reflect.Slice:
		parts := []string{}
		for i := 0; i < v.Len(); i++ {
			parts = append(parts, show(v.Index(i)))
		}
		return "L[" + strings.Join(parts, ",") + "]"
	case reflect.Interface:
		if v.IsNil() {
			return "NIL"
		}
		return show(v.Elem())
	case reflect.Func:
		return "F"
	case reflect.Struct:
		t := v.Type()
		name := t.Name()
		if i := strings.Index(name, "["); i > 0 && !strings.HasPrefix(name, "Tuple") {
			name = name[:i] // a generic user type: the type arguments are not part of the abstract value
		}
		if strings.HasSuffix(t.PkgPath(), "/frt") && strings.HasPrefix(name, "Tuple") {
			parts := []string{}
			for i := 0; i < v.NumField(); i++ {
				parts = append(parts, show(v.Field(i)))
			}
			return "T(" + strings.Join(parts, ",") + ")"
		}
		isCase := false
		for i := 0; i < t.NumMethod(); i++ {
			if strings.HasSuffix(t.Method(i).Name, "_Union") {
				isCase = true
			}
		}
		if isCase {
			if v.NumField() == 0 {
				return "U:" + name
			}
			return "U:" + name + "(" + show(v.Field(0)) + ")"
		}
		parts := []string{}
		for i := 0; i < v.NumField(); i++ {
			parts = append(parts, t.Field(i).Name+"="+show(v.Field(i)))
		}
		return "R:" + name + "{" + strings.Join(parts, ";") + "}"
	}
	return "?" + v.Kind().String()
}

func Probe[T any](tag string, v T) T {
	fmt.Fprintf(probeOut, "EV\t%s\t%s\n", tag, show(reflect.ValueOf(&v).Elem()))
	return v
}

func Mark(tag string) {
	fmt.Fprintf(probeOut, "EV\t%s\tU\n", tag)
}

// runProgram calls one generated program under recover and prints its status line.
func runProgram(id int, f func() any) {
	fmt.Fprintf(probeOut, "BEGIN\t%d\n", id)
	defer func() {
		if r := recover(); r != nil {
			fmt.Fprintf(probeOut, "END\t%d\tpanic\t%v\n", id, r)
		}
	}()
	res := f()
	fmt.Fprintf(probeOut, "END\t%d\tok\t%s\n", id, show(reflect.ValueOf(&res).Elem()))
}

// monomorphic probes for the tinyfo profile (tinyfo has no generic package_info functions with inferred type arguments)
func ProbeI(tag string, v int) int       { return Probe(tag, v) }
func ProbeS(tag string, v string) string { return Probe(tag, v) }
func ProbeB(tag string, v bool) bool     { return Probe(tag, v) }

// foreign functions (C03): record the arguments in the order received
func emitCall(tag string, args ...any) {
	parts := []string{}
	for i := range args {
		parts = append(parts, show(reflect.ValueOf(&args[i]).Elem()))
	}
	fmt.Fprintf(probeOut, "EV\t%s\tT(%s)\n", tag, strings.Join(parts, ","))
}

// name of a type argument as written in Folang (int, string, bool, any)
func typeArgName[T any]() string {
	n := fmt.Sprintf("%T", *new(T))
	if n == "<nil>" {
		return "any"
	}
	return n
}
