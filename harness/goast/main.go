// goast: extractors over the Go source emitted by fc (go/parser based; independent of the repository).
//
//	goast exprs <file.go>     one JSON line per top-level func: {"name", "sig", "tree"} where tree is the expression
//	                          tree of the function's last statement (return value), in the encoding of FoPrec.tla
//	goast decls <file.go>     one JSON line per top-level declaration: {"kind", "name", "text"} (go/printer text)
//	goast sigs  <file.go>     one JSON line per top-level func: {"name", "tparams", "params", "results"} (type texts)
//	goast types <file.go>     sigs lines (plus "targs": type arguments of the first instantiation in the body) and one line
//	                          per struct type: {"struct", "fields": [[name, type text], ...]}
package main

import (
	"bytes"
	"encoding/json"
	"fmt"
	"go/ast"
	"go/parser"
	"go/printer"
	"go/token"
	"os"
	"regexp"
	"strings"
)

var fset = token.NewFileSet()

func text(n ast.Node) string {
	var b bytes.Buffer
	printer.Fprint(&b, fset, n)
	return b.String()
}

func atom(s string) any { return []any{"atom", s} }

// frt.X or frt.X[T...] -> "X"
func frtName(e ast.Expr) string {
	switch f := e.(type) {
	case *ast.IndexExpr:
		return frtName(f.X)
	case *ast.IndexListExpr:
		return frtName(f.X)
	case *ast.SelectorExpr:
		if id, ok := f.X.(*ast.Ident); ok && id.Name == "frt" {
			return f.Sel.Name
		}
	}
	return ""
}

func tree(e ast.Expr) any {
	switch x := e.(type) {
	case *ast.ParenExpr:
		return tree(x.X)
	case *ast.BinaryExpr:
		return []any{"bin", x.Op.String(), tree(x.X), tree(x.Y)}
	case *ast.Ident:
		return atom(x.Name)
	case *ast.BasicLit:
		return atom(x.Value)
	case *ast.CompositeLit:
		// a slice literal []T{a, b}
		if _, ok := x.Type.(*ast.ArrayType); ok {
			es := []any{}
			for _, a := range x.Elts {
				es = append(es, tree(a))
			}
			return []any{"sl", es}
		}
	case *ast.FuncLit:
		// a Folang lambda: func(y T) U { return e }  ->  lam y e   (the closures of partial applications name their parameters _rN)
		if x.Type.Params != nil && len(x.Type.Params.List) == 1 && len(x.Type.Params.List[0].Names) == 1 &&
			!strings.HasPrefix(x.Type.Params.List[0].Names[0].Name, "_r") && len(x.Body.List) == 1 {
			if rs, ok := x.Body.List[0].(*ast.ReturnStmt); ok && len(rs.Results) == 1 {
				return []any{"lam", x.Type.Params.List[0].Names[0].Name, tree(rs.Results[0])}
			}
		}
		// closure made for a partial application: func(_r0 T) U { return h(b, _r0) }  ->  app h b
		if len(x.Body.List) == 1 {
			var call *ast.CallExpr
			switch s := x.Body.List[0].(type) {
			case *ast.ReturnStmt:
				if len(s.Results) == 1 {
					call, _ = s.Results[0].(*ast.CallExpr)
				}
			case *ast.ExprStmt:
				call, _ = s.X.(*ast.CallExpr)
			}
			if call != nil && len(call.Args) >= 2 {
				if id, ok := call.Fun.(*ast.Ident); ok && len(call.Args) == 2 {
					return []any{"app", id.Name, tree(call.Args[0])}
				}
			}
		}
		return atom("<closure>")
	case *ast.CallExpr:
		switch frtName(x.Fun) {
		case "OpEqual":
			return []any{"bin", "=", tree(x.Args[0]), tree(x.Args[1])}
		case "OpNotEqual":
			return []any{"bin", "<>", tree(x.Args[0]), tree(x.Args[1])}
		case "Pipe", "PipeUnit":
			return []any{"bin", "|>", tree(x.Args[0]), tree(x.Args[1])}
		case "OpNot":
			return []any{"not", tree(x.Args[0])}
		case "NewTuple2", "NewTuple3":
			args := []any{}
			for _, a := range x.Args {
				args = append(args, tree(a))
			}
			return []any{"tup", args}
		case "IfElse":
			// frt.IfElse(c, func() T { return t }, func() T { return e })  ->  if c t e
			if len(x.Args) == 3 {
				br := func(a ast.Expr) any {
					for {
						pe, ok := a.(*ast.ParenExpr)
						if !ok {
							break
						}
						a = pe.X
					}
					if fl, ok := a.(*ast.FuncLit); ok && len(fl.Body.List) == 1 {
						if rs, ok := fl.Body.List[0].(*ast.ReturnStmt); ok && len(rs.Results) == 1 {
							return tree(rs.Results[0])
						}
					}
					return atom("<branch>")
				}
				return []any{"if", tree(x.Args[0]), br(x.Args[1]), br(x.Args[2])}
			}
		}
		if id, ok := x.Fun.(*ast.Ident); ok && len(x.Args) == 1 {
			return []any{"app", id.Name, tree(x.Args[0])}
		}
		if id, ok := x.Fun.(*ast.Ident); ok && len(x.Args) >= 2 {
			args := []any{}
			for _, a := range x.Args {
				args = append(args, tree(a))
			}
			return []any{"appn", id.Name, args}
		}
		return atom("<call:" + text(x.Fun) + ">")
	}
	return atom("<" + fmt.Sprintf("%T", e) + ">")
}

var tempRx = regexp.MustCompile(`^_v[0-9]+$`)

// alphaTemps renames the compiler-introduced temporaries (_vN) of one top-level declaration by BINDING: every declared temporary
// gets the number of its declaration in source order (go/parser's object resolution tells which declaration an occurrence
// refers to), so that two translations that differ only in the numbers the temporaries carry - including two temporaries that
// carry the same number in one of them, one shadowing the other - print identically.  Unresolved occurrences keep a number per name.
func alphaTemps(n ast.Node) {
	byObj := map[*ast.Object]int{}
	byName := map[string]int{}
	next := 0
	ast.Inspect(n, func(m ast.Node) bool {
		id, ok := m.(*ast.Ident)
		if !ok || !tempRx.MatchString(id.Name) {
			return true
		}
		k := 0
		if id.Obj != nil {
			if byObj[id.Obj] == 0 {
				next++
				byObj[id.Obj] = next
			}
			k = byObj[id.Obj]
		} else {
			if byName[id.Name] == 0 {
				next++
				byName[id.Name] = next
			}
			k = byName[id.Name]
		}
		id.Name = fmt.Sprintf("_v%d", k)
		return true
	})
}

func fieldTypes(fl *ast.FieldList) []string {
	r := []string{}
	if fl == nil {
		return r
	}
	for _, f := range fl.List {
		n := len(f.Names)
		if n == 0 {
			n = 1
		}
		for i := 0; i < n; i++ {
			r = append(r, text(f.Type))
		}
	}
	return r
}

func main() {
	if len(os.Args) != 3 {
		fmt.Fprintln(os.Stderr, "usage: goast exprs|decls|sigs|types file.go")
		os.Exit(2)
	}
	f, err := parser.ParseFile(fset, os.Args[2], nil, parser.ParseComments)
	if err != nil {
		// the emitted file is not Go: report as data, the caller decides
		json.NewEncoder(os.Stdout).Encode(map[string]any{"parse_error": err.Error()})
		os.Exit(3)
	}
	enc := json.NewEncoder(os.Stdout)
	enc.SetEscapeHTML(false)
	for _, d := range f.Decls {
		switch os.Args[1] {
		case "exprs":
			fd, ok := d.(*ast.FuncDecl)
			if !ok || fd.Body == nil || fd.Recv != nil || len(fd.Body.List) == 0 {
				continue
			}
			var e ast.Expr
			switch s := fd.Body.List[len(fd.Body.List)-1].(type) {
			case *ast.ReturnStmt:
				if len(s.Results) == 1 {
					e = s.Results[0]
				}
			case *ast.ExprStmt:
				e = s.X
			}
			if e == nil {
				enc.Encode(map[string]any{"name": fd.Name.Name, "tree": atom("<none>"), "nstmts": len(fd.Body.List)})
				continue
			}
			enc.Encode(map[string]any{"name": fd.Name.Name, "tree": tree(e), "nstmts": len(fd.Body.List)})
		case "sigs":
			fd, ok := d.(*ast.FuncDecl)
			if !ok || fd.Recv != nil {
				continue
			}
			tps := []string{}
			if fd.Type.TypeParams != nil {
				for _, tp := range fd.Type.TypeParams.List {
					for _, n := range tp.Names {
						tps = append(tps, n.Name+" "+text(tp.Type))
					}
				}
			}
			pnames := []string{}
			if fd.Type.Params != nil {
				for _, p := range fd.Type.Params.List {
					for _, n := range p.Names {
						pnames = append(pnames, n.Name)
					}
				}
			}
			enc.Encode(map[string]any{"name": fd.Name.Name, "tparams": tps, "params": fieldTypes(fd.Type.Params),
				"pnames": pnames, "results": fieldTypes(fd.Type.Results)})
		case "types":
			switch x := d.(type) {
			case *ast.FuncDecl:
				if x.Recv != nil {
					continue
				}
				targs := []string{}
				if x.Body != nil {
					found := false
					ast.Inspect(x.Body, func(n ast.Node) bool {
						if found {
							return false
						}
						// the first call of an explicitly instantiated function: pkg.F[T](..), F[T](..)
						if ce, ok := n.(*ast.CallExpr); ok {
							switch ie := ce.Fun.(type) {
							case *ast.IndexExpr:
								targs = append(targs, text(ie.Index))
								found = true
							case *ast.IndexListExpr:
								for _, ix := range ie.Indices {
									targs = append(targs, text(ix))
								}
								found = true
							}
						}
						return !found
					})
				}
				enc.Encode(map[string]any{"name": x.Name.Name, "params": fieldTypes(x.Type.Params), "results": fieldTypes(x.Type.Results), "targs": targs})
			case *ast.GenDecl:
				for _, sp := range x.Specs {
					if ts, ok := sp.(*ast.TypeSpec); ok {
						if st, ok := ts.Type.(*ast.StructType); ok {
							fields := [][]string{}
							for _, f := range st.Fields.List {
								for _, n := range f.Names {
									fields = append(fields, []string{n.Name, text(f.Type)})
								}
							}
							enc.Encode(map[string]any{"struct": ts.Name.Name, "fields": fields})
						}
					}
				}
			}
		case "decls":
			switch x := d.(type) {
			case *ast.FuncDecl:
				name := x.Name.Name
				kind := "func"
				if x.Recv != nil {
					kind = "method"
					name = text(x.Recv.List[0].Type) + "." + name
				}
				alphaTemps(x)
				enc.Encode(map[string]any{"kind": kind, "name": name, "text": text(x)})
			case *ast.GenDecl:
				alphaTemps(x)
				for _, sp := range x.Specs {
					switch s := sp.(type) {
					case *ast.TypeSpec:
						enc.Encode(map[string]any{"kind": "type", "name": s.Name.Name, "text": text(s)})
					case *ast.ValueSpec:
						for _, n := range s.Names {
							enc.Encode(map[string]any{"kind": "var", "name": n.Name, "text": text(s)})
						}
					case *ast.ImportSpec:
						enc.Encode(map[string]any{"kind": "import", "name": s.Path.Value, "text": text(s)})
					}
				}
			}
		}
	}
}
