// drv_eq: binds FoEq.tla to the real frt.OpEqual / frt.OpNotEqual (C10).
//
//	drv_eq <pairs.ndjson> <out.ndjson>
//
// Each input line is {ty, a, b, shared}: two abstract values of the Folang type ty (see FoEq.tla for the encoding).
// The record / union types are declared in eqtypes.fo and emitted by fc (gen_eqtypes.go in this package), so the Go
// representation of the values is the transpiler's; slices are produced through the real library path named by
// their HOW tag.  The driver records a = b, a <> b and b = a; TLC (FoEqTrace) judges.
package main

import (
	"bufio"
	"encoding/json"
	"fmt"
	"os"

	"github.com/karino2/folang/pkg/dict"
	"github.com/karino2/folang/pkg/frt"
	"github.com/karino2/folang/pkg/slice"
)

type Pair struct {
	Ty     string `json:"ty"`
	A      []any  `json:"a"`
	B      []any  `json:"b"`
	Shared string `json:"shared"`
}

type Out struct {
	Pair
	Eq    bool   `json:"eq"`
	Neq   bool   `json:"neq"`
	EqRev bool   `json:"eqrev"`
	Panic string `json:"panic"`
}

func tag(v []any) string { return v[0].(string) }

func dInt(v []any) int {
	if tag(v) != "int" {
		panic("drv: int expected")
	}
	return int(v[1].(float64))
}
func dStr(v []any) string  { return v[1].(string) }
func dBool(v []any) bool   { return v[1].(bool) }
func list(x any) [][]any {
	r := [][]any{}
	for _, e := range x.([]any) {
		r = append(r, e.([]any))
	}
	return r
}

func dPt(v []any) Pt {
	fs := list(v[2])
	return Pt{X: dInt(fs[0]), Y: dInt(fs[1])}
}

func dLrec(v []any) lrec {
	fs := list(v[2])
	return lrec{name: dStr(fs[0]), vals: dSlice(fs[1], dInt, 7)}
}

func dColor(v []any) Color {
	switch v[2].(string) {
	case "Red":
		return New_Color_Red
	case "Green":
		return New_Color_Green
	}
	panic("drv: bad color")
}

func dShape(v []any) Shape {
	p := list(v[3])
	switch v[2].(string) {
	case "Circle":
		return New_Shape_Circle(dInt(p[0]))
	case "Rect":
		return New_Shape_Rect(dPt(p[0]))
	case "Poly":
		return New_Shape_Poly(dSlice(p[0], dInt, 7))
	case "Unit0":
		return New_Shape_Unit0
	}
	panic("drv: bad shape")
}

func dWrap(v []any) Wrap {
	fs := list(v[2])
	return Wrap{Id: dInt(fs[0]), Body: dShape(fs[1])}
}

func dTup2(v []any) frt.Tuple2[int, string] {
	es := list(v[1])
	return frt.NewTuple2(dInt(es[0]), dStr(es[1]))
}

func dTup3(v []any) frt.Tuple3[int, int, bool] {
	es := list(v[1])
	return frt.NewTuple3(dInt(es[0]), dInt(es[1]), dBool(es[2]))
}

func dWrapTup(v []any) frt.Tuple2[Wrap, string] {
	es := list(v[1])
	return frt.NewTuple2(dWrap(es[0]), dStr(es[1]))
}

func dIntSlice(v []any) []int { return dSlice(v, dInt, 7) }

// a slice with the given elements, produced through the library path named by HOW; junk is an unrelated element
func dSlice[T any](v []any, de func([]any) T, junkSrc any) []T {
	how := v[2].(string)
	var es []T
	for _, e := range list(v[3]) {
		es = append(es, de(e))
	}
	var junk T
	if len(es) > 0 {
		junk = es[0]
	}
	lit := func(xs []T) []T { return append([]T{}, xs...) }
	with := func(pre []T, xs []T, post []T) []T {
		r := make([]T, 0, len(pre)+len(xs)+len(post))
		r = append(r, pre...)
		r = append(r, xs...)
		r = append(r, post...)
		return r
	}
	switch how {
	case "lit":
		return lit(es)
	case "new":
		return slice.New[T]()
	case "nilFilter":
		return slice.Filter(func(T) bool { return false }, []T{junk})
	case "nilMap":
		return slice.Map(func(x T) T { return x }, []T{})
	case "take0":
		return slice.Take(0, []T{junk})
	case "skipAll":
		return slice.Skip(1, []T{junk})
	case "popLastToEmpty":
		return slice.PopLast([]T{junk})
	case "tailToEmpty":
		return slice.Tail([]T{junk})
	case "frtEmpty":
		return frt.Empty[[]T]()
	case "dictValuesEmpty":
		return dict.Values(dict.New[int, T]())
	case "collectEmpty":
		return slice.Collect(func(x T) []T { return frt.Empty[[]T]() }, []T{junk})
	case "concatEmpty":
		return slice.Concat([][]T{frt.Empty[[]T](), {}})
	case "dictValues":
		d := dict.New[int, T]()
		dict.Add(d, 3, es[0])
		return dict.Values(d)
	case "collect":
		return slice.Collect(func(x T) []T { return []T{x} }, lit(es))
	case "concat":
		return slice.Concat([][]T{frt.Empty[[]T](), lit(es[:len(es)/2]), {}, lit(es[len(es)/2:])})
	case "pushLast":
		r := slice.New[T]()
		for _, e := range es {
			r = slice.PushLast(e, r)
		}
		return r
	case "take":
		return slice.Take(len(es), with(nil, es, []T{junk}))
	case "skip":
		return slice.Skip(1, with([]T{junk}, es, nil))
	case "popLast":
		return slice.PopLast(with(nil, es, []T{junk}))
	case "tail":
		return slice.Tail(with([]T{junk}, es, nil))
	case "map":
		return slice.Map(func(x T) T { return x }, lit(es))
	case "append":
		return slice.Append(lit(es[:len(es)/2]), lit(es[len(es)/2:]))
	}
	panic("drv: unknown HOW " + how)
}

// b as a view of a's own backing array (its contents are a prefix / suffix of a's)
func shared[T any](a []T, nb int, how string) []T {
	r := a
	switch how {
	case "prefixOfA":
		for len(r) > nb {
			r = slice.PopLast(r)
		}
	case "suffixOfA":
		for len(r) > nb {
			r = slice.Tail(r)
		}
	default:
		panic("drv: unknown shared " + how)
	}
	return r
}

func cmp3[T any](a, b T, o *Out) {
	o.Eq = frt.OpEqual(a, b)
	o.Neq = frt.OpNotEqual(a, b)
	o.EqRev = frt.OpEqual(b, a)
}

func cmpSl[T any](p Pair, de func([]any) T, o *Out) {
	a := dSlice(p.A, de, nil)
	b := dSlice(p.B, de, nil)
	if p.Shared != "" {
		b = shared(a, len(b), p.Shared)
	}
	cmp3(a, b, o)
}

func run(p Pair) (o Out) {
	o.Pair = p
	defer func() {
		if r := recover(); r != nil {
			o.Panic = fmt.Sprint(r)
		}
	}()
	switch p.Ty {
	case "int":
		cmp3(dInt(p.A), dInt(p.B), &o)
	case "string":
		cmp3(dStr(p.A), dStr(p.B), &o)
	case "bool":
		cmp3(dBool(p.A), dBool(p.B), &o)
	case "tup2":
		cmp3(dTup2(p.A), dTup2(p.B), &o)
	case "tup3":
		cmp3(dTup3(p.A), dTup3(p.B), &o)
	case "Pt":
		cmp3(dPt(p.A), dPt(p.B), &o)
	case "lrec":
		cmp3(dLrec(p.A), dLrec(p.B), &o)
	case "Color":
		cmp3(dColor(p.A), dColor(p.B), &o)
	case "Shape":
		cmp3(dShape(p.A), dShape(p.B), &o)
	case "Wrap":
		cmp3(dWrap(p.A), dWrap(p.B), &o)
	case "wraptup":
		cmp3(dWrapTup(p.A), dWrapTup(p.B), &o)
	case "ints":
		cmpSl(p, dInt, &o)
	case "strings":
		cmpSl(p, dStr, &o)
	case "pts":
		cmpSl(p, dPt, &o)
	case "tups":
		cmpSl(p, dTup2, &o)
	case "nested":
		cmpSl(p, dIntSlice, &o)
	default:
		panic("drv: unknown type " + p.Ty)
	}
	return o
}

func main() {
	if len(os.Args) != 3 {
		fmt.Fprintln(os.Stderr, "usage: drv_eq in out")
		os.Exit(2)
	}
	fi, err := os.Open(os.Args[1])
	if err != nil {
		fmt.Fprintln(os.Stderr, err)
		os.Exit(2)
	}
	fo, err := os.Create(os.Args[2])
	if err != nil {
		fmt.Fprintln(os.Stderr, err)
		os.Exit(2)
	}
	w := bufio.NewWriter(fo)
	sc := bufio.NewScanner(fi)
	sc.Buffer(make([]byte, 1<<20), 1<<26)
	for sc.Scan() {
		if len(sc.Bytes()) == 0 {
			continue
		}
		var p Pair
		if err := json.Unmarshal(sc.Bytes(), &p); err != nil {
			fmt.Fprintln(os.Stderr, "bad pair:", err)
			os.Exit(2)
		}
		b, _ := json.Marshal(run(p))
		w.Write(b)
		w.WriteByte('\n')
	}
	w.Flush()
	fo.Close()
}
