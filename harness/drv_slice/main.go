// drv_slice: replay driver binding the TLA+ specifications SliceLib / GoSliceHeap to the real pkg/slice.
//
//	drv_slice cases <cases.ndjson> <out.ndjson> <int|string>
//	    performs every call of the case table (written by TLC from SliceCases.tla) on the real package and
//	    records the returned value, the callback log and the contents of the arguments after the call.
//	drv_slice hist  <hists.ndjson> <out.ndjson> <int|string>
//	    replays histories (behaviours of GoSliceHeap, one JSON array per line) on a pool of real slice values
//	    and records, after EVERY call, the contents of EVERY pool value.
//
// The driver decides nothing: what it records is validated by TLC (SliceLibTrace / GoSliceHeapTrace).
package main

import (
	"bufio"
	"encoding/json"
	"fmt"
	"os"
	"strconv"

	"github.com/karino2/folang/pkg/frt"
	"github.com/karino2/folang/pkg/slice"
)

type Case struct {
	Op  string  `json:"op"`
	S   []int   `json:"s"`
	S2  []int   `json:"s2"`
	Ss  [][]int `json:"ss"`
	N   int     `json:"n"`
	E   int     `json:"e"`
	F   string  `json:"f"`
	Acc int     `json:"acc"`
}

type Out struct {
	Case
	Inst    string  `json:"inst"`
	Shape   int     `json:"shape"`
	Ret     any     `json:"ret"`
	Log     []int   `json:"log"`
	After   []int   `json:"after"`
	After2  []int   `json:"after2"`
	AfterSs [][]int `json:"afterss"` // the outer list handed to Concat, as it is after the call
	Parent0 []int   `json:"parent0"`
	Parent1 []int   `json:"parent1"`
	Panic   string  `json:"panic"`
}

// ---- the function family (same names and meaning as in SliceLib.tla)
func applyU(f string, x int) int {
	switch f {
	case "inc":
		return x + 1
	case "dbl":
		return 2 * x
	case "neg":
		return -x
	case "sq":
		return x * x
	case "const7":
		return 7
	case "id":
		return x
	case "mod2":
		return ((x % 2) + 2) % 2
	}
	panic("drv: unknown unary " + f)
}

func applyP(f string, x int) bool {
	switch f {
	case "isEven":
		return x%2 == 0
	case "isPos":
		return x > 0
	case "gt1":
		return x > 1
	case "constT":
		return true
	case "constF":
		return false
	}
	panic("drv: unknown pred " + f)
}

func applyI(f string, i int, x int) int {
	switch f {
	case "idxPlus":
		return i + x
	case "idxTimes":
		return i * x
	case "fstIdx":
		return i
	}
	panic("drv: unknown idx fn " + f)
}

func applyL(f string, x int) []int {
	switch f {
	case "rep":
		return []int{x, x}
	case "upto":
		var r []int
		for k := 1; k <= x; k++ {
			r = append(r, k)
		}
		return r
	case "none":
		return nil
	case "single":
		return []int{x + 10}
	}
	panic("drv: unknown list fn " + f)
}

func applyF(f string, s int, x int) int {
	switch f {
	case "add":
		return s + x
	case "sub":
		return s - x
	case "snoc10":
		return 10*s + x
	}
	panic("drv: unknown fold fn " + f)
}

// ---- element instantiations
type codec[T any] struct {
	enc func(int) T
	dec func(T) int
}

var intCodec = codec[int]{func(i int) int { return i }, func(i int) int { return i }}

// order isomorphism onto ints that are far apart (multiples of 2^61 around 0): differences of two elements overflow int64
var xintCodec = codec[int]{func(i int) int { return (i - 2) * (1 << 61) }, func(x int) int { return x/(1<<61) + 2 }}

// order isomorphism int -> string (fixed width, offset), "" decodes to the zero value 0
var strCodec = codec[string]{
	func(i int) string { return fmt.Sprintf("%06d", i+500000) },
	func(s string) int {
		if s == "" {
			return 0
		}
		n, err := strconv.Atoi(s)
		if err != nil {
			panic("drv: bad string element " + s)
		}
		return n - 500000
	},
}

func encS[T any](c codec[T], s []int) []T {
	r := make([]T, 0, len(s))
	for _, x := range s {
		r = append(r, c.enc(x))
	}
	return r
}

func decS[T any](c codec[T], s []T) []int {
	r := make([]int, 0, len(s))
	for _, x := range s {
		r = append(r, c.dec(x))
	}
	return r
}

const junk = 77

// shape 0: exact literal; 1: spare capacity (append-growth like, cells beyond len never seen by any value);
// 2: a view into a live parent value obtained through the library itself (Tail/PopLast of [junk, s..., junk])
func mkInput[T any](c codec[T], s []int, shape int) (val []T, parent []T) {
	switch shape {
	case 1:
		r := make([]T, 0, len(s)+2)
		r = append(r, encS(c, s)...)
		return r, nil
	case 2:
		p := make([]T, 0, len(s)+2)
		p = append(p, c.enc(junk))
		p = append(p, encS(c, s)...)
		p = append(p, c.enc(junk))
		return slice.PopLast(slice.Tail(p)), p
	}
	return encS(c, s), nil
}

// pairs of strings whose %v texts coincide for different values ({a b c}, {x y }): elements of a struct type, for the functions that
// need no order (a Distinct keyed by the printed text would confuse them)
type spair = frt.Tuple2[string, string]

var pairTable = []spair{{E0: "a b", E1: "c"}, {E0: "a", E1: "b c"}, {E0: "x y", E1: ""}, {E0: "x", E1: "y "}, {E0: "", E1: "x y"}, {E0: "x", E1: " y"},
	{E0: "q", E1: "r"}, {E0: "q r", E1: ""}, {E0: "", E1: "q r"}, {E0: "z", E1: "z"}}

var pairCodec = codec[spair]{
	func(i int) spair {
		if i == junk {
			return spair{E0: "junk", E1: "junk"}
		}
		if i < 0 || i >= len(pairTable) {
			panic("drv: pair element out of range")
		}
		return pairTable[i]
	},
	func(p spair) int {
		for i, q := range pairTable {
			if p == q {
				return i
			}
		}
		if p == (spair{E0: "junk", E1: "junk"}) {
			return junk
		}
		panic("drv: unknown pair element")
	},
}

func runPairCase(cs Case, shape int) (out Out) {
	c := pairCodec
	out.Case = cs
	out.Inst = "pair"
	out.Shape = shape
	out.Log = []int{}
	out.After, out.After2, out.Parent0, out.Parent1 = []int{}, []int{}, []int{}, []int{}
	out.AfterSs = [][]int{}
	s, parent := mkInput(c, cs.S, shape)
	if parent != nil {
		out.Parent0 = decS(c, parent)
	}
	defer func() {
		if r := recover(); r != nil {
			out.Panic = fmt.Sprint(r)
			out.Ret = "PANIC"
		}
		out.After = decS(c, s)
		if parent != nil {
			out.Parent1 = decS(c, parent)
		}
	}()
	switch cs.Op {
	case "Distinct":
		out.Ret = decS(c, slice.Distinct(s))
	case "Length":
		out.Ret = slice.Length(s)
	default:
		panic("drv: op not available for pairs " + cs.Op)
	}
	return out
}

func runCase[T interface {
	comparable
	~int | ~string
}](c codec[T], cs Case, shape int, inst string) (out Out) {
	out.Case = cs
	out.Inst = inst
	out.Shape = shape
	out.Log = []int{}
	out.After, out.After2, out.Parent0, out.Parent1 = []int{}, []int{}, []int{}, []int{}
	s, parent := mkInput(c, cs.S, shape)
	s2, _ := mkInput(c, cs.S2, shape%2)
	if parent != nil {
		out.Parent0 = decS(c, parent)
	}
	var ss [][]T
	for _, x := range cs.Ss {
		ss = append(ss, encS(c, x))
	}
	log := func(x T) { out.Log = append(out.Log, c.dec(x)) }
	defer func() {
		if r := recover(); r != nil {
			out.Panic = fmt.Sprint(r)
			out.Ret = "PANIC"
		}
		out.After = decS(c, s)
		out.After2 = decS(c, s2)
		out.AfterSs = [][]int{}
		for _, x := range ss {
			out.AfterSs = append(out.AfterSs, decS(c, x))
		}
		if parent != nil {
			out.Parent1 = decS(c, parent)
		}
	}()
	e := c.enc(cs.E)
	switch cs.Op {
	case "Length":
		out.Ret = slice.Length(s)
	case "Len":
		out.Ret = slice.Len(s)
	case "IsEmpty":
		out.Ret = slice.IsEmpty(s)
	case "IsNotEmpty":
		out.Ret = slice.IsNotEmpty(s)
	case "New":
		out.Ret = decS(c, slice.New[T]())
	case "Item":
		out.Ret = c.dec(slice.Item(cs.N, s))
	case "Head":
		out.Ret = c.dec(slice.Head(s))
	case "Last":
		out.Ret = c.dec(slice.Last(s))
	case "Tail":
		out.Ret = decS(c, slice.Tail(s))
	case "PopLast":
		out.Ret = decS(c, slice.PopLast(s))
	case "Take":
		out.Ret = decS(c, slice.Take(cs.N, s))
	case "Skip":
		out.Ret = decS(c, slice.Skip(cs.N, s))
	case "PushLast":
		out.Ret = decS(c, slice.PushLast(e, s))
	case "PushHead":
		out.Ret = decS(c, slice.PushHead(e, s))
	case "Append":
		out.Ret = decS(c, slice.Append(s, s2))
	case "Concat":
		out.Ret = decS(c, slice.Concat(ss))
	case "Map":
		out.Ret = decS(c, slice.Map(func(x T) T { log(x); return c.enc(applyU(cs.F, c.dec(x))) }, s))
	case "Mapi":
		out.Ret = decS(c, slice.Mapi(func(i int, x T) T { log(x); return c.enc(applyI(cs.F, i, c.dec(x))) }, s))
	case "Iter":
		slice.Iter(func(x T) { log(x) }, s)
		out.Ret = 0
	case "Filter":
		out.Ret = decS(c, slice.Filter(func(x T) bool { log(x); return applyP(cs.F, c.dec(x)) }, s))
	case "Collect":
		out.Ret = decS(c, slice.Collect(func(x T) []T { log(x); return encS(c, applyL(cs.F, c.dec(x))) }, s))
	case "Zip":
		z := slice.Zip(s, s2)
		r := [][]int{}
		for _, p := range z {
			r = append(r, []int{c.dec(p.E0), c.dec(p.E1)})
		}
		out.Ret = r
	case "Forall":
		out.Ret = slice.Forall(func(x T) bool { log(x); return applyP(cs.F, c.dec(x)) }, s)
	case "Forany":
		out.Ret = slice.Forany(func(x T) bool { log(x); return applyP(cs.F, c.dec(x)) }, s)
	case "TryFind":
		r := slice.TryFind(func(x T) bool { log(x); return applyP(cs.F, c.dec(x)) }, s)
		out.Ret = []any{c.dec(r.E0), r.E1}
	case "Fold":
		out.Ret = slice.Fold(func(a int, x T) int { log(x); return applyF(cs.F, a, c.dec(x)) }, cs.Acc, s)
	case "Sort":
		out.Ret = decS(c, slice.Sort(s))
	case "SortBy":
		if inst == "string" {
			// projection to an ordered string key
			out.Ret = decS(c, slice.SortBy(func(x T) string { return strCodec.enc(applyU(cs.F, c.dec(x))) }, s))
		} else {
			out.Ret = decS(c, slice.SortBy(func(x T) int { return applyU(cs.F, c.dec(x)) }, s))
		}
	case "Distinct":
		out.Ret = decS(c, slice.Distinct(s))
	default:
		panic("drv: unknown op " + cs.Op)
	}
	return out
}

// ---- histories
type HStep struct {
	Op string `json:"op"`
	I  int    `json:"i"`
	J  int    `json:"j"`
	N  int    `json:"n"`
	E  int    `json:"e"`
	F  string `json:"f"`
}

type HOut struct {
	H     int     `json:"h"`
	K     int     `json:"k"`
	Op    string  `json:"op"`
	I     int     `json:"i"`
	J     int     `json:"j"`
	N     int     `json:"n"`
	E     int     `json:"e"`
	F     string  `json:"f"`
	Pool  [][]int `json:"pool"`
	Lens  []int   `json:"lens"`
	Caps  []int   `json:"caps"`
	Panic string  `json:"panic"`
}

func runHist[T interface {
	comparable
	~int | ~string
}](c codec[T], h int, steps []HStep, w *bufio.Writer) {
	var pool [][]T
	enc := json.NewEncoder(w)
	for k, st := range steps {
		o := HOut{H: h, K: k + 1, Op: st.Op, I: st.I, J: st.J, N: st.N, E: st.E, F: st.F}
		func() {
			defer func() {
				if r := recover(); r != nil {
					o.Panic = fmt.Sprint(r)
				}
			}()
			var arg, arg2 []T
			if st.Op != "Init" {
				arg = pool[st.I-1]
				if st.J > 0 {
					arg2 = pool[st.J-1]
				}
			}
			e := c.enc(st.E)
			var res []T
			switch st.Op {
			case "Init":
				// the view arr[off : off+len] of an array [1..c]:  i = c, j = off, n = len
				arr := make([]T, st.I)
				for m := range arr {
					arr[m] = c.enc(m + 1)
				}
				res = arr[st.J : st.J+st.N]
				if st.I == 0 {
					res = nil
				}
			case "Tail":
				res = slice.Tail(arg)
			case "PopLast":
				res = slice.PopLast(arg)
			case "Take":
				res = slice.Take(st.N, arg)
			case "Skip":
				res = slice.Skip(st.N, arg)
			case "PushLast":
				res = slice.PushLast(e, arg)
			case "PushHead":
				res = slice.PushHead(e, arg)
			case "Append":
				res = slice.Append(arg, arg2)
			case "Concat":
				res = slice.Concat([][]T{arg, arg2})
			case "CollectIdx":
				// the callback hands back existing pool values
				res = slice.Collect(func(k int) []T { return pool[k] }, []int{st.I - 1, st.J - 1})
			case "Map":
				res = slice.Map(func(x T) T { return c.enc(applyU(st.F, c.dec(x))) }, arg)
			case "Mapi":
				res = slice.Mapi(func(i int, x T) T { return c.enc(applyI(st.F, i, c.dec(x))) }, arg)
			case "Collect":
				res = slice.Collect(func(x T) []T { return encS(c, applyL(st.F, c.dec(x))) }, arg)
			case "Filter":
				res = slice.Filter(func(x T) bool { return applyP(st.F, c.dec(x)) }, arg)
			case "Sort":
				res = slice.Sort(arg)
			case "SortBy":
				res = slice.SortBy(func(x T) int { return applyU(st.F, c.dec(x)) }, arg)
			case "Distinct":
				res = slice.Distinct(arg)
			default:
				panic("drv: unknown op " + st.Op)
			}
			pool = append(pool, res)
		}()
		o.Pool = [][]int{}
		o.Lens, o.Caps = []int{}, []int{}
		for _, v := range pool {
			o.Pool = append(o.Pool, decS(c, v))
			o.Lens = append(o.Lens, len(v))
			o.Caps = append(o.Caps, cap(v))
		}
		enc.Encode(o)
		if o.Panic != "" {
			return
		}
	}
}

var _ = frt.Fst[int, int]

func main() {
	if len(os.Args) != 5 {
		fmt.Fprintln(os.Stderr, "usage: drv_slice cases|hist in out int|string")
		os.Exit(2)
	}
	mode, in, outp, inst := os.Args[1], os.Args[2], os.Args[3], os.Args[4]
	fi, err := os.Open(in)
	if err != nil {
		fmt.Fprintln(os.Stderr, err)
		os.Exit(2)
	}
	fo, err := os.Create(outp)
	if err != nil {
		fmt.Fprintln(os.Stderr, err)
		os.Exit(2)
	}
	w := bufio.NewWriter(fo)
	sc := bufio.NewScanner(fi)
	sc.Buffer(make([]byte, 1<<20), 1<<26)
	n := 0
	for sc.Scan() {
		line := sc.Bytes()
		if len(line) == 0 {
			continue
		}
		n++
		switch mode {
		case "cases":
			var cs Case
			if err := json.Unmarshal(line, &cs); err != nil {
				fmt.Fprintln(os.Stderr, "bad case:", err)
				os.Exit(2)
			}
			for shape := 0; shape < 3; shape++ {
				var o Out
				if inst == "string" {
					o = runCase(strCodec, cs, shape, inst)
				} else if inst == "pair" {
					o = runPairCase(cs, shape)
				} else if inst == "xint" {
					o = runCase(xintCodec, cs, shape, inst)
				} else {
					o = runCase(intCodec, cs, shape, inst)
				}
				b, _ := json.Marshal(o)
				w.Write(b)
				w.WriteByte('\n')
			}
		case "hist":
			var steps []HStep
			if err := json.Unmarshal(line, &steps); err != nil {
				fmt.Fprintln(os.Stderr, "bad history:", err)
				os.Exit(2)
			}
			if inst == "string" {
				runHist(strCodec, n, steps, w)
			} else {
				runHist(intCodec, n, steps, w)
			}
		}
	}
	w.Flush()
	fo.Close()
}
