package main

// White-box replay driver for spec/FoLex.tla (C16): copied by tools/checks/c16.py into the SCRATCH copy of fc/ (never into
// /repo) and compiled with `go test -c`.  It calls scanTokenAt(buf, pos) for every position of every buffer of the input
// file under recover and records what happened; a call that does not return within 3 s is recorded as HANG and the
// process exits (the caller restarts it after that buffer).  If fc's internals are refactored so that this file no
// longer compiles, the layer is skipped (reported in the evidence), the black-box layers still decide.

import (
	"bufio"
	"encoding/json"
	"fmt"
	"os"
	"strings"
	"sync/atomic"
	"testing"
	"time"
)

type verifScanRec struct {
	I     int      `json:"i"`
	Buf   []string `json:"buf"`
	Pos   int      `json:"pos"`
	Tt    string   `json:"tt"`
	Begin int      `json:"begin"`
	Len   int      `json:"len"`
	Panic bool     `json:"panic"`
	Hang  bool     `json:"hang"`
}

func TestVerifScan(t *testing.T) {
	in, outp := os.Getenv("VERIF_SCAN_IN"), os.Getenv("VERIF_SCAN_OUT")
	if in == "" {
		t.Skip("driver only")
	}
	from := 0
	fmt.Sscan(os.Getenv("VERIF_SCAN_FROM"), &from)
	fi, err := os.Open(in)
	if err != nil {
		t.Fatal(err)
	}
	fo, err := os.OpenFile(outp, os.O_APPEND|os.O_CREATE|os.O_WRONLY, 0644)
	if err != nil {
		t.Fatal(err)
	}
	w := bufio.NewWriter(fo)
	enc := json.NewEncoder(w)
	var progress int64
	var cur atomic.Value
	cur.Store(verifScanRec{})
	go func() {
		last := int64(-1)
		for {
			time.Sleep(3 * time.Second)
			p := atomic.LoadInt64(&progress)
			if p == last {
				r := cur.Load().(verifScanRec)
				r.Hang = true
				w.Flush()
				b, _ := json.Marshal(r)
				fo.Write(append(b, '\n'))
				fo.Close()
				os.Exit(3)
			}
			last = p
		}
	}()
	sc := bufio.NewScanner(fi)
	sc.Buffer(make([]byte, 1<<20), 1<<24)
	i := 0
	for sc.Scan() {
		i++
		if i <= from {
			continue
		}
		var chars []string
		if err := json.Unmarshal(sc.Bytes(), &chars); err != nil {
			t.Fatal(err)
		}
		s := strings.Join(chars, "")
		for pos := 0; pos <= len(s); pos++ {
			rec := verifScanRec{I: i, Buf: chars, Pos: pos}
			if rec.Buf == nil {
				rec.Buf = []string{}
			}
			cur.Store(rec)
			atomic.AddInt64(&progress, 1)
			func() {
				defer func() {
					if r := recover(); r != nil {
						rec.Panic = true
						rec.Tt = "PANIC"
					}
				}()
				tk := scanTokenAt(s, pos)
				rec.Tt = strings.Trim(fmt.Sprint(tk.ttype), "()")
				rec.Begin, rec.Len = tk.begin, tk.len
			}()
			enc.Encode(rec)
		}
		atomic.AddInt64(&progress, 1)
	}
	w.Flush()
	fo.Close()
}
