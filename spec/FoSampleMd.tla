------------------------------ MODULE FoSampleMd ------------------------------
(***************************************************************************)
(* cmd/build_sample_md (C18) as a machine.                                 *)
(*                                                                         *)
(* A scenario:                                                             *)
(*   lines : the list file, a sequence of lines; a line is                 *)
(*           [blank |-> TRUE] or                                           *)
(*           [blank |-> FALSE, file |-> name, sp |-> BOOLEAN, rest |-> s]  *)
(*           (the text is  file  followed, when sp, by one space and rest) *)
(*   fs    : the readable sample files, name :> content id                 *)
(*   old   : "absent" or the id of a README.md already present             *)
(* The machine reads the list, then handles the entries in list order      *)
(* (ConvOne / FailOne) and finally writes README.md once; if an entry's    *)
(* file cannot be read the run fails and nothing is written.               *)
(***************************************************************************)
EXTENDS Integers, Sequences, FiniteSets, TLC

Entries(lines) == SelectSeq(lines, LAMBDA ln : ~ln.blank)

\* the title: the text after the first space, or the file name if there is none
Title(e) == IF e.sp THEN e.rest ELSE e.file

\* base name: the file name minus a trailing ".fo" (names are given with their base precomputed in Bases)
LinkOf(base) == "gen_" \o base \o ".go"

Section(e, fs, bases) == [title |-> Title(e), content |-> fs[e.file], link |-> LinkOf(bases[e.file])]

Readable(e, fs) == e.file \in DOMAIN fs

---------------------------------------------------------------------------
VARIABLES sc,        \* the scenario (constant during a run)
          cur,       \* next entry to handle
          secs,      \* sections accumulated so far
          procs,     \* files announced ("process: f"), in order
          readme,    \* what README.md holds: <<"absent">>, <<"old", id>> or <<"written", sections>>
          status     \* "run" | "ok" | "failed"

vars == <<sc, cur, secs, procs, readme, status>>

InitWith(s) ==
  /\ sc = s /\ cur = 1 /\ secs = <<>> /\ procs = <<>>
  /\ readme = IF s.old = "absent" THEN <<"absent">> ELSE <<"old", s.old>>
  /\ status = "run"

\* a new run begins (action form of InitWith)
StartWith(s) ==
  /\ sc' = s /\ cur' = 1 /\ secs' = <<>> /\ procs' = <<>>
  /\ readme' = (IF s.old = "absent" THEN <<"absent">> ELSE <<"old", s.old>>)
  /\ status' = "run"

ConvOne ==
  /\ status = "run" /\ cur <= Len(Entries(sc.lines))
  /\ LET e == Entries(sc.lines)[cur] IN
     /\ Readable(e, sc.fs)
     /\ procs' = Append(procs, e.file)
     /\ secs' = Append(secs, Section(e, sc.fs, sc.bases))
  /\ cur' = cur + 1 /\ UNCHANGED <<sc, readme, status>>

FailOne ==
  /\ status = "run" /\ cur <= Len(Entries(sc.lines))
  /\ LET e == Entries(sc.lines)[cur] IN
     /\ ~Readable(e, sc.fs)
     /\ procs' = Append(procs, e.file)         \* the entry is announced before the read fails
  /\ status' = "failed" /\ UNCHANGED <<sc, cur, secs, readme>>

WriteReadme ==
  /\ status = "run" /\ cur = Len(Entries(sc.lines)) + 1
  /\ readme' = <<"written", secs>> /\ status' = "ok" /\ UNCHANGED <<sc, cur, secs, procs>>

Next == ConvOne \/ FailOne \/ WriteReadme

---------------------------------------------------------------------------
(* properties of the machine *)
Complete ==    \* a written README has one section per entry, in list order
  readme[1] = "written" =>
     /\ Len(readme[2]) = Len(Entries(sc.lines))
     /\ \A i \in 1..Len(readme[2]) : readme[2][i] = Section(Entries(sc.lines)[i], sc.fs, sc.bases)
NoPartial ==   \* a failed run leaves README.md as it was
  status = "failed" => readme = IF sc.old = "absent" THEN <<"absent">> ELSE <<"old", sc.old>>
FailsIffUnreadable ==
  status \in {"ok", "failed"} =>
     (status = "failed") = (\E i \in 1..Len(Entries(sc.lines)) : ~Readable(Entries(sc.lines)[i], sc.fs))

(* closed form of a complete run, used by the trace validation *)
FirstBad(s) ==
  LET es == Entries(s.lines)
      bad == {i \in 1..Len(es) : ~Readable(es[i], s.fs)}
  IN IF bad = {} THEN 0 ELSE CHOOSE i \in bad : \A j \in bad : i <= j

Expected(s) ==
  LET es == Entries(s.lines)
      fb == FirstBad(s)
  IN IF fb = 0
     THEN [status |-> "ok", procs |-> [i \in 1..Len(es) |-> es[i].file],
           readme |-> <<"written", [i \in 1..Len(es) |-> Section(es[i], s.fs, s.bases)]>>]
     ELSE [status |-> "failed", procs |-> [i \in 1..fb |-> es[i].file],
           readme |-> IF s.old = "absent" THEN <<"absent">> ELSE <<"old", s.old>>]
=============================================================================
