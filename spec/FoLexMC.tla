------------------------------- MODULE FoLexMC -------------------------------
(* R1: every scanner call on every buffer <= N over the critical alphabet terminates inside the buffer and makes progress *)
EXTENDS FoLex
CONSTANTS N
Critical == {" ", "\t", "/", "*", "\n", "a", "1", "\"", "\\", "`", "{", "}", "$"}
NoDev == {}
DevNoEofGuard == {"NoEofGuard"}
ASSUME AllSafe(Critical, N)
ASSUME PrintT(<<"BUFFERS", Cardinality(Buffers(Critical, N))>>)
VARIABLE x
Init == x = 0
Next == x' = x
=============================================================================
