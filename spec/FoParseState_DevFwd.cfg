CONSTANTS
  Defs <- MCDefs
  Deps <- MCDeps
  NeedTva <- MCNeedTva
  NeedFwd <- MCNeedFwd
  IsType <- MCIsType
  Locals <- MCLocals
  MaxFiles = 3
  Deviations <- DevFwd
  Limit = 8
SPECIFICATION Spec
INVARIANTS ContextFresh NoCapture NoSpuriousFailure
VIEW View
CHECK_DEADLOCK FALSE
