---------------------------- MODULE FoParseStateWB ----------------------------
(***************************************************************************)
(* White-box trace validation of fc's long-lived parse state (C07) against *)
(* the rules of FoParseState.tla.  fc built with the verif tag records     *)
(* (hook verifTracePS, FOLANG_VERIF_PSLOG) an event                        *)
(*   "root"     at the entry of every root statement,                      *)
(*   "reset"    in psResetTmpCtx, after the per-definition context is new, *)
(*   "enterTD"  / "leaveTD" in psEnterTypeDef / psLeaveTypeDef,            *)
(* each with: scope depth, the names of the ROOT scope (here: those added  *)
(* since the first statement of the history), the inference allocator and  *)
(* resolver size, the forward-declaration allocator and dictionaries, the  *)
(* offside stack, the temporaries counter.                                 *)
(* One trace line per history (one fc run):                                *)
(*   [defs   |-> <<[id, names |-> <<names the definition puts into the     *)
(*                 root scope, derived from its source text>>], ..>>,       *)
(*    events |-> <<[ev, tt, depth, names, tva, res, tdtva, tddefined,      *)
(*                 tdalloced, insideTD, offside, tmp], ..>>]               *)
(* The rules (FoParseState: ContextFresh, NoCapture, depth):               *)
(*  R1 every root statement starts at depth 1, offside stack <<0>>, not    *)
(*     inside a type definition, and the root scope holds exactly the      *)
(*     names of the definitions processed so far (no local name is left    *)
(*     behind, nothing is lost);                                           *)
(*  R2 a root let is followed by exactly one reset, after which the        *)
(*     inference allocator, the resolver and the temporaries counter are   *)
(*     at zero;                                                            *)
(*  R3 a type definition is bracketed by enterTD (allocator and            *)
(*     dictionaries of forward declarations at zero, inside) and leaveTD   *)
(*     (outside), with no reset in between.                                *)
(***************************************************************************)
EXTENDS Integers, Sequences, FiniteSets, TLC, Json
CONSTANTS TraceFile
Trace == ndJsonDeserialize(TraceFile)

SetOf(s) == {s[i] : i \in 1..Len(s)}
IsDefStmt(e) == e.ev = "root" /\ e.tt \in {"(LET)", "(TYPE)", "(PACKAGE_INFO)"}

\* the events from position i up to (not including) the next root event
RECURSIVE Inner(_, _)
Inner(es, i) == IF i > Len(es) \/ es[i].ev = "root" THEN <<>> ELSE <<es[i]>> \o Inner(es, i + 1)

RootOK(e, scope) ==
  /\ e.depth = 1
  /\ e.offside = <<0>>
  /\ e.insideTD = FALSE
  /\ SetOf(e.names) = scope

InnerOK(e, inner) ==
  CASE e.tt = "(LET)" ->
         /\ Len(inner) = 1 /\ inner[1].ev = "reset"
         /\ inner[1].tva = 0 /\ inner[1].res = 0 /\ inner[1].tmp = 0 /\ inner[1].depth = 1
    [] e.tt = "(TYPE)" ->
         /\ Len(inner) = 2 /\ inner[1].ev = "enterTD" /\ inner[2].ev = "leaveTD"
         /\ inner[1].tdtva = 0 /\ inner[1].tddefined = 0 /\ inner[1].tdalloced = 0 /\ inner[1].insideTD
         /\ ~inner[2].insideTD
    [] OTHER -> Len(inner) = 0            \* package / import / package_info: nothing per-definition is touched

\* walk the events: k = index of the next definition of the history; returns the first rule broken, "" if none
RECURSIVE Walk(_, _, _, _)
Walk(run, i, k, scope) ==
  IF i > Len(run.events) THEN (IF k = Len(run.defs) + 1 \/ run.code # 0 THEN "" ELSE "fewer root statements than definitions")
  ELSE LET e == run.events[i] IN
       IF e.ev # "root" THEN "an event outside a root statement: " \o e.ev
       ELSE IF ~RootOK(e, scope) THEN "R1 at root statement " \o ToString(i) \o " (" \o e.tt \o ")"
       ELSE LET inner == Inner(run.events, i + 1)
                last == i + Len(inner) = Len(run.events)           \* the run may have stopped inside this statement (a diagnostic)
            IN IF ~InnerOK(e, inner) /\ ~(last /\ run.code # 0) THEN "R2/R3 after root statement " \o ToString(i) \o " (" \o e.tt \o ")"
               ELSE IF IsDefStmt(e)
                    THEN (IF k > Len(run.defs) THEN "more definitions than the history has"
                          ELSE Walk(run, i + 1 + Len(inner), k + 1, scope \cup SetOf(run.defs[k].names)))
                    ELSE Walk(run, i + 1 + Len(inner), k, scope)

VARIABLES l, bad
Init == l = 1 /\ bad = <<>>
Step ==
  /\ l <= Len(Trace)
  /\ LET w == Walk(Trace[l], 1, 1, {}) IN
     /\ bad' = IF w = "" THEN bad ELSE Append(bad, l)
     /\ (w = "" \/ PrintT(<<"WB-REJECT", l, w>>))
  /\ l' = l + 1
  /\ IF l = Len(Trace) THEN PrintT(<<"TRACE-END", Len(Trace), bad'>>) ELSE TRUE
Spec == Init /\ [][Step]_<<l, bad>>
=============================================================================
