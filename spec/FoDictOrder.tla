----------------------------- MODULE FoDictOrder -----------------------------
(***************************************************************************)
(* Dictionary enumeration order as a scheduling choice (C05).              *)
(*                                                                         *)
(* dict.Keys / Values / KVs return the entries in Go's random map order.   *)
(* Every enumeration call of a run is a choice point: the adversary picks  *)
(* a permutation of the canonical (sorted-by-key) order.  A SCHEDULE maps  *)
(* some call numbers to a named permutation; the others use the default.   *)
(*                                                                         *)
(* Part 1 models the ways fc consumes an enumeration and lets TLC decide   *)
(* for which of them the result depends on the permutation:                *)
(*   FirstMatch   (scLookupRecFacCur before the fix: Values |> TryFind)    *)
(*   SortedFirstMatch (after the fix: Values |> SortBy name |> TryFind)    *)
(*   FilterHead   (exaustiveCheck: KVs |> Filter |> Head, diagnostic only) *)
(*   IterRegister (piRegAll / rsRegisterNewEI: register every entry)       *)
(*   SetUnion     (eqsUnion: add every key to a set)                       *)
(* Part 2 enumerates, for a recorded sequence of calls, the schedules with *)
(* at most B perturbed calls (the analogue of a pre-emption bound).        *)
(***************************************************************************)
EXTENDS Integers, Sequences, FiniteSets, TLC

---------------------------------------------------------------------------
(* Part 1: consumers.  An enumeration is a sequence without repetition of the dictionary's entries; an entry is a   *)
(* record [k |-> key, m |-> matches the consumer's predicate]                                                        *)
Perms(S) == {s \in [1..Cardinality(S) -> S] : \A i, j \in 1..Cardinality(S) : i # j => s[i] # s[j]}

FirstMatch(enum) ==
  LET hits == {i \in 1..Len(enum) : enum[i].m}
  IN IF hits = {} THEN "none" ELSE enum[CHOOSE i \in hits : \A j \in hits : i <= j].k

SortedFirstMatch(enum) ==   \* sort by key first (keys are distinct, so the sorted sequence is unique)
  LET hits == {i \in 1..Len(enum) : enum[i].m}
  IN IF hits = {} THEN "none"
     ELSE enum[CHOOSE i \in hits : \A j \in hits : enum[i].k <= enum[j].k].k

FilterHead(enum) == FirstMatch(enum)            \* same shape: the first entry satisfying the filter
IterRegister(enum) == [k \in {enum[i].k : i \in 1..Len(enum)} |-> TRUE]     \* the resulting registry
SetUnion(enum, other) == {enum[i].k : i \in 1..Len(enum)} \cup other

Independent(consumer(_), D) == \A e1, e2 \in Perms(D) : consumer(e1) = consumer(e2)

Dicts(n) == {D \in SUBSET ((1..n) \X BOOLEAN) : \A a, b \in D : a[1] = b[1] => a = b}
AsEntries(D) == {[k |-> a[1], m |-> a[2]] : a \in D}

\* R1: what TLC establishes for all dictionaries of up to 3 entries
ConsumerFacts ==
  /\ \A D \in Dicts(3) : Independent(SortedFirstMatch, AsEntries(D))
  /\ \A D \in Dicts(3) : Independent(IterRegister, AsEntries(D))
  /\ \A D \in Dicts(3) : Independent(LAMBDA e : SetUnion(e, {7}), AsEntries(D))
  \* FirstMatch / FilterHead are independent EXACTLY when at most one entry matches
  /\ \A D \in Dicts(3) : Independent(FirstMatch, AsEntries(D)) = (Cardinality({a \in D : a[2]}) <= 1)

---------------------------------------------------------------------------
(* Part 2: schedules for a recorded run.  calls[c] = number of entries enumerated by call c.                         *)
PermNames(n) == IF n < 2 THEN {}
                ELSE {"rev"} \cup {"rot:" \o ToString(k) : k \in 1..(n - 1)} \cup {"swap:" \o ToString(i) : i \in 0..(n - 2)}
\* (for n = 2 all of these are the single transposition; keep one)
PermNamesD(n) == IF n = 2 THEN {"rev"} ELSE IF n > 4 THEN {"rev", "rot:1", "rot:" \o ToString(n - 1), "swap:0", "swap:" \o ToString(n - 2)} ELSE PermNames(n)

OneCall(calls) == UNION {{<<c, p>> : p \in PermNamesD(calls[c])} : c \in 1..Len(calls)}
\* schedules with exactly one / exactly two perturbed calls, as sets of <<call, perm>> pairs
Sched1(calls) == {{x} : x \in OneCall(calls)}
Sched2(calls) == {{x, y} : x \in OneCall(calls), y \in OneCall(calls)} \ Sched1(calls)
Valid(s) == \A x, y \in s : x[1] = y[1] => x = y
=============================================================================
