CONSTANTS
  MaxCases = 3
  FullForms = 3
  OutFile = "match_cases.ndjson"
INIT Init
NEXT Next
