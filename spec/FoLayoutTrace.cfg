CONSTANTS
  TraceFile = "layout_trace.ndjson"
SPECIFICATION Spec
CHECK_DEADLOCK FALSE
