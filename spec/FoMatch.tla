------------------------------- MODULE FoMatch -------------------------------
(***************************************************************************)
(* Exhaustiveness of union matches (C09).                                  *)
(*                                                                         *)
(* A match configuration:                                                  *)
(*   cases : sequence of [n : case name, p : has payload]   (the union)    *)
(*   arms  : sequence of [c : case name, form : "bind" | "ignore" | "none"]*)
(*           (any order; normally each case at most once)                  *)
(*   dflt  : whether the match ends with a default arm `| _ -> ...`        *)
(*                                                                         *)
(* Checker is the decision procedure of fc's parser (exaustiveCheck):      *)
(* start with every case unmarked, mark the case of every arm, the match   *)
(* is rejected iff there is no default arm and some case is still          *)
(* unmarked; the diagnostic names ANY unmarked case (dictionary order).    *)
(* Declarative is the property: accepted iff default or arms cover cases.  *)
(***************************************************************************)
EXTENDS Integers, Sequences, FiniteSets, TLC

CaseNames(cases) == {cases[i].n : i \in 1..Len(cases)}
ArmNames(arms) == {arms[i].c : i \in 1..Len(arms)}

(* the marking machine, one arm at a time *)
RECURSIVE Mark(_, _)
Mark(cmap, arms) == IF arms = <<>> THEN cmap ELSE Mark([cmap EXCEPT ![arms[1].c] = TRUE], Tail(arms))

Unmarked(cases, arms) ==
  LET cmap == Mark([c \in CaseNames(cases) |-> FALSE], arms)
  IN {c \in CaseNames(cases) : ~cmap[c]}

CheckerAccepts(cases, arms, dflt) == dflt \/ Unmarked(cases, arms) = {}

(* the property *)
Declarative(cases, arms, dflt) == dflt \/ CaseNames(cases) \subseteq ArmNames(arms)
Uncovered(cases, arms) == CaseNames(cases) \ ArmNames(arms)

(* what an observed run of fc must look like.  t.typed: the match target has a union type known when the    *)
(* match is parsed (annotated parameter).  For a target whose type would have to be inferred (not supported: *)
(* fc rejects such matches outright) only the safety half is required: a non-exhaustive match without        *)
(* default is never accepted.                                                                                *)
RunOK(t) ==
  IF Declarative(t.cases, t.arms, t.dflt)
  THEN (t.typed => t.rc = 0 /\ t.gen)                      \* accepted: exit 0 and gen file written
  ELSE /\ t.rc # 0 /\ ~t.gen                               \* rejected: non-zero exit, no output file
       /\ t.fatal = FALSE                                  \* a diagnostic, not a Go runtime fatal error
       /\ (t.typed => \E i \in 1..Len(t.named) : t.named[i] \in Uncovered(t.cases, t.arms))   \* ... naming an uncovered case

(* an accepted program, run on a value built with constructor k, takes the arm of that constructor (or the default) *)
DispatchOK(t) ==
  \A k \in 1..Len(t.cases) :
     LET hits == {i \in 1..Len(t.arms) : t.arms[i].c = t.cases[k].n}
     IN t.taken[k] = IF hits = {} THEN 0 ELSE CHOOSE i \in hits : TRUE
=============================================================================
