CONSTANTS
  Elems = {8, 9}
  MaxLen = 1000
  MaxPool = 1000
  MaxSteps = 100000
  ExtraCap = {0}
  Deviations = {}
  InitShapes = {}
  TraceFile = "heap_trace.ndjson"
SPECIFICATION TraceSpec
INVARIANTS Purity
CHECK_DEADLOCK FALSE
