----------------------------- MODULE GoSliceHeap -----------------------------
(***************************************************************************)
(* pkg/slice as a machine over the Go heap (C12, with SliceLib for C13).   *)
(*                                                                         *)
(* A Go slice is a view <<arr, off, len, cap>> of a backing array.  Every  *)
(* library function is one action written at the granularity of what the   *)
(* Go code does with memory:                                               *)
(*   - "fresh":  the result is built by append onto nil (Take, Skip, Map,  *)
(*               Mapi, Filter, Collect, Concat, Append, PushHead, and --   *)
(*               since the fix of the defect found with this model --      *)
(*               PushLast): a new array whose capacity the runtime chooses *)
(*   - "[]T{}":  Distinct starts from an empty non-nil slice               *)
(*   - "copy then sort in place": Sort, SortBy  (append(s[:0:0], s...))    *)
(*   - "sub-slice, no copy": Tail, PopLast  -- the result ALIASES the      *)
(*               argument's array                                          *)
(* pool is the growing set of slice values a Folang program holds; every   *)
(* value remembers (snap) the contents it had when it was produced.        *)
(*                                                                         *)
(*   Purity == every pool value still has the contents it was created with *)
(*                                                                         *)
(* Deviations is a set of named, deliberately wrong implementation         *)
(* variants (what the code did before the fix, or what a plausible         *)
(* "optimisation" would do).  With Deviations = {} the machine is the      *)
(* code; with a deviation enabled TLC exhibits the shortest history that   *)
(* breaks Purity -- those histories are what the replay driver must        *)
(* contain, and they show that the invariant is not vacuous.               *)
(***************************************************************************)
EXTENDS SliceLib, Json

CONSTANTS Elems,        \* element values
          MaxLen,       \* longest value kept in the pool
          MaxPool,      \* pool size bound
          MaxSteps,     \* number of library calls
          ExtraCap,     \* spare capacities the runtime may add on allocation, e.g. {0, 1}
          Deviations,   \* subset of {"PushLastInPlace", "SortInPlace", "TakeAlias", "AppendInPlace", "FilterInPlace", "CollectAdopt", "CollectAdoptNonEmpty", "ConcatAdopt"}
          InitShapes    \* set of <<c, off, len>>: initial values are arr[off : off+len] of an array [1..c]

VARIABLES heap,   \* sequence of arrays; an array is a sequence of cells
          pool,   \* sequence of slice values
          hist,   \* the calls made so far (exported for replay)
          steps

vars == <<heap, pool, hist, steps>>

NilVal == [arr |-> 0, off |-> 0, len |-> 0, cap |-> 0, snap |-> <<>>]

Contents(hp, v) == [i \in 1..v.len |-> hp[v.arr][v.off + i]]

H(op, i, j, n, e, f) == [op |-> op, i |-> i, j |-> j, n |-> n, e |-> e, f |-> f]

---------------------------------------------------------------------------
\* `var res []T; for ... { res = append(res, x) }`
AllocPairs(hp, items) ==
  IF items = <<>> THEN {<<hp, NilVal>>}
  ELSE {<<Append(hp, items \o [k \in 1..x |-> 0]),
          [arr |-> Len(hp) + 1, off |-> 0, len |-> Len(items), cap |-> Len(items) + x, snap |-> items]>> : x \in ExtraCap}

\* `res := []T{}; ...append...`  (never nil)
AllocNonNilPairs(hp, items) ==
  IF items = <<>> THEN {<<Append(hp, <<>>), [arr |-> Len(hp) + 1, off |-> 0, len |-> 0, cap |-> 0, snap |-> <<>>]>>}
  ELSE AllocPairs(hp, items)

Produce(hp, v, rec) ==
  /\ Len(pool) < MaxPool
  /\ v.len <= MaxLen
  /\ heap' = hp
  /\ pool' = Append(pool, v)
  /\ hist' = Append(hist, rec)
  /\ steps' = steps + 1

Fresh(items, rec) == \E p \in AllocPairs(heap, items) : Produce(p[1], p[2], rec)
FreshNonNil(items, rec) == \E p \in AllocNonNilPairs(heap, items) : Produce(p[1], p[2], rec)

Cur(i) == Contents(heap, pool[i])      \* what the code reads NOW (not what the value was created with)

---------------------------------------------------------------------------
(* sub-slicing: alias *)
DoTail(i) ==
  LET v == pool[i] IN
  /\ v.len > 0
  /\ Produce(heap, [arr |-> v.arr, off |-> v.off + 1, len |-> v.len - 1, cap |-> v.cap - 1, snap |-> TailS(Cur(i))],
             H("Tail", i, 0, 0, 0, ""))

DoPopLast(i) ==
  LET v == pool[i] IN
  /\ v.len > 0
  /\ Produce(heap, [v EXCEPT !.len = v.len - 1, !.snap = PopLast(Cur(i))], H("PopLast", i, 0, 0, 0, ""))

(* fresh results *)
DoTake(n, i) ==
  /\ n <= pool[i].len
  /\ IF "TakeAlias" \in Deviations
     THEN Produce(heap, [pool[i] EXCEPT !.len = n, !.snap = Take(n, Cur(i))], H("Take", i, 0, n, 0, ""))
     ELSE Fresh(Take(n, Cur(i)), H("Take", i, 0, n, 0, ""))

DoSkip(n, i) == n <= pool[i].len /\ Fresh(Skip(n, Cur(i)), H("Skip", i, 0, n, 0, ""))
DoMap(f, i)  == Fresh(Map(f, Cur(i)), H("Map", i, 0, 0, 0, f))
DoMapi(f, i) == Fresh(Mapi(f, Cur(i)), H("Mapi", i, 0, 0, 0, f))
DoCollect(f, i) == Fresh(Collect(f, Cur(i)), H("Collect", i, 0, 0, 0, f))
DoPushHead(e, i) == Fresh(PushHead(e, Cur(i)), H("PushHead", i, 0, 0, e, ""))
DoDistinct(i) == FreshNonNil(Distinct(Cur(i)), H("Distinct", i, 0, 0, 0, ""))

\* append in place when there is spare capacity (what `append(s, ...)` does)
InPlaceAppend(i, items, rec) ==
  LET v == pool[i]
      n == Len(items) IN
  IF v.arr # 0 /\ v.len + n <= v.cap
  THEN Produce([heap EXCEPT ![v.arr] = [k \in 1..Len(@) |->
                                           IF k > v.off + v.len /\ k <= v.off + v.len + n
                                           THEN items[k - v.off - v.len] ELSE @[k]]],
               [v EXCEPT !.len = v.len + n, !.snap = Cur(i) \o items], rec)
  ELSE Fresh(Cur(i) \o items, rec)

\* "avoid copying the first chunk": empty chunks are skipped and the FIRST NON-EMPTY one becomes the accumulator (the result is
\* that very value when nothing follows it)
AdoptFirstNonEmpty(i, j, rec) ==
  IF pool[i].len > 0 THEN InPlaceAppend(i, Cur(j), rec)
  ELSE IF pool[j].len > 0 THEN Produce(heap, [pool[j] EXCEPT !.snap = Cur(j)], rec)
  ELSE Fresh(<<>>, rec)

\* Collect whose callback hands back EXISTING values (e.g. `slice.Collect id [v_i; v_j]`): the chunks are live values
DoCollectIdx(i, j) ==
  IF "CollectAdopt" \in Deviations
  THEN InPlaceAppend(i, Cur(j), H("CollectIdx", i, j, 0, 0, ""))     \* adopts the first chunk as its accumulator
  ELSE IF "CollectAdoptNonEmpty" \in Deviations
  THEN AdoptFirstNonEmpty(i, j, H("CollectIdx", i, j, 0, 0, ""))
  ELSE Fresh(Cur(i) \o Cur(j), H("CollectIdx", i, j, 0, 0, ""))

DoConcat(i, j) ==
  IF "ConcatAdopt" \in Deviations
  THEN AdoptFirstNonEmpty(i, j, H("Concat", i, j, 0, 0, ""))
  ELSE Fresh(ConcatS(<<Cur(i), Cur(j)>>), H("Concat", i, j, 0, 0, ""))

DoPushLast(e, i) ==
  IF "PushLastInPlace" \in Deviations
  THEN InPlaceAppend(i, <<e>>, H("PushLast", i, 0, 0, e, ""))       \* the code before the fix
  ELSE Fresh(PushLast(e, Cur(i)), H("PushLast", i, 0, 0, e, ""))

DoAppend(i, j) ==
  IF "AppendInPlace" \in Deviations
  THEN InPlaceAppend(i, Cur(j), H("Append", i, j, 0, 0, ""))
  ELSE Fresh(AppendS(Cur(i), Cur(j)), H("Append", i, j, 0, 0, ""))

DoFilter(p, i) ==
  IF "FilterInPlace" \in Deviations /\ pool[i].arr # 0
  THEN LET v == pool[i]
           r == Filter(p, Cur(i)) IN
       Produce([heap EXCEPT ![v.arr] = [k \in 1..Len(@) |->
                                          IF k > v.off /\ k <= v.off + Len(r) THEN r[k - v.off] ELSE @[k]]],
               [v EXCEPT !.len = Len(r), !.snap = r], H("Filter", i, 0, 0, 0, p))
  ELSE Fresh(Filter(p, Cur(i)), H("Filter", i, 0, 0, 0, p))

(* res := append(s[:0:0], s...); sort res in place *)
SortResult(i, sorted, rec) ==
  LET v == pool[i] IN
  IF "SortInPlace" \in Deviations /\ v.arr # 0
  THEN Produce([heap EXCEPT ![v.arr] = [k \in 1..Len(@) |->
                                          IF k > v.off /\ k <= v.off + v.len THEN sorted[k - v.off] ELSE @[k]]],
               [v EXCEPT !.snap = sorted], rec)
  ELSE IF v.len = 0
       THEN Produce(heap, [v EXCEPT !.cap = 0], rec)        \* append(s[:0:0]) of nothing: s[:0:0] itself
       ELSE Fresh(sorted, rec)

DoSort(i) == SortResult(i, SortS(Cur(i)), H("Sort", i, 0, 0, 0, ""))

\* SortBy: any ascending-by-projection permutation (no stability promise)
DoSortBy(f, i) ==
  LET c == Cur(i) IN
  \E r \in {[k \in 1..Len(c) |-> c[p[k]]] : p \in Permutations(1..Len(c))} :
     /\ IsSortByOf(r, f, c)
     /\ SortResult(i, r, H("SortBy", i, 0, 0, 0, f))

---------------------------------------------------------------------------
Init ==
  /\ \E sq \in {<<a>> : a \in InitShapes} \cup {<<a, b>> : a \in InitShapes, b \in InitShapes} :
          /\ heap = [k \in 1..Len(sq) |-> [m \in 1..sq[k][1] |-> m]]
          /\ pool = [k \in 1..Len(sq) |->
                       LET v == [arr |-> k, off |-> sq[k][2], len |-> sq[k][3], cap |-> sq[k][1] - sq[k][2], snap |-> <<>>]
                       IN [v EXCEPT !.snap = [m \in 1..v.len |-> v.off + m]]]
          /\ hist = [k \in 1..Len(sq) |-> H("Init", sq[k][1], sq[k][2], sq[k][3], 0, "")]
  /\ steps = 0

\* a value handed in from outside: the view arr[off : off+len] of a new array [1..c] (c = 0: nil)
AddInit(c, off, len) ==
  LET a == [m \in 1..c |-> m]
      v == [arr |-> Len(heap) + 1, off |-> off, len |-> len, cap |-> c - off, snap |-> SubSeq(a, off + 1, off + len)]
  IN /\ off + len <= c
     /\ heap' = IF c = 0 THEN heap ELSE Append(heap, a)
     /\ pool' = Append(pool, IF c = 0 THEN NilVal ELSE v)
     /\ hist' = Append(hist, H("Init", c, off, len, 0, ""))
     /\ UNCHANGED steps

NextOver(I, J, Ns, Es) ==
  /\ steps < MaxSteps
  /\ \E i \in I :
       \/ DoTail(i) \/ DoPopLast(i) \/ DoSort(i) \/ DoDistinct(i)
       \/ \E n \in Ns : DoTake(n, i) \/ DoSkip(n, i)
       \/ \E e \in Es : DoPushLast(e, i) \/ DoPushHead(e, i)
       \/ \E j \in J : DoAppend(i, j) \/ DoConcat(i, j) \/ DoCollectIdx(i, j)
       \/ \E f \in {"inc", "const7"} : DoMap(f, i)
       \/ \E f \in {"idxPlus"} : DoMapi(f, i)
       \/ \E f \in {"rep", "none"} : DoCollect(f, i)
       \/ \E p \in {"isEven", "gt1"} : DoFilter(p, i)
       \/ \E f \in {"neg", "mod2"} : DoSortBy(f, i)

Next == NextOver(1..Len(pool), 1..Len(pool), 0..MaxLen, Elems)

\* simulation: arguments are drawn at random (TLC's seeded generator), only the choice of the
\* function is left to the simulator; a final Finish step makes every behaviour end in exactly
\* one state in which the history is exported
Finish == steps = MaxSteps /\ steps' = steps + 1 /\ UNCHANGED <<heap, pool, hist>>
\* (the dependence on the variable steps keeps TLC from caching a draw from a constant set)
Rnd(S) == RandomElement({x \in S : steps >= 0})
SimNext ==
  \/ NextOver({Rnd(1..Len(pool))}, {Rnd(1..Len(pool))}, {Rnd(0..MaxLen)}, {Rnd(Elems)})
  \/ Finish
SimSpec == Init /\ [][SimNext]_vars

Spec == Init /\ [][Next]_vars

---------------------------------------------------------------------------
TypeOK ==
  /\ \A a \in 1..Len(heap) : \A k \in 1..Len(heap[a]) : heap[a][k] \in Int
  /\ \A i \in 1..Len(pool) :
       LET v == pool[i] IN
       /\ v.len <= v.cap
       /\ (v.arr = 0 => v.len = 0 /\ v.cap = 0)
       /\ (v.arr # 0 => v.arr <= Len(heap) /\ v.off + v.cap <= Len(heap[v.arr]))

\* C12
Purity == \A i \in 1..Len(pool) : Contents(heap, pool[i]) = pool[i].snap

\* history / step counters do not influence behaviour
View == <<heap, pool>>

\* export of complete behaviours (simulation mode): one line per finished history
ExportHist == steps = MaxSteps + 1 => PrintT(<<"HIST", ToJson(hist)>>)
=============================================================================
