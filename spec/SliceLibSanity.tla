--------------------------- MODULE SliceLibSanity ---------------------------
(* constant-level check of the algebraic laws of SliceLib (no behaviours) *)
EXTENDS SliceLib
ASSUME LibSanity({0, 1, 2, 3}, 4)
VARIABLE x
Init == x = 0
Next == x' = x
=============================================================================
