--------------------------- MODULE FoDriverProof ---------------------------
(***************************************************************************)
(* Unbounded safety of the driver machine (C16), by an inductive invariant *)
(* checked with the TLA+ proof system (tlapm): for EVERY argument list,    *)
(* exit 0 means every requested output was written, and a failure leaves   *)
(* nothing for the offending file or the files after it.                   *)
(***************************************************************************)
EXTENDS FoDriver, TLAPS

IndInv ==
  /\ args = Args
  /\ cur \in 1..(Len(args) + 1)
  /\ phase \in {"next", "announced", "read", "parsed", "done"}
  /\ code \in {-1, 0, 1, 2}
  /\ (phase = "done") <=> (code # -1)
  /\ (phase \in {"announced", "read", "parsed"}) => cur <= Len(args)
  /\ written = {i \in Requested : i < cur}
  /\ (code = 0) => cur = Len(args) + 1
  /\ (code > 0) => diag

ASSUME ArgsIsSeq == Args \in Seq([name : STRING, foi : BOOLEAN])

LEMMA InitInd == Init => IndInv
  BY ArgsIsSeq DEF Init, IndInv, Requested

LEMMA NextInd == IndInv /\ [Next]_vars => IndInv'
<1> SUFFICES ASSUME IndInv, [Next]_vars PROVE IndInv'
  OBVIOUS
<1>0. Len(args) \in Nat /\ args = Args
  BY ArgsIsSeq DEF IndInv
<1>1. CASE Announce   BY <1>1, <1>0 DEF Announce, IndInv, Requested, Running
<1>2. CASE ReadOK     BY <1>2, <1>0 DEF ReadOK, IndInv, Requested, Running
<1>3. CASE ReadFail   BY <1>3, <1>0 DEF ReadFail, IndInv, Requested, Running
<1>4. CASE ParseOK    BY <1>4, <1>0 DEF ParseOK, IndInv, Requested, Running
<1>5. CASE ParseFail  BY <1>5, <1>0 DEF ParseFail, IndInv, Requested, Running
<1>6. CASE WriteOK    BY <1>6, <1>0 DEF WriteOK, IndInv, Requested, Running
<1>7. CASE WriteFail  BY <1>7, <1>0 DEF WriteFail, IndInv, Requested, Running
<1>8. CASE SkipFoi    BY <1>8, <1>0 DEF SkipFoi, IndInv, Requested, Running
<1>9. CASE ExitOK     BY <1>9, <1>0 DEF ExitOK, IndInv, Requested, Running
<1>10. CASE UNCHANGED vars  BY <1>10 DEF vars, IndInv, Requested
<1> QED BY <1>1, <1>2, <1>3, <1>4, <1>5, <1>6, <1>7, <1>8, <1>9, <1>10 DEF Next

LEMMA IndImplies == IndInv => ZeroMeansComplete /\ FailureIsClean
  BY ArgsIsSeq DEF IndInv, ZeroMeansComplete, FailureIsClean, Requested

THEOREM Safety == Init /\ [][Next]_vars => [](ZeroMeansComplete /\ FailureIsClean)
<1>1. Init /\ [][Next]_vars => []IndInv
  BY InitInd, NextInd, PTL
<1> QED BY <1>1, IndImplies, PTL
=============================================================================
