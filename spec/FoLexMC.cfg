CONSTANTS
  N = 4
  Deviations <- NoDev
INIT Init
NEXT Next
