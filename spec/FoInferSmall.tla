---------------------------- MODULE FoInferSmall ----------------------------
(***************************************************************************)
(* C02, small-scope exhaustive family.  Every SEQUENCE of at most MaxEqs   *)
(* equations  x = t  (x a parameter, t a type term of depth <= 1 over the  *)
(* parameters and int / string) becomes one function of three parameters   *)
(*     let q a b c =                                                       *)
(*       let v1 = [x1; e(t1)]        e(t): an expression whose type is t   *)
(*       let v2 = [x2; e(t2)]                                              *)
(*       (v1, v2)                                                          *)
(* as abstract syntax of FoInferGen.  The order of the equations is the    *)
(* order in which the implementation's resolver meets them, so every       *)
(* processing order of every small constraint system is exercised (class   *)
(* merging before / after a concrete type arrives, sharing, diamonds,      *)
(* occurs-check and clash systems - those are dropped as ill-typed).       *)
(* Rows: [name, ast, princ |-> Principal].  Sample = 0: all sequences;     *)
(* otherwise (for more than one equation) the sequences whose index is    *)
(* congruent to Seed modulo Sample.                                        *)
(***************************************************************************)
EXTENDS FoInferGen, Json, SequencesExt
CONSTANTS OutFile, MaxEqs, Sample, Seed, Rich

Params == <<"a", "b", "c">>
\* expressions denoting the atoms: the parameters, an int and a string literal
Atoms == IF Rich THEN <<Var("a"), Var("b"), Var("c"), <<"lit", "int">>, <<"lit", "string">>>>
         ELSE <<Var("a"), Var("b"), Var("c"), <<"lit", "int">>>>
NA == Len(Atoms)
\* right-hand sides: atoms, [x], (x, y), ISome x, {Val=x; Tag=".."}   (x, y atoms)
Rhs ==
  Atoms
  \o [i \in 1..NA |-> <<"slice", <<Atoms[i]>>>>]
  \o [k \in 1..(NA * NA) |-> <<"tuple", <<Atoms[((k - 1) \div NA) + 1], Atoms[((k - 1) % NA) + 1]>>>>]
  \o [i \in 1..NA |-> <<"call", "ISome", <<Atoms[i]>>>>]
  \o (IF Rich THEN [i \in 1..NA |-> <<"call", "{IBox}", <<Atoms[i], <<"lit", "string">>>>>>] ELSE <<>>)
NR == Len(Rhs)
\* equation number e in 1..3*NR: parameter ((e-1) \div NR)+1 = Rhs[((e-1) % NR)+1]
NE == 3 * NR
EqStmt(e, k) == <<"let", "v" \o ToString(k), <<"slice", <<Var(Params[((e - 1) \div NR) + 1]), Rhs[((e - 1) % NR) + 1]>>>>>>

RECURSIVE Pairs(_)
Pairs(vs) == IF Len(vs) = 1 THEN vs[1] ELSE <<"tuple", <<vs[1], Pairs(Tail(vs))>>>>

\* the function for the equation sequence es (a sequence of equation numbers)
FnOf(es, idx) ==
  Fn("q" \o ToString(idx), Params, [k \in 1..Len(es) |-> EqStmt(es[k], k)], Pairs([k \in 1..Len(es) |-> Var("v" \o ToString(k))]))

\* sequences of length n as numbers 0..NE^n-1 (digits = equation numbers - 1)
RECURSIVE Pow(_, _), Digits(_, _)
Pow(b, n) == IF n = 0 THEN 1 ELSE b * Pow(b, n - 1)
Digits(x, n) == IF n = 0 THEN <<>> ELSE <<(x % NE) + 1>> \o Digits(x \div NE, n - 1)

Keep(i) == Sample = 0 \/ (i % Sample) = (Seed % Sample)
RowsOfLen(n, offset) ==
  LET idxs == {x \in 0..(Pow(NE, n) - 1) : n = 1 \/ Keep(x)}
      sq == SetToSeq(idxs)
  IN [j \in 1..Len(sq) |->
        LET f == FnOf(Digits(sq[j], n), offset + sq[j])
        IN [name |-> f.name, ast |-> f, princ |-> PrincipalOfAst(f)]]

RECURSIVE AllRows(_, _)
AllRows(n, offset) == IF n > MaxEqs THEN <<>> ELSE RowsOfLen(n, offset) \o AllRows(n + 1, offset + Pow(NE, n))
Rows == AllRows(1, 0)

ASSUME PreludeOK
ASSUME ndJsonSerialize(OutFile, Rows)
ASSUME PrintT(<<"CASES", Len(Rows), "equations", NE>>)
Init == work = {} /\ sub = NoSubst /\ failed = FALSE
Next == UNCHANGED mvars
=============================================================================
