------------------------- MODULE FoParseStateProof -------------------------
(***************************************************************************)
(* Unbounded safety of the parse-state machine without deviations (C07):   *)
(* for EVERY package (Defs, Deps, ...) and every history, every definition *)
(* is translated from a fresh context at root depth, and every name it     *)
(* refers to denotes the top-level definition of that name.                *)
(***************************************************************************)
EXTENDS FoParseState, TLAPS

ASSUME NoDev == Deviations = {}

IndInv ==
  /\ depth = 1
  /\ DOMAIN scope = DOMAIN emitted
  /\ \A n \in DOMAIN scope : scope[n] = <<"def", n>>
  /\ \A d \in DOMAIN emitted : /\ emitted[d].tva0 = 0 /\ emitted[d].fwd0 = 0 /\ emitted[d].depth0 = 1
                               /\ DOMAIN emitted[d].binds = Deps[d]
                               /\ \A n \in Deps[d] : emitted[d].binds[n] = <<"def", n>>

LEMMA InitInd == Init => IndInv
  BY DEF Init, IndInv

LEMMA NextInd == IndInv /\ [Next]_vars => IndInv'
<1> SUFFICES ASSUME IndInv, [Next]_vars PROVE IndInv'
  OBVIOUS
<1>1. ASSUME NEW d \in Defs, Process(d) PROVE IndInv'
  <2>1. depth' = 1
    BY <1>1, NoDev DEF Process, IndInv
  <2>2. DOMAIN scope' = DOMAIN scope \cup {d} /\ DOMAIN emitted' = DOMAIN emitted \cup {d}
    BY <1>1, NoDev DEF Process
  <2>3. \A n \in DOMAIN scope' : scope'[n] = <<"def", n>>
    BY <1>1, NoDev DEF Process, IndInv
  <2>4. \A x \in DOMAIN emitted' : /\ emitted'[x].tva0 = 0 /\ emitted'[x].fwd0 = 0 /\ emitted'[x].depth0 = 1
                                   /\ DOMAIN emitted'[x].binds = Deps[x]
                                   /\ \A n \in Deps[x] : emitted'[x].binds[n] = <<"def", n>>
    BY <1>1, NoDev DEF Process, IndInv
  <2> QED BY <2>1, <2>2, <2>3, <2>4 DEF IndInv
<1>2. CASE NextFile
  BY <1>2 DEF NextFile, IndInv
<1>3. CASE UNCHANGED vars
  BY <1>3 DEF vars, IndInv
<1> QED BY <1>1, <1>2, <1>3 DEF Next

LEMMA IndImplies == IndInv => ContextFresh /\ NoCapture
  BY DEF IndInv, ContextFresh, NoCapture

THEOREM Safety == Init /\ [][Next]_vars => [](ContextFresh /\ NoCapture)
<1>1. Init /\ [][Next]_vars => []IndInv
  BY InitInd, NextInd, PTL
<1> QED BY <1>1, IndImplies, PTL
=============================================================================
