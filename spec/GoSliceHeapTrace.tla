-------------------------- MODULE GoSliceHeapTrace --------------------------
(***************************************************************************)
(* Trace validation for C12: every line of the trace is one real call of   *)
(* pkg/slice made by harness/drv_slice on a pool of real slice values,     *)
(* followed by the OBSERVED contents of every pool value.  A line is       *)
(* accepted iff it is a memory-level action of the heap machine            *)
(* GoSliceHeap (Deviations = {}) producing the logged result and afterwards*)
(* every observed value equals the machine's value -- so Purity is         *)
(* evaluated on what the real code did, after every step.  Only observable contents are bound;   *)
(* capacities and array identities are left to the machine, so a change of *)
(* allocation strategy that keeps the property is not rejected.            *)
(* A line no action explains is recorded in bad and the rest of that       *)
(* history is skipped; validation continues with the next history.         *)
(***************************************************************************)
EXTENDS GoSliceHeap

CONSTANTS TraceFile

Trace == ndJsonDeserialize(TraceFile)

VARIABLES l, bad

tvars == <<heap, pool, hist, steps, l, bad>>

TraceInit == l = 1 /\ bad = <<>> /\ heap = <<>> /\ pool = <<>> /\ hist = <<>> /\ steps = 0

Observed(t) ==
  /\ Len(t.pool) = Len(pool')
  /\ \A i \in 1..Len(pool') : t.pool[i] = Contents(heap', pool'[i])

\* The value a call returned is taken from the trace (t.pool[Len(t.pool)]): WHAT a function returns is C13's
\* business (SliceLibTrace), here only the memory behaviour is judged.  A Tail/PopLast result is the aliasing
\* view the machine prescribes when the logged contents agree with it, otherwise (like every other result) a
\* fresh array holding the logged contents.
Ret(t) == t.pool[Len(t.pool)]
Rec(t) == H(t.op, t.i, t.j, t.n, t.e, t.f)

Act(t) ==
  CASE t.op = "Init"     -> AddInit(t.i, t.j, t.n)
    [] t.op = "Tail" /\ pool[t.i].len > 0 /\ TailS(Cur(t.i)) = Ret(t)       -> DoTail(t.i)
    [] t.op = "PopLast" /\ pool[t.i].len > 0 /\ PopLast(Cur(t.i)) = Ret(t)  -> DoPopLast(t.i)
    [] t.op = "Distinct" -> FreshNonNil(Ret(t), Rec(t))
    [] OTHER             -> Fresh(Ret(t), Rec(t))

Apply ==
  /\ l <= Len(Trace)
  /\ (Trace[l].k = 1 => pool = <<>>)
  /\ Trace[l].panic = ""
  /\ Len(Trace[l].pool) = Len(pool) + 1
  /\ Act(Trace[l])
  /\ Observed(Trace[l])

\* index of the first line of the next history after line i (or Len(Trace) + 1)
NextStart(i) ==
  LET later == {m \in (i + 1)..Len(Trace) : Trace[m].k = 1}
  IN IF later = {} THEN Len(Trace) + 1 ELSE CHOOSE m \in later : \A m2 \in later : m <= m2

Report(b) == IF l' > Len(Trace) THEN PrintT(<<"TRACE-END", Len(Trace), b>>) ELSE TRUE

TraceApply == Apply /\ l' = l + 1 /\ UNCHANGED bad /\ Report(bad)

TraceReset ==      \* a new history starts: forget the previous pool
  /\ l <= Len(Trace) /\ Trace[l].k = 1 /\ pool # <<>>
  /\ heap' = <<>> /\ pool' = <<>> /\ hist' = <<>> /\ steps' = 0
  /\ UNCHANGED <<l, bad>>

TraceFail ==       \* the real code did something the specification does not allow
  /\ l <= Len(Trace)
  /\ ~(Trace[l].k = 1 /\ pool # <<>>)
  /\ ~ENABLED Apply
  /\ bad' = Append(bad, l)
  /\ l' = NextStart(l)
  /\ heap' = <<>> /\ pool' = <<>> /\ hist' = <<>> /\ steps' = 0
  /\ Report(bad')

TraceNext == TraceApply \/ TraceReset \/ TraceFail

TraceSpec == TraceInit /\ [][TraceNext]_tvars
=============================================================================
