-------------------------- MODULE GoSliceHeapTrace --------------------------
(***************************************************************************)
(* Trace validation for C12: every line of the trace is one real call of   *)
(* pkg/slice made by harness/drv_slice on a pool of real slice values,     *)
(* followed by the OBSERVED contents of every pool value.  A line is       *)
(* accepted iff it is an instance of the corresponding action of the heap  *)
(* machine GoSliceHeap (Deviations = {}) and afterwards every observed     *)
(* value equals the machine's value -- so Purity is evaluated on what the  *)
(* real code did, after every step.  Only observable contents are bound;   *)
(* capacities and array identities are left to the machine, so a change of *)
(* allocation strategy that keeps the property is not rejected.            *)
(* A line no action explains is recorded in bad and the rest of that       *)
(* history is skipped; validation continues with the next history.         *)
(***************************************************************************)
EXTENDS GoSliceHeap

CONSTANTS TraceFile

Trace == ndJsonDeserialize(TraceFile)

VARIABLES l, bad

tvars == <<heap, pool, hist, steps, l, bad>>

TraceInit == l = 1 /\ bad = <<>> /\ heap = <<>> /\ pool = <<>> /\ hist = <<>> /\ steps = 0

Observed(t) ==
  /\ Len(t.pool) = Len(pool')
  /\ \A i \in 1..Len(pool') : t.pool[i] = Contents(heap', pool'[i])

Act(t) ==
  CASE t.op = "Init"     -> AddInit(t.i, t.j, t.n)
    [] t.op = "Tail"     -> DoTail(t.i)
    [] t.op = "PopLast"  -> DoPopLast(t.i)
    [] t.op = "Take"     -> DoTake(t.n, t.i)
    [] t.op = "Skip"     -> DoSkip(t.n, t.i)
    [] t.op = "PushLast" -> DoPushLast(t.e, t.i)
    [] t.op = "PushHead" -> DoPushHead(t.e, t.i)
    [] t.op = "Append"   -> DoAppend(t.i, t.j)
    [] t.op = "Concat"   -> DoConcat(t.i, t.j)
    [] t.op = "Map"      -> DoMap(t.f, t.i)
    [] t.op = "Mapi"     -> DoMapi(t.f, t.i)
    [] t.op = "Collect"  -> DoCollect(t.f, t.i)
    [] t.op = "Filter"   -> DoFilter(t.f, t.i)
    [] t.op = "Sort"     -> DoSort(t.i)
    [] t.op = "SortBy"   -> DoSortBy(t.f, t.i)
    [] t.op = "Distinct" -> DoDistinct(t.i)

Apply ==
  /\ l <= Len(Trace)
  /\ (Trace[l].k = 1 => pool = <<>>)
  /\ Trace[l].panic = ""
  /\ Act(Trace[l])
  /\ Observed(Trace[l])

\* index of the first line of the next history after line i (or Len(Trace) + 1)
NextStart(i) ==
  LET later == {m \in (i + 1)..Len(Trace) : Trace[m].k = 1}
  IN IF later = {} THEN Len(Trace) + 1 ELSE CHOOSE m \in later : \A m2 \in later : m <= m2

Report(b) == IF l' > Len(Trace) THEN PrintT(<<"TRACE-END", Len(Trace), b>>) ELSE TRUE

TraceApply == Apply /\ l' = l + 1 /\ UNCHANGED bad /\ Report(bad)

TraceReset ==      \* a new history starts: forget the previous pool
  /\ l <= Len(Trace) /\ Trace[l].k = 1 /\ pool # <<>>
  /\ heap' = <<>> /\ pool' = <<>> /\ hist' = <<>> /\ steps' = 0
  /\ UNCHANGED <<l, bad>>

TraceFail ==       \* the real code did something the specification does not allow
  /\ l <= Len(Trace)
  /\ ~(Trace[l].k = 1 /\ pool # <<>>)
  /\ ~ENABLED Apply
  /\ bad' = Append(bad, l)
  /\ l' = NextStart(l)
  /\ heap' = <<>> /\ pool' = <<>> /\ hist' = <<>> /\ steps' = 0
  /\ Report(bad')

TraceNext == TraceApply \/ TraceReset \/ TraceFail

TraceSpec == TraceInit /\ [][TraceNext]_tvars
=============================================================================
