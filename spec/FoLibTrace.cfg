CONSTANTS
  TraceFile = "lib_trace.ndjson"
SPECIFICATION Spec
CHECK_DEADLOCK FALSE
