----------------------------- MODULE FoReprCases -----------------------------
(* enumerates declaration shapes and exports, for each, the Folang text and the compile-time assertions of its documented surface *)
EXTENDS FoRepr, Json, SequencesExt
CONSTANTS OutFile,
          Big       \* the thorough universe: 3-field records over all field types, 3-case unions over all payloads, 3-parameter functions

FT == {B("int"), B("string"), B("bool"), <<"slice", B("int")>>, <<"tuple", <<B("int"), B("string")>>>>,
       <<"func", <<B("int")>>, B("string")>>, <<"named", "dict.Dict", <<B("string"), B("int")>>>>, B("float"), B("any"),
       <<"tuple", <<B("int"), <<"tuple", <<B("string"), B("bool")>>>>>>>>, <<"tuple", <<B("int"), B("string"), B("bool")>>>>}
FNames == <<"F0", "f1", "G2">>
Records == UNION {{[k |-> "record", fields |-> [i \in 1..n |-> [n |-> FNames[i], t |-> ts[i]]]] : ts \in [1..n -> FT]} : n \in 1..2}
           \cup {[k |-> "record", fields |-> [i \in 1..3 |-> [n |-> FNames[i], t |-> ts[i]]]] :
                     ts \in [1..3 -> IF Big THEN FT ELSE {B("int"), B("string"), <<"slice", B("int")>>}]}

\* records of an `and` group: 2-3 fields, at least one of a type that is not known yet when the field is read
GT == {B("int"), B("string"), <<"named", "S@", <<>>>>, <<"slice", <<"named", "S@", <<>>>>>>, <<"slice", <<"named", "R@", <<>>>>>>}
RecGroups == UNION {{[k |-> "recgroup", fields |-> [i \in 1..n |-> [n |-> FNames[i], t |-> ts[i]]]] :
                       ts \in {f \in [1..n -> GT] : \E i \in 1..n : f[i] \notin {B("int"), B("string")}}} : n \in 2..3}

\* generic records: 1-3 fields, at least one mentions the type parameter
GFT == {B("T"), B("int"), B("string"), <<"slice", B("T")>>, <<"tuple", <<B("T"), B("int")>>>>, <<"func", <<B("T")>>, B("T")>>,
        <<"named", "dict.Dict", <<B("string"), B("T")>>>>}
HasT(t) == t \notin {B("int"), B("string")}
GRecords == UNION {{[k |-> "grecord", fields |-> [i \in 1..n |-> [n |-> FNames[i], t |-> ts[i]]]] :
                      ts \in {f \in [1..n -> GFT] : \E i \in 1..n : HasT(f[i])}} : n \in 1..(IF Big THEN 3 ELSE 2)}

\* names that are predeclared identifiers of Go (functions and types), but ordinary names in Folang: fields keep their names
GoNames == <<<<"min", "max", "clear">>, <<"len", "cap", "new">>, <<"append", "copy", "string">>, <<"error", "any", "print">>>>
NamedRecords == {[k |-> "record", fields |-> [i \in 1..3 |-> [n |-> GoNames[j][i], t |-> <<B("int"), B("string"), B("bool")>>[i]]]] : j \in 1..Len(GoNames)}

\* ... and top-level functions keep theirs (a Go client calls them by the source name)
NamedFuncs == {[k |-> "namedfunc", name |-> n] : n \in {"min", "max", "clear"}}      \* (not new / len: the assertions of the other cases in the package use those builtins)

PT == {B("int"), B("string"), <<"slice", B("int")>>, <<"tuple", <<B("int"), B("string")>>>>,
       <<"tuple", <<B("int"), <<"tuple", <<B("string"), B("bool")>>>>>>>>, <<"tuple", <<<<"tuple", <<B("int"), B("string")>>>>, B("bool")>>>>}
CNames == <<"A", "B", "C">>
\* a case: no payload, or a payload of one of PT (or T in a generic union)
Payloads(gen) == {[has |-> FALSE, t |-> Unit]} \cup {[has |-> TRUE, t |-> t] : t \in PT \cup (IF gen THEN {B("T")} ELSE {})}
Unions == UNION {{[k |-> "union", gen |-> g, cases |-> [i \in 1..n |-> [n |-> CNames[i], has |-> ps[i].has, t |-> ps[i].t]]] :
                    ps \in [1..n -> Payloads(g)]} : n \in 1..2, g \in BOOLEAN}
          \cup UNION {{[k |-> "union", gen |-> g, cases |-> [i \in 1..3 |-> [n |-> CNames[i], has |-> ps[i].has, t |-> ps[i].t]]] :
                    ps \in [1..3 -> IF Big THEN Payloads(g)
                                     ELSE {[has |-> FALSE, t |-> Unit], [has |-> TRUE, t |-> B("int")], [has |-> TRUE, t |-> IF g THEN B("T") ELSE B("string")]}]} : g \in BOOLEAN}

\* unions with two type parameters: 1-3 cases over payloads mentioning A, B, both, neither or none
P2 == {[has |-> FALSE, t |-> Unit]} \cup {[has |-> TRUE, t |-> t] : t \in {B("A"), B("B"), <<"tuple", <<B("A"), B("B")>>>>, <<"slice", B("B")>>, B("int"),
                                                                              <<"func", <<B("A")>>, B("B")>>}}
Unions2 == UNION {{[k |-> "union2", cases |-> [i \in 1..n |-> [n |-> CNames[i], has |-> ps[i].has, t |-> ps[i].t]]] : ps \in [1..n -> P2]} : n \in 1..(IF Big THEN 3 ELSE 2)}

AT == {B("int"), B("string"), <<"slice", B("int")>>, <<"tuple", <<B("int"), B("string")>>>>, <<"func", <<B("int")>>, B("int")>>}
Funcs == UNION {{[k |-> "func", params |-> ps, res |-> r] : ps \in [1..n -> AT], r \in {Unit, B("int"), B("string")}} : n \in 0..2}
         \cup {[k |-> "func", params |-> ps, res |-> r] : ps \in [1..3 -> IF Big THEN AT ELSE {B("int"), B("string")}], r \in IF Big THEN {Unit, B("int"), B("string")} ELSE {B("int")}}
Vars == {[k |-> "var", t |-> t] : t \in {B("int"), B("string"), B("bool")}}

LamVars == UNION {{[k |-> "lamvar", params |-> ps, res |-> r] : ps \in [1..n -> {B("int"), B("string")}], r \in {B("int"), B("string")}} : n \in 1..2}
Decls == Records \cup NamedRecords \cup NamedFuncs \cup GRecords \cup RecGroups \cup Unions \cup Unions2 \cup Funcs \cup Vars \cup LamVars
Rows == {[k |-> d.k, fo |-> Fo(d), asserts |-> Surface(d)] : d \in Decls}
ASSUME ndJsonSerialize(OutFile, SetToSeq(Rows))
ASSUME PrintT(<<"CASES", Cardinality(Rows)>>)
VARIABLE x
Init == x = 0
Next == x' = x
=============================================================================
