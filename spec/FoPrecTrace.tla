---------------------------- MODULE FoPrecTrace ----------------------------
(* validates the expression trees recovered from the Go emitted by fc against the grouping of FoPrec *)
EXTENDS FoPrec, Json
CONSTANTS TraceFile
Trace == ndJsonDeserialize(TraceFile)
VARIABLES l, bad
Init == l = 1 /\ bad = <<>>
Step ==
  /\ l <= Len(Trace)
  /\ LET t == Trace[l]
         ok == t.status = "ok" /\ t.got = Machine(t.toks) /\ t.got = Declarative(t.toks)
     IN bad' = IF ok THEN bad ELSE Append(bad, l)
  /\ l' = l + 1
  /\ IF l = Len(Trace) THEN PrintT(<<"TRACE-END", Len(Trace), bad'>>) ELSE TRUE
Spec == Init /\ [][Step]_<<l, bad>>
=============================================================================
