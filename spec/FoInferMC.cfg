SPECIFICATION Spec
INVARIANTS Agrees
PROPERTIES Terminates
CHECK_DEADLOCK FALSE
