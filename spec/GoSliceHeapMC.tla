---------------------------- MODULE GoSliceHeapMC ----------------------------
(* model-checking instances of GoSliceHeap *)
EXTENDS GoSliceHeap

\* every (offset, length) view of arrays [1..c], c <= 3
AllShapes == {<<c, off, len>> : c \in 0..3, off \in 0..3, len \in 0..3} \cap
             {t \in (0..3) \X (0..3) \X (0..3) : t[2] + t[3] <= t[1]}
\* the interesting ones for a small exhaustive run: full, with spare capacity, interior
FewShapes == {<<3, 0, 3>>, <<3, 0, 1>>, <<3, 1, 1>>, <<0, 0, 0>>}
NoDev == {}
DevPushLast == {"PushLastInPlace"}
DevSort == {"SortInPlace"}
DevTake == {"TakeAlias", "PushLastInPlace"}
DevAppend == {"AppendInPlace"}
DevFilter == {"FilterInPlace"}
DevCollect == {"CollectAdopt"}
DevCollectNE == {"CollectAdoptNonEmpty"}
DevConcat == {"ConcatAdopt"}

\* refinement: every step of the machine without deviations is a step of the abstract machine GoHeapAbs (a view of an existing
\* array, or a view of a newly allocated one), whose Purity is proved for any size in GoHeapAbsProof
Abs == INSTANCE GoHeapAbs
AbsRefines == [][Abs!AbsNext]_<<heap, pool>>
AbsInitHolds == Abs!AbsInit
=============================================================================
