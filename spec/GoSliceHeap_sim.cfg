CONSTANTS
  Elems = {8, 9}
  MaxLen = 6
  MaxPool = 10
  MaxSteps = 7
  ExtraCap = {0, 1, 2}
  Deviations <- NoDev
  InitShapes <- AllShapes
SPECIFICATION SimSpec
INVARIANTS TypeOK Purity ExportHist
CHECK_DEADLOCK FALSE
