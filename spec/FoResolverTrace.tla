--------------------------- MODULE FoResolverTrace ---------------------------
(***************************************************************************)
(* Trace validation of the real resolver (fc built with the verif tag:     *)
(* fc/verif_on.go records, at every entry of updateResolver, the           *)
(* resolver's state and the relations of the round).  Line i:              *)
(*   [eid |-> <<[name, eset, res], ...>>, rels |-> <<[src, dest], ...>>]   *)
(* or a marker [mark |-> TRUE, ...] between two fc processes.              *)
(* For every consecutive pair of lines the model's round function must     *)
(* explain the next line:  r == RunRound(state of line i, rels of line i)  *)
(*   r.produced # <<>> : line i+1 is the next round: same state as r.eid   *)
(*                       and exactly the produced relations;               *)
(*   r.produced = <<>> : the batch is finished: line i+1 starts a new      *)
(*                       batch on the state r.eid, or a new definition     *)
(*                       (fresh resolver), or is a marker;                 *)
(*   r.panic           : fc stopped with a diagnostic: a marker follows.   *)
(* Rounds that involve an unresolved field-access type are counted (they   *)
(* are validated like the others; the field types of the record instances  *)
(* come from the hook, RecFile).  The alphabetical order of the names is   *)
(* the string order of Go, computed by the harness (OrdFile).              *)
(***************************************************************************)
EXTENDS FoResolver, Json
CONSTANTS TraceFile, OrdFile, RecFile
Trace == ndJsonDeserialize(TraceFile)
OrdSeq == ndJsonDeserialize(OrdFile)[1]
\* the record instances that occur in the trace with their field types (from g_recInfoDic, recorded by the hook)
Recs == ndJsonDeserialize(RecFile)
TraceRecField(rt, f) ==
  IF \E i \in 1..Len(Recs) : Recs[i].rt = rt
  THEN LET fs == Recs[CHOOSE i \in 1..Len(Recs) : Recs[i].rt = rt].fields
       IN IF \E j \in 1..Len(fs) : fs[j][1] = f THEN fs[CHOOSE j \in 1..Len(fs) : fs[j][1] = f][2] ELSE PANIC
  ELSE NOREC

VARIABLES l, bad, skipped
tvars == <<l, bad, skipped, rvars, ord, mvars>>

EidOf(es) ==
  [n \in {es[i].name : i \in 1..Len(es)} |->
     LET i == CHOOSE j \in 1..Len(es) : es[j].name = n
     IN [eset |-> {es[i].eset[j] : j \in 1..Len(es[i].eset)}, res |-> es[i].res]]
RelsOfLine(rs) == [i \in 1..Len(rs) |-> [src |-> rs[i].src, dest |-> rs[i].dest]]

RECURSIVE HasFa(_)
HasFa(t) ==
  CASE t[1] = "fa" -> TRUE
    [] t[1] \in {"var", "base", "unit"} -> FALSE
    [] t[1] = "slice" -> HasFa(t[2])
    [] t[1] = "tuple" -> \E i \in 1..Len(t[2]) : HasFa(t[2][i])
    [] t[1] = "func"  -> (\E i \in 1..Len(t[2]) : HasFa(t[2][i])) \/ HasFa(t[3])
    [] t[1] = "named" -> \E i \in 1..Len(t[3]) : HasFa(t[3][i])
LineHasFa(t) == (\E i \in 1..Len(t.eid) : HasFa(t.eid[i].res)) \/ (\E i \in 1..Len(t.rels) : HasFa(t.rels[i].dest))
IsMark(t) == "mark" \in DOMAIN t

Init == /\ l = 1 /\ bad = <<>> /\ skipped = 0
        /\ ord = OrdSeq
        /\ eid = [x \in {} |-> 0] /\ round = <<>> /\ produced = <<>> /\ rpanic = FALSE
        /\ work = {} /\ sub = NoSubst /\ failed = FALSE

Explains(cur, nxt) ==
  LET r == RunRound(EidOf(cur.eid), RelsOfLine(cur.rels)) IN
  IF r.panic THEN IsMark(nxt)
  ELSE IF IsMark(nxt) THEN TRUE                          \* the last round of a process: its result is only visible in the output
  ELSE IF r.produced # <<>> THEN EidOf(nxt.eid) = r.eid /\ RelsOfLine(nxt.rels) = r.produced
  ELSE EidOf(nxt.eid) = r.eid \/ Len(nxt.eid) = 0

TStep ==
  /\ l < Len(Trace)
  /\ LET cur == Trace[l]
         nxt == Trace[l + 1]
         skip == IsMark(cur)
     IN /\ skipped' = IF ~IsMark(cur) /\ LineHasFa(cur) THEN skipped + 1 ELSE skipped      \* (now: rounds that involve a field-access type, validated like the others)
        /\ bad' = IF skip \/ Explains(cur, nxt) THEN bad ELSE Append(bad, l)
  /\ l' = l + 1
  /\ IF l + 1 = Len(Trace) THEN PrintT(<<"TRACE-END", Len(Trace), bad', "skipped", skipped'>>) ELSE TRUE
  /\ UNCHANGED <<rvars, ord, mvars>>
Spec == Init /\ [][TStep]_tvars
=============================================================================
