------------------------------ MODULE FoSemTrace ------------------------------
(***************************************************************************)
(* Trace validation for C01 / C03 / C17.                                   *)
(*                                                                         *)
(* ProgFile : the abstract programs (one JSON object per line).            *)
(* TraceFile: what the Go programs emitted by the transpiler under test    *)
(*   really did, one line per program: [id, status, events |-> <<<<tag,    *)
(*   shown value>>, ...>>, result] where status is "ok", "panic" or a      *)
(*   transpile / compile failure text.                                     *)
(* For each program the machine first evaluates the specification (Load,   *)
(* Compute) and then consumes the recorded events ONE STATE PER EVENT,     *)
(* each of which must be the next event the semantics prescribes; at the   *)
(* end the status and the result must agree.  A program whose trace is not *)
(* explained is recorded in bad (with the position of the first wrong      *)
(* event) and validation goes on with the next program.                    *)
(***************************************************************************)
EXTENDS FoSem, Json
CONSTANTS ProgFile, TraceFile
Progs == ndJsonDeserialize(ProgFile)
Trace == ndJsonDeserialize(TraceFile)

VARIABLES p, phase, expected, pos, bad
tvars == <<prog, p, phase, expected, pos, bad>>

NoProg == [id |-> 0, types |-> <<>>, funcs |-> <<>>, externs |-> <<>>, main |-> [stmts |-> <<>>, fin |-> [k |-> "unit"]]]
NoRun == [events |-> <<>>, status |-> "ok", result |-> "U"]

Init == prog = NoProg /\ p = 1 /\ phase = "load" /\ expected = NoRun /\ pos = 1 /\ bad = <<>>

Load ==
  /\ phase = "load" /\ p <= Len(Progs)
  /\ prog' = Progs[p] /\ phase' = "compute" /\ UNCHANGED <<p, expected, pos, bad>>

Compute ==
  /\ phase = "compute"
  /\ expected' = Run /\ pos' = 1 /\ phase' = "events" /\ UNCHANGED <<prog, p, bad>>

Finish(b) ==
  /\ p' = p + 1 /\ phase' = "load" /\ bad' = b
  /\ IF p = Len(Progs) THEN PrintT(<<"TRACE-END", Len(Progs), b>>) ELSE TRUE
  /\ UNCHANGED <<prog, expected, pos>>

\* the next recorded event is the next event of the specification
Event ==
  /\ phase = "events"
  /\ pos <= Len(Trace[p].events) /\ pos <= Len(expected.events)
  /\ Trace[p].events[pos] = expected.events[pos]
  /\ pos' = pos + 1 /\ UNCHANGED <<prog, p, phase, expected, bad>>

\* both traces are exhausted: status and final result must agree
EndOK ==
  /\ phase = "events"
  /\ pos = Len(Trace[p].events) + 1 /\ pos = Len(expected.events) + 1
  /\ Trace[p].status = expected.status
  /\ (expected.status = "ok" => Trace[p].result = expected.result)
  /\ Finish(bad)

\* anything else: the implementation did something the semantics does not allow
Mismatch ==
  /\ phase = "events"
  /\ ~ENABLED Event /\ ~ENABLED EndOK
  /\ PrintT(<<"MISMATCH", p, pos, IF pos <= Len(expected.events) THEN expected.events[pos]
                                   ELSE <<"<end>", expected.status \o " " \o expected.result>>>>)
  /\ Finish(Append(bad, <<p, pos>>))

Next == Load \/ Compute \/ Event \/ EndOK \/ Mismatch
Spec == Init /\ [][Next]_tvars
=============================================================================
