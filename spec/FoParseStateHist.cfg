CONSTANTS
  Defs <- PDefs
  Deps <- PDeps
  NeedTva <- PTva
  NeedFwd <- PFwd
  IsType <- PIsType
  Locals <- PLocals
  MaxFiles = 3
  Deviations <- NoDev
  Limit = 100
  PkgFile = "pkg.ndjson"
SPECIFICATION HSpec
INVARIANTS ContextFresh NoCapture NoSpuriousFailure ExportHist
CHECK_DEADLOCK FALSE
