----------------------------- MODULE FoInferTrace -----------------------------
(***************************************************************************)
(* C02: the signature the real fc emitted for each function (read back     *)
(* with go/parser) must be the translation of the principal type, for      *)
(* every subset of redundant annotations; all versions of a function must  *)
(* emit the same code.  A version with an INFORMATIVE result annotation   *)
(* (fn.ast.rtype) is a function of its own: principal type of the problem *)
(* with the equation ret = rtype.  One line per (function, annotation subset):        *)
(*   [fn |-> [ast, ...], status, ntparams, gparams, gres, samecode]        *)
(***************************************************************************)
EXTENDS FoInferGen, Json
CONSTANTS TraceFile
Trace == ndJsonDeserialize(TraceFile)
VARIABLES l, bad
Init == l = 1 /\ bad = <<>> /\ work = {} /\ sub = NoSubst /\ failed = FALSE
TStep ==
  /\ l <= Len(Trace)
  /\ LET t == Trace[l]
         p == PrincipalWithDeps(t.fn)                   \* constraints by the typing rules of FoInferGen (the functions it calls are inferred and generalised first)
         ok == /\ t.status = "ok"
               /\ p.ok
               /\ t.ntparams = p.ntparams          \* type parameters T0.. exactly for the undetermined types
               /\ t.gparams = p.params             \* parameter types: concrete where determined, Tk by first occurrence
               /\ t.gres = p.res
               /\ (t.samecode \/ "rtype" \in DOMAIN t.fn.ast)   \* same emitted code as the un-annotated version (redundant annotations)
     IN bad' = IF ok THEN bad ELSE Append(bad, l)
  /\ l' = l + 1
  /\ IF l = Len(Trace) THEN PrintT(<<"TRACE-END", Len(Trace), bad'>>) ELSE TRUE
  /\ UNCHANGED mvars
Spec == Init /\ [][TStep]_<<l, bad, mvars>>
=============================================================================
