CONSTANTS
  TraceFile = "order_trace.ndjson"
SPECIFICATION Spec
CHECK_DEADLOCK FALSE
