--------------------------- MODULE FoTypeExprCases ---------------------------
(* checks the round trip on every enumerated term and exports term, both token sequences and the Go text *)
EXTENDS FoTypeExpr, Json, SequencesExt
CONSTANTS Depth2, Full2, OutFile

Full == Bases(BaseNames) \cup {<<"named", "buf.Buffer", <<>>>>}
Keys1 == Bases({"int", "string"})
D1 == Ctor1(Full, Keys1) \cup Tuple3s(Bases({"int", "string", "bool"}))
Small == Bases({"int", "string"})
D1Small == Ctor1(Small, Small) \cup Tuple3s(Small)
\* depth 2: one constructor over depth <= 1 terms of the small base (3-tuples get one deep component)
D2 == IF Full2
      THEN \* thorough: one constructor over ALL depth <= 1 terms of the small base in every position (86 k terms)
           Ctor1(Small \cup D1Small, Small)
           \cup {<<"tuple", <<a, b, c>>>> : a \in D1Small, b \in Small, c \in Small}
           \cup {<<"tuple", <<a, b, c>>>> : a \in Small, b \in Small, c \in D1Small}
      ELSE IF Depth2
      THEN LET Deep == D1Small
               Sh == Small IN
                {<<"slice", t>> : t \in Deep}
           \cup {<<"tuple", <<a, b>>>> : a \in Deep, b \in Sh} \cup {<<"tuple", <<a, b>>>> : a \in Sh, b \in Deep}
           \cup {<<"tuple", <<a, b, c>>>> : a \in Deep, b \in Sh, c \in {B("int")}}
           \cup {<<"tuple", <<a, b, c>>>> : a \in {B("int")}, b \in Sh, c \in Deep}
           \cup {<<"func", <<a>>, r>> : a \in Deep, r \in Sh \cup {Unit}} \cup {<<"func", <<a>>, r>> : a \in Sh \cup {Unit}, r \in Deep}
           \cup {<<"func", <<a, b>>, r>> : a \in Deep, b \in {B("string")}, r \in {B("int"), Unit}}
           \cup {<<"func", <<a, b>>, r>> : a \in {B("string")}, b \in Deep, r \in {B("int")}}
           \cup {<<"func", <<a, b>>, r>> : a \in {B("string")}, b \in {B("int")}, r \in Deep}
           \cup {<<"named", "Box", <<t>>>> : t \in Deep}
           \cup {<<"named", "dict.Dict", <<k, v>>>> : k \in Sh, v \in Deep}
           \cup {<<"named", "Duo", <<a, b>>>> : a \in Deep, b \in {B("string")}} \cup {<<"named", "Duo", <<a, b>>>> : a \in {B("int")}, b \in Deep}
      ELSE {}
\* a few depth 3 shapes that stress every pair of levels
D3 == {<<"slice", <<"slice", <<"tuple", <<B("int"), <<"slice", B("string")>>>>>>>>>>,
       <<"func", <<<<"func", <<B("int")>>, B("int")>>>>, <<"func", <<B("int")>>, <<"func", <<B("string")>>, Unit>>>>>>,
       <<"tuple", <<<<"tuple", <<B("int"), B("int")>>>>, <<"slice", <<"tuple", <<B("int"), B("string")>>>>>>, <<"func", <<Unit>>, B("int")>>>>>>,
       <<"named", "dict.Dict", <<B("string"), <<"named", "Box", <<<<"slice", <<"func", <<B("int"), B("int")>>, B("bool")>>>>>>>>>>>>,
       <<"slice", <<"func", <<<<"tuple", <<B("int"), B("int")>>>>>>, <<"slice", B("int")>>>>>>}

Terms == Full \cup D1 \cup D2 \cup D3

ASSUME \A t \in Terms : RoundTrips(t)
Rows == {[term |-> t, min |-> PMin(t, 0), red |-> PRed(t), go |-> GoText(t)] : t \in Terms}
ASSUME ndJsonSerialize(OutFile, SetToSeq(Rows))
ASSUME PrintT(<<"CASES", Cardinality(Terms)>>)
VARIABLE x
Init == x = 0
Next == x' = x
=============================================================================
