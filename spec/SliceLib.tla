------------------------------ MODULE SliceLib ------------------------------
(***************************************************************************)
(* Functional specification of folang's pkg/slice ("F#-List style") over   *)
(* TLA+ sequences.  Used as the oracle of C13, by the heap machine         *)
(* GoSliceHeap (C12) and, lifted to values, by the abstract machine FoSem. *)
(*                                                                         *)
(* Elements are integers.  The string instantiation of the real package is *)
(* exercised by the Go driver through the order isomorphism                *)
(* i |-> the i-th letter, so one specification serves both.                *)
(*                                                                         *)
(* Function arguments come from a small family of total functions that is  *)
(* defined twice: here and in harness/drv_slice (same names).              *)
(***************************************************************************)
EXTENDS Integers, Sequences, FiniteSets, SequencesExt, TLC

---------------------------------------------------------------------------
(* the family of function arguments *)
UnaryFns  == {"inc", "dbl", "neg", "sq", "const7"}          \* T -> U
PredFns   == {"isEven", "isPos", "gt1", "constT", "constF"} \* T -> bool
IdxFns    == {"idxPlus", "idxTimes", "fstIdx"}              \* int -> T -> U
ListFns   == {"rep", "upto", "none", "single"}              \* T -> []U
FoldFns   == {"add", "sub", "snoc10"}                       \* S -> T -> S
ProjFns   == {"id", "neg", "mod2", "const7"}                \* T -> U (ordered)

ApplyU(f, x) ==
  CASE f = "inc"    -> x + 1
    [] f = "dbl"    -> 2 * x
    [] f = "neg"    -> 0 - x
    [] f = "sq"     -> x * x
    [] f = "const7" -> 7
    [] f = "id"     -> x
    [] f = "mod2"   -> x % 2

ApplyP(p, x) ==
  CASE p = "isEven" -> x % 2 = 0
    [] p = "isPos"  -> x > 0
    [] p = "gt1"    -> x > 1
    [] p = "constT" -> TRUE
    [] p = "constF" -> FALSE

ApplyI(f, i, x) ==
  CASE f = "idxPlus"  -> i + x
    [] f = "idxTimes" -> i * x
    [] f = "fstIdx"   -> i

ApplyL(f, x) ==
  CASE f = "rep"    -> <<x, x>>
    [] f = "upto"   -> [k \in 1..x |-> k]     \* x >= 0 in the explored universe
    [] f = "none"   -> <<>>
    [] f = "single" -> <<x + 10>>

ApplyF(f, s, x) ==
  CASE f = "add"    -> s + x
    [] f = "sub"    -> s - x
    [] f = "snoc10" -> 10 * s + x            \* order sensitive: tells a left fold from a right fold

---------------------------------------------------------------------------
(* the library, as operators on sequences *)
Length(s)   == Len(s)
IsEmptyS(s) == Len(s) = 0
IsNotEmptyS(s) == Len(s) # 0
Item(i, s)  == s[i + 1]                       \* 0 <= i < Len(s)
HeadS(s)    == s[1]                           \* Len(s) > 0
LastS(s)    == s[Len(s)]                      \* Len(s) > 0
TailS(s)    == SubSeq(s, 2, Len(s))           \* Len(s) > 0
PopLast(s)  == SubSeq(s, 1, Len(s) - 1)       \* Len(s) > 0
Take(n, s)  == SubSeq(s, 1, n)                \* 0 <= n <= Len(s)
Skip(n, s)  == SubSeq(s, n + 1, Len(s))       \* 0 <= n   (n > Len(s) gives <<>>)
PushLast(e, s) == Append(s, e)
PushHead(e, s) == <<e>> \o s
AppendS(s1, s2) == s1 \o s2
Map(f, s)   == [i \in 1..Len(s) |-> ApplyU(f, s[i])]
Mapi(f, s)  == [i \in 1..Len(s) |-> ApplyI(f, i - 1, s[i])]
Filter(p, s) == SelectSeq(s, LAMBDA x : ApplyP(p, x))
ConcatS(ss) == FlattenSeq(ss)
Collect(f, s) == FlattenSeq([i \in 1..Len(s) |-> ApplyL(f, s[i])])
ZipS(s1, s2) == [i \in 1..Len(s1) |-> <<s1[i], s2[i]>>]     \* Len(s1) = Len(s2)
Forall(p, s) == \A i \in 1..Len(s) : ApplyP(p, s[i])
Forany(p, s) == \E i \in 1..Len(s) : ApplyP(p, s[i])

RECURSIVE FoldL(_, _, _)
FoldL(f, acc, s) == IF s = <<>> THEN acc ELSE FoldL(f, ApplyF(f, acc, s[1]), Tail(s))

\* first hit scanning left to right; result is <<value, found>>; the value is 0 (Go zero value) when not found
TryFind(p, s) ==
  LET hits == {i \in 1..Len(s) : ApplyP(p, s[i])}
  IN IF hits = {} THEN <<0, FALSE>>
     ELSE <<s[CHOOSE i \in hits : \A j \in hits : i <= j], TRUE>>

RECURSIVE SelectIdx(_, _, _)
SelectIdx(s, keep, i) ==
  IF i > Len(s) THEN <<>>
  ELSE (IF i \in keep THEN <<s[i]>> ELSE <<>>) \o SelectIdx(s, keep, i + 1)

\* first occurrences, in order
Distinct(s) == SelectIdx(s, {i \in 1..Len(s) : \A j \in 1..(i - 1) : s[j] # s[i]}, 1)

Count(s, x) == Cardinality({i \in 1..Len(s) : s[i] = x})
IsPerm(r, s) == Len(r) = Len(s) /\ \A i \in 1..Len(s) : Count(r, s[i]) = Count(s, s[i])
\* Sort: THE ascending permutation (unique on a total order)
IsSortOf(r, s) == IsPerm(r, s) /\ \A i \in 1..(Len(r) - 1) : r[i] <= r[i + 1]
SortS(s) == SortSeq(s, <)
\* SortBy: AN ascending-by-projection permutation (stability is not promised)
IsSortByOf(r, proj, s) ==
  IsPerm(r, s) /\ \A i \in 1..(Len(r) - 1) : ApplyU(proj, r[i]) <= ApplyU(proj, r[i + 1])

\* prefix of s scanned by a left-to-right search that stops at the first element satisfying stop
ScanPrefix(s, stop(_)) ==
  LET hits == {i \in 1..Len(s) : stop(s[i])}
  IN IF hits = {} THEN s ELSE SubSeq(s, 1, CHOOSE i \in hits : \A j \in hits : i <= j)

---------------------------------------------------------------------------
(* Post-condition of one recorded call.  t is a record read from a trace   *)
(* line: op plus the argument fields that op uses (s, s2, ss, n, e, f, acc)*)
(* plus ret (the returned value) and, for functions taking a callback,     *)
(* log (the arguments the callback was invoked with, in invocation order). *)
InDomain(t) ==
  CASE t.op \in {"Head", "Last", "Tail", "PopLast"} -> Len(t.s) > 0
    [] t.op = "Item" -> t.n >= 0 /\ t.n < Len(t.s)
    [] t.op = "Take" -> t.n >= 0 /\ t.n <= Len(t.s)
    [] t.op = "Skip" -> t.n >= 0
    [] t.op = "Zip"  -> Len(t.s) = Len(t.s2)
    [] OTHER -> TRUE

Post(t) ==
  CASE t.op = "Length"     -> t.ret = Len(t.s)
    [] t.op = "Len"        -> t.ret = Len(t.s)
    [] t.op = "IsEmpty"    -> t.ret = (Len(t.s) = 0)
    [] t.op = "IsNotEmpty" -> t.ret = (Len(t.s) # 0)
    [] t.op = "New"        -> t.ret = <<>>
    [] t.op = "Item"       -> t.ret = Item(t.n, t.s)
    [] t.op = "Head"       -> t.ret = HeadS(t.s)
    [] t.op = "Last"       -> t.ret = LastS(t.s)
    [] t.op = "Tail"       -> t.ret = TailS(t.s)
    [] t.op = "PopLast"    -> t.ret = PopLast(t.s)
    [] t.op = "Take"       -> t.ret = Take(t.n, t.s)
    [] t.op = "Skip"       -> t.ret = Skip(t.n, t.s)
    [] t.op = "PushLast"   -> t.ret = PushLast(t.e, t.s)
    [] t.op = "PushHead"   -> t.ret = PushHead(t.e, t.s)
    [] t.op = "Append"     -> t.ret = AppendS(t.s, t.s2)
    [] t.op = "Concat"     -> t.ret = ConcatS(t.ss)
    [] t.op = "Map"        -> t.ret = Map(t.f, t.s) /\ t.log = t.s
    [] t.op = "Mapi"       -> t.ret = Mapi(t.f, t.s) /\ t.log = t.s
    [] t.op = "Iter"       -> t.log = t.s
    [] t.op = "Filter"     -> t.ret = Filter(t.f, t.s) /\ t.log = t.s
    [] t.op = "Collect"    -> t.ret = Collect(t.f, t.s) /\ t.log = t.s
    [] t.op = "Zip"        -> t.ret = ZipS(t.s, t.s2)
    [] t.op = "Forall"     -> t.ret = Forall(t.f, t.s)
                              /\ t.log = ScanPrefix(t.s, LAMBDA x : ~ApplyP(t.f, x))
    [] t.op = "Forany"     -> t.ret = Forany(t.f, t.s)
                              /\ t.log = ScanPrefix(t.s, LAMBDA x : ApplyP(t.f, x))
    [] t.op = "TryFind"    -> t.ret = TryFind(t.f, t.s)
                              /\ t.log = ScanPrefix(t.s, LAMBDA x : ApplyP(t.f, x))
    [] t.op = "Fold"       -> t.ret = FoldL(t.f, t.acc, t.s) /\ t.log = t.s
    [] t.op = "Sort"       -> t.ret = SortS(t.s) /\ IsSortOf(t.ret, t.s)
    [] t.op = "SortBy"     -> IsSortByOf(t.ret, t.f, t.s)
    [] t.op = "Distinct"   -> t.ret = Distinct(t.s)

---------------------------------------------------------------------------
(* algebraic sanity of the specification itself, over a small universe     *)
SmallSeqs(E, n) == UNION {[1..k -> E] : k \in 0..n}

LibSanity(E, n) ==
  \A s \in SmallSeqs(E, n) :
    /\ \A k \in 0..Len(s) : AppendS(Take(k, s), Skip(k, s)) = s
    /\ \A f \in UnaryFns : Len(Map(f, s)) = Len(s)
    /\ IsSortOf(SortS(s), s)
    /\ \A p \in PredFns : /\ Forall(p, s) = (Filter(p, s) = s)
                          /\ Forany(p, s) = (Filter(p, s) # <<>>)
                          /\ TryFind(p, s)[2] = Forany(p, s)
                          /\ (Forany(p, s) => TryFind(p, s)[1] = HeadS(Filter(p, s)))
    /\ Distinct(Distinct(s)) = Distinct(s)
    /\ ToSet(Distinct(s)) = ToSet(s)
    /\ Cardinality(ToSet(s)) = Len(Distinct(s))
    /\ (Len(s) > 0 => /\ PushHead(HeadS(s), TailS(s)) = s
                      /\ PushLast(LastS(s), PopLast(s)) = s)
    /\ FoldL("add", 0, s) = FoldLeft(LAMBDA a, b : a + b, 0, s)
    /\ Collect("single", s) = Map("inc", Map("inc", Map("inc", Map("inc", Map("inc", Map("inc", Map("inc", Map("inc", Map("inc", Map("inc", s))))))))))
    /\ \A s2 \in SmallSeqs(E, 2) : /\ Len(AppendS(s, s2)) = Len(s) + Len(s2)
                                   /\ ConcatS(<<s, s2>>) = AppendS(s, s2)
=============================================================================
