--------------------------- MODULE FoParseStateTrace ---------------------------
(* C07: what the real fc emitted for each definition under each history must equal what it emitted under the baseline history *)
EXTENDS Integers, Sequences, FiniteSets, TLC, Json
CONSTANTS TraceFile
Trace == ndJsonDeserialize(TraceFile)
VARIABLES l, bad
Init == l = 1 /\ bad = <<>>
\* t.hist: <<<<file, def>>, ...>>;  t.emitted: <<<<def, hash>>, ...>> (hash of the definition's Go declarations, temporaries renumbered);
\* t.base: the same for the baseline history;  t.files / t.wantfiles: gen files written / gen_X.go for every X.fo argument
Step ==
  /\ l <= Len(Trace)
  /\ LET t == Trace[l]
         baseOf(d) == LET hits == {i \in 1..Len(t.base) : t.base[i][1] = d} IN t.base[CHOOSE i \in hits : TRUE][2]
         ok == /\ t.code = 0                                              \* a valid history is accepted
               /\ t.files = t.wantfiles                                   \* X.fo -> gen_X.go, .foi -> nothing
               /\ {t.hist[i][2] : i \in 1..Len(t.hist)} = {t.emitted[i][1] : i \in 1..Len(t.emitted)}
               /\ \A i \in 1..Len(t.emitted) : t.emitted[i][2] # "" /\ t.emitted[i][2] = baseOf(t.emitted[i][1])
     IN bad' = IF ok THEN bad ELSE Append(bad, l)
  /\ l' = l + 1
  /\ IF l = Len(Trace) THEN PrintT(<<"TRACE-END", Len(Trace), bad'>>) ELSE TRUE
Spec == Init /\ [][Step]_<<l, bad>>
=============================================================================
