CONSTANTS
  TraceFile = "inf_trace.ndjson"
SPECIFICATION Spec
CHECK_DEADLOCK FALSE
