CONSTANTS
  L = 2
  OutFile = "lit_cases.ndjson"
INIT Init
NEXT Next
