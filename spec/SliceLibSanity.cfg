INIT Init
NEXT Next
