----------------------------- MODULE FoParseState -----------------------------
(***************************************************************************)
(* The long-lived parse state of one fc invocation over histories of       *)
(* top-level definitions (C07).                                            *)
(*                                                                         *)
(* Defs is a set of abstract definitions, Deps[d] the definitions d refers *)
(* to (directly), Need[d] how many inference type variables / forward      *)
(* references d allocates on its own.  A history processes definitions     *)
(* one at a time, possibly cut into several files; it is valid when every  *)
(* definition comes after everything it refers to.                         *)
(*                                                                         *)
(* What fc keeps between definitions (parse_state.fo, wrapper.go):         *)
(*   scope     the root scope: name -> what it is bound to (a top-level    *)
(*             definition; a later binding of the same name wins)          *)
(*   tva       inference type-variable allocator (psResetTmpCtx: reset at  *)
(*             every root let; limit 100)                                  *)
(*   fwd       forward-declaration allocator of type groups               *)
(*             (psEnterTypeDef: reset at every type definition; limit 100) *)
(*   tmpId     counter of compiler temporaries _vN (numbering only)        *)
(*   depth     scope depth (must be 1 at every root statement)             *)
(* emitted[d] records what the translation of d could observe.  The        *)
(* property: it is a function of d and of the definitions reachable from d.*)
(* Deviations names deliberately wrong variants (a reset that is missing,  *)
(* a scope that is not popped) to show the invariants are not vacuous.     *)
(***************************************************************************)
EXTENDS Integers, Sequences, FiniteSets

CONSTANTS Defs, Deps, NeedTva, NeedFwd, IsType, Locals, MaxFiles, Deviations, Limit

VARIABLES scope, tva, fwd, tmpId, depth, file, hist, emitted, failed

vars == <<scope, tva, fwd, tmpId, depth, file, hist, emitted, failed>>

\* (the definitions reachable from d through Deps are what "d and the declarations it refers to" means; not needed by the actions)

Init ==
  /\ scope = [n \in {} |-> <<>>] /\ tva = 0 /\ fwd = 0 /\ tmpId = 0 /\ depth = 1 /\ file = 1
  /\ hist = <<>> /\ emitted = [d \in {} |-> 0] /\ failed = {}

\* one root statement: reset the per-definition context, translate, leave the definition's names in the root scope
Process(d) ==
  /\ d \notin DOMAIN emitted /\ Deps[d] \subseteq DOMAIN emitted
  /\ LET tva0 == IF "NoTvaReset" \in Deviations /\ ~IsType[d] THEN tva ELSE 0
         fwd0 == IF "NoFwdReset" \in Deviations /\ IsType[d] THEN fwd ELSE 0
         over == (tva0 + NeedTva[d] > Limit) \/ (fwd0 + NeedFwd[d] > Limit)
     IN /\ tva' = IF IsType[d] THEN tva ELSE tva0 + NeedTva[d]
        /\ fwd' = IF IsType[d] THEN fwd0 + NeedFwd[d] ELSE fwd
        /\ emitted' = [x \in (DOMAIN emitted) \cup {d} |->
                         IF x = d THEN [tva0 |-> tva0, fwd0 |-> fwd0, depth0 |-> depth,
                                        \* what the free names of d (the definitions it refers to) are bound to
                                        binds |-> [n \in Deps[d] |-> scope[n]] ]
                         ELSE emitted[x]]
        /\ failed' = IF over THEN failed \cup {d} ELSE failed
  /\ scope' = [n \in (DOMAIN scope) \cup {d} \cup (IF "ScopeLeak" \in Deviations THEN Locals[d] ELSE {}) |->
                  IF n = d THEN <<"def", d>>
                  ELSE IF "ScopeLeak" \in Deviations /\ n \in Locals[d] THEN <<"local of", d>>   \* a local name left in the root scope
                  ELSE scope[n]]
  /\ depth' = IF "NoPop" \in Deviations /\ ~IsType[d] THEN depth + 1 ELSE depth
  /\ tmpId' = tmpId + 1
  /\ hist' = Append(hist, <<file, d>>)
  /\ UNCHANGED file

NextFile == file < MaxFiles /\ hist # <<>> /\ file' = file + 1 /\ tmpId' = 0
            /\ UNCHANGED <<scope, tva, fwd, depth, hist, emitted, failed>>

Next == (\E d \in Defs : Process(d)) \/ NextFile
Spec == Init /\ [][Next]_vars

---------------------------------------------------------------------------
\* C07 in the model: whatever the history, the translation of d starts from a fresh per-definition context, at root depth,
\* every name it refers to denotes the top-level definition of that name (not a local of some other definition), and does not fail for lack of allocator room
ContextFresh == \A d \in DOMAIN emitted : emitted[d].tva0 = 0 /\ emitted[d].fwd0 = 0 /\ emitted[d].depth0 = 1
NoCapture    == \A d \in DOMAIN emitted : \A n \in Deps[d] : emitted[d].binds[n] = <<"def", n>>
NoSpuriousFailure == failed = {}
View == <<scope, tva, fwd, depth, emitted, failed>>
=============================================================================
