CONSTANTS
  N = 2
  Deviations <- DevNoEofGuard
INIT Init
NEXT Next
