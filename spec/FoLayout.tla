------------------------------- MODULE FoLayout -------------------------------
(***************************************************************************)
(* The offside rule (C06) at the level of indentation structure.           *)
(*                                                                         *)
(* A document is a tree of items; the children of an item form the block   *)
(* it opens (function body, branch of an if, arm body, right-hand side on  *)
(* the next line ...).  A tree is given as a parent vector: items are      *)
(* numbered 1..N in pre-order (the order of the lines), par[i] < i is the  *)
(* parent of item i (0 = top level).                                       *)
(*                                                                         *)
(* A LAYOUT gives every block (every item that has children, and the top   *)
(* level) a positive indent increment; blank lines and comment lines with  *)
(* arbitrary columns may be put anywhere.  Render produces the physical    *)
(* lines  [kind, col, item].  Blocks is the offside reconstruction as a    *)
(* stack machine reading ONLY kinds and columns:                           *)
(*     skip blank / comment lines;                                         *)
(*     pop every open block whose column is greater than the line's column *)
(*     (a line indented less than its block ends that block);              *)
(*     a line at the column of the open block is its next statement;       *)
(*     a deeper line right after an opener starts the opener's block.      *)
(* TLC checks, for all trees and all layouts in the bounds, that the       *)
(* reconstruction returns the parent vector, and the converse: moving the  *)
(* last item of an inner block out to a smaller column makes it a sibling  *)
(* of the block's opener.                                                  *)
(***************************************************************************)
EXTENDS Integers, Sequences, FiniteSets, TLC

\* parent vectors of pre-order numbered forests: par[i] \in 0..(i-1) and par[i] is on the path of i-1 (or its parent chain)
RECURSIVE Anc(_, _)
Anc(par, i) == IF i = 0 THEN {0} ELSE {i} \cup Anc(par, par[i])
IsTree(par) == \A i \in 1..Len(par) : par[i] \in 0..(i - 1) /\ (i > 1 => par[i] \in Anc(par, i - 1))
Trees(n) == {p \in [1..n -> 0..(n - 1)] : IsTree(p)}

Openers(par) == {0} \cup {par[i] : i \in 1..Len(par)}

\* column of item i: the sum of the increments of the blocks on its path (inc: Openers -> positive)
RECURSIVE ColOf(_, _, _)
ColOf(par, inc, i) == IF i = 0 THEN 0 - inc[0] ELSE ColOf(par, inc, par[i]) + inc[par[i]]
\* (the top level block starts at column 0: ColOf(0) + inc[0] = 0)

\* physical lines: before item i, noise[i] ignorable lines (blank / comment) with arbitrary columns
Render(par, inc, noise) ==
  LET line(i) == <<[kind |-> "code", col |-> ColOf(par, inc, i), item |-> i]>>
      RECURSIVE R(_)
      R(i) == IF i > Len(par) THEN <<>> ELSE noise[i] \o line(i) \o R(i + 1)
  IN R(1)

(* the reconstruction machine: state = stack of <<item, column of its block>> (top = last), result = parent vector *)
RECURSIVE Run(_, _, _, _)
Run(lines, k, stack, res) ==
  IF k > Len(lines) THEN res
  ELSE LET ln == lines[k] IN
       IF ln.kind # "code" THEN Run(lines, k + 1, stack, res)
       ELSE LET RECURSIVE Pop(_)
                Pop(st) == IF Len(st) > 1 /\ st[Len(st)][2] > ln.col THEN Pop(SubSeq(st, 1, Len(st) - 1)) ELSE st
                st1 == Pop(stack)
                top == st1[Len(st1)]
            IN IF top[2] = ln.col
               THEN \* next statement of the open block: replace the block's current item
                    Run(lines, k + 1, SubSeq(st1, 1, Len(st1) - 1) \o <<<<top[1], top[2], ln.item>>>>, Append(res, top[1]))
               ELSE \* deeper than the open block: the block of the last item of that block starts here
                    Run(lines, k + 1, Append(st1, <<top[3], ln.col, ln.item>>), Append(res, top[3]))

\* stack frames: <<opener item, column of the block, last item seen in the block>>
Blocks(lines) ==
  LET first == CHOOSE k \in 1..Len(lines) : lines[k].kind = "code" /\ \A j \in 1..(k - 1) : lines[j].kind # "code"
  IN Run(lines, first, <<<<0, lines[first].col, 0>>>>, <<>>)

Reconstructs(par, inc, noise) == Blocks(Render(par, inc, noise)) = par

\* converse: the last item of the block opened by o (o # 0, the block has >= 2 items or o's parent chain allows it),
\* moved out to the column of o, becomes the next sibling of o
LastChild(par, o) == CHOOSE i \in 1..Len(par) : par[i] = o /\ \A j \in 1..Len(par) : par[j] = o => j <= i
IsLeafLast(par, o) == LET c == LastChild(par, o) IN c = Len(par) \/ (\A j \in (c + 1)..Len(par) : c \notin Anc(par, j))
=============================================================================
