------------------------------- MODULE FoRepr -------------------------------
(***************************************************************************)
(* The documented Go representation of Folang declarations (C03, part A).  *)
(*                                                                         *)
(* An abstract declaration is one of                                       *)
(*   [k |-> "record", fields |-> <<[n, t]>>]                               *)
(*   [k |-> "grecord", fields]   (a generic record R<T>; a field type may  *)
(*        mention T)                                                       *)
(*   [k |-> "recgroup", fields]  (a record of a `type .. and ..` group     *)
(*        whose field types mention a later record of the group / itself)  *)
(*   [k |-> "union", gen |-> BOOLEAN, cases |-> <<[n, has, t]>>]           *)
(*        (a generic union has one type parameter T; a case with has and   *)
(*         t = <<"base", "T">> carries it)                                 *)
(*   [k |-> "func", params |-> <<types>> (<<>> = unit parameter),          *)
(*                  res |-> type or Unit]                                  *)
(*   [k |-> "var", t |-> type]                                             *)
(*   [k |-> "lamvar", params, res]   (a top-level let bound to a lambda)   *)
(* with type terms of FoTypeExpr.  Fo(d) is the Folang text of the         *)
(* declaration, Surface(d) the Go API surface the documentation promises,  *)
(* written as COMPILE-TIME ASSERTIONS: Go declarations that type-check     *)
(* exactly when the emitted code has that surface:                         *)
(*   record  -> struct with the same field names and mapped types in order *)
(*              (conversion to the literal struct type)                    *)
(*   union U, case C -> interface U, struct U_C with payload field Value,  *)
(*              constructor New_U_C: a func when the case has a payload or *)
(*              U is generic, a package variable otherwise                 *)
(*   let     -> package func (unit parameter = no parameter, unit result = *)
(*              no result) or package var                                  *)
(* "@" stands for the unique number of the case (substituted by the        *)
(* harness so that all cases share one Go package).                        *)
(***************************************************************************)
EXTENDS FoTypeExpr

RECURSIVE CatS(_), FlattenS(_)
FlattenS(ss) == IF ss = <<>> THEN <<>> ELSE ss[1] \o FlattenS(Tail(ss))
CatS(ss) == IF ss = <<>> THEN "" ELSE ss[1] \o CatS(Tail(ss))
FoT(t) == CatS(PMin(t, 0))               \* Folang text of a type
FoTAtom(t) == CatS(PMin(t, 2))           \* ... where an atom-level type is required (tuple components, slice elements)
GoT(t) == IF t = B("T") THEN "T" ELSE GoText(t)
Zero(t) == "*new(" \o GoT(t) \o ")"

\* Go type text with the type parameter instantiated at string
RECURSIVE Inst(_)
Inst(t) == IF t = B("T") THEN B("string")
           ELSE CASE t[1] \in {"base", "unit"} -> t
                  [] t[1] = "slice" -> <<"slice", Inst(t[2])>>
                  [] t[1] = "tuple" -> <<"tuple", [i \in 1..Len(t[2]) |-> Inst(t[2][i])]>>
                  [] t[1] = "func"  -> <<"func", [i \in 1..Len(t[2]) |-> Inst(t[2][i])], Inst(t[3])>>
                  [] t[1] = "named" -> <<"named", t[2], [i \in 1..Len(t[3]) |-> Inst(t[3][i])]>>

\* two type parameters A, B instantiated at string, int
RECURSIVE Inst2(_)
Inst2(t) == IF t = B("A") THEN B("string") ELSE IF t = B("B") THEN B("int")
            ELSE CASE t[1] \in {"base", "unit"} -> t
                   [] t[1] = "slice" -> <<"slice", Inst2(t[2])>>
                   [] t[1] = "tuple" -> <<"tuple", [i \in 1..Len(t[2]) |-> Inst2(t[2][i])]>>
                   [] t[1] = "func"  -> <<"func", [i \in 1..Len(t[2]) |-> Inst2(t[2][i])], Inst2(t[3])>>
                   [] t[1] = "named" -> <<"named", t[2], [i \in 1..Len(t[3]) |-> Inst2(t[3][i])]>>

Fo(d) ==
  CASE d.k = "record" -> "type R@ = {" \o JoinStr([i \in 1..Len(d.fields) |-> d.fields[i].n \o ": " \o FoT(d.fields[i].t)], "; ") \o "}\n"
    \* a generic record: one type parameter T
    [] d.k = "grecord" -> "type R@<T> = {" \o JoinStr([i \in 1..Len(d.fields) |-> d.fields[i].n \o ": " \o FoT(d.fields[i].t)], "; ") \o "}\n"
    \* a record in an `and` group: its fields may mention the record S@ declared AFTER it, or R@ itself (through a slice)
    [] d.k = "recgroup" -> "type R@ = {" \o JoinStr([i \in 1..Len(d.fields) |-> d.fields[i].n \o ": " \o FoT(d.fields[i].t)], "; ") \o "}\n"
                           \o "and S@ = {Z: int}\n"
    [] d.k = "union"  -> "type U@" \o (IF d.gen THEN "<T>" ELSE "") \o " =\n" \o
                         CatS([i \in 1..Len(d.cases) |-> "| " \o d.cases[i].n \o "@" \o (IF d.cases[i].has THEN " of " \o FoT(d.cases[i].t) ELSE "") \o "\n"])
    [] d.k = "union2" -> "type U@<A, B> =\n" \o
                         CatS([i \in 1..Len(d.cases) |-> "| " \o d.cases[i].n \o "@" \o (IF d.cases[i].has THEN " of " \o FoT(d.cases[i].t) ELSE "") \o "\n"])
    [] d.k = "func"   -> "let f@ " \o (IF d.params = <<>> THEN "()" ELSE JoinStr([i \in 1..Len(d.params) |-> "(a" \o ToString(i) \o ":" \o FoT(d.params[i]) \o ")"], " "))
                         \o " =\n  " \o (IF d.res = Unit THEN "()" ELSE IF d.res = B("int") THEN "0" ELSE "\"s\"") \o "\n"
    [] d.k = "namedfunc" -> "let " \o d.name \o " (a1:int) =\n  0\n"          \* a top-level function with a given name (no @)
    [] d.k = "var"    -> "let v@ = " \o (IF d.t = B("int") THEN "5" ELSE IF d.t = B("string") THEN "\"s\"" ELSE "true") \o "\n"
    [] d.k = "lamvar" -> "let v@ = fun " \o JoinStr([i \in 1..Len(d.params) |-> "(a" \o ToString(i) \o ":" \o FoT(d.params[i]) \o ")"], " ")
                         \o " -> " \o (IF d.res = B("int") THEN "0" ELSE "\"s\"") \o "\n"

Surface(d) ==
  CASE d.k = "record" ->
         <<"var _ = struct{" \o JoinStr([i \in 1..Len(d.fields) |-> d.fields[i].n \o " " \o GoT(d.fields[i].t)], "; ") \o "}(R@{})">>
    [] d.k = "grecord" ->        \* R@[string] is the struct with T = string
         <<"var _ = struct{" \o JoinStr([i \in 1..Len(d.fields) |-> d.fields[i].n \o " " \o GoT(Inst(d.fields[i].t))], "; ") \o "}(R@[string]{})">>
    [] d.k = "recgroup" ->       \* same fields in the same order whether or not their types are known when the record is read
         <<"var _ = struct{" \o JoinStr([i \in 1..Len(d.fields) |-> d.fields[i].n \o " " \o GoT(d.fields[i].t)], "; ") \o "}(R@{})",
           "var _ = struct{Z int}(S@{})">>
    [] d.k = "union"  ->
         LET ta == IF d.gen THEN "[string]" ELSE ""
             U == "U@" \o ta
             one(c) ==
               LET S == "U@_" \o c.n \o "@" \o ta
                   N == "New_U@_" \o c.n \o "@" \o ta
               IN IF c.has
                  THEN <<"var _ " \o U \o " = " \o S \o "{Value: " \o Zero(Inst(c.t)) \o "}",
                         "var _ " \o GoT(Inst(c.t)) \o " = " \o S \o "{}.Value",
                         "var _ func(" \o GoT(Inst(c.t)) \o ") " \o U \o " = " \o N>>                 \* payload: a function
                  ELSE <<"var _ " \o U \o " = " \o S \o "{}",
                         IF d.gen THEN "var _ func() " \o U \o " = " \o N                              \* generic: a function even without payload
                         ELSE "var _ " \o U \o " = " \o N,                                           \* otherwise a package variable
                         IF d.gen THEN "var _ = " \o N \o "()" ELSE "var _ = &" \o N>>               \* (a variable is addressable, a call is not needed)
         IN FlattenS([i \in 1..Len(d.cases) |-> one(d.cases[i])])
    [] d.k = "union2" ->          \* a union with two type parameters: every constructor is a function
         LET ta == "[string, int]"
             U == "U@" \o ta
             one(c) ==
               LET S == "U@_" \o c.n \o "@" \o ta
                   N == "New_U@_" \o c.n \o "@" \o ta
               IN IF c.has
                  THEN <<"var _ " \o U \o " = " \o S \o "{Value: " \o Zero(Inst2(c.t)) \o "}",
                         "var _ " \o GoT(Inst2(c.t)) \o " = " \o S \o "{}.Value",
                         "var _ func(" \o GoT(Inst2(c.t)) \o ") " \o U \o " = " \o N>>
                  ELSE <<"var _ " \o U \o " = " \o S \o "{}", "var _ func() " \o U \o " = " \o N>>
         IN FlattenS([i \in 1..Len(d.cases) |-> one(d.cases[i])])
    [] d.k = "func"   ->
         <<"var _ func(" \o JoinStr([i \in 1..Len(d.params) |-> GoT(d.params[i])], ",") \o ")" \o (IF d.res = Unit THEN "" ELSE " " \o GoT(d.res)) \o " = f@">>
    [] d.k = "namedfunc" -> <<"var _ func(int) int = " \o d.name>>                  \* the package func has the source name
    [] d.k = "var"    -> <<"var _ *" \o GoT(d.t) \o " = &v@">>
    \* a top-level let bound to a lambda is a package VARIABLE of function type (addressable, assignable), not a func declaration
    [] d.k = "lamvar" -> <<"var _ *func(" \o JoinStr([i \in 1..Len(d.params) |-> GoT(d.params[i])], ",") \o ") " \o GoT(d.res) \o " = &v@">>
=============================================================================
