CONSTANTS
  Args <- NoArgs
  TraceFile = "driver_trace.ndjson"
SPECIFICATION TraceSpec
INVARIANTS ZeroMeansComplete FailureIsClean
CHECK_DEADLOCK FALSE
