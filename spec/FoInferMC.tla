------------------------------ MODULE FoInferMC ------------------------------
(* confluence / termination of the unification machine on small constraint sets; the deterministic Unify as oracle *)
EXTENDS FoInfer
a == V("a")  b == V("b")  c == V("c")  d == V("d")
TInt == B("int")  TStr == B("string")
\* constraint sets with sharing, diamonds, nesting, clashes and cycles
Sets == << <<<<a, b>>, <<b, c>>, <<c, TInt>>>>,
          <<<<a, <<"slice", b>>>>, <<b, <<"tuple", <<c, TInt>>>>>>, <<c, TStr>>>>,
          <<<<<<"func", <<a, b>>, c>>, <<"func", <<TInt, <<"slice", a>>>>, b>>>>>>,
          <<<<a, <<"tuple", <<b, c>>>>>>, <<a, <<"tuple", <<c, b>>>>>>, <<b, TInt>>>>,
          <<<<a, <<"slice", a>>>>>>,                                              \* occurs check
          <<<<a, <<"func", <<a>>, b>>>>, <<b, TInt>>>>,                            \* x x
          <<<<a, TInt>>, <<a, TStr>>>>,                                            \* clash
          <<<<<<"slice", a>>, <<"slice", <<"slice", b>>>>>>, <<b, c>>, <<d, <<"tuple", <<a, c>>>>>>>>,
          <<<<a, b>>, <<c, d>>, <<<<"tuple", <<a, c>>>>, <<"tuple", <<d, b>>>>>>>>,
          <<<<<<"named", "dict.Dict", <<a, b>>>>, <<"named", "dict.Dict", <<TStr, <<"slice", c>>>>>>>>, <<c, a>>>> >>
VARIABLE which
Init == \E i \in 1..Len(Sets) : which = i /\ MInit(Sets[i])
Next == MNext /\ UNCHANGED which
Spec == Init /\ [][Next]_<<mvars, which>> /\ WF_<<mvars, which>>(Next)
Observed == <<a, b, c, d>>
\* every terminal state agrees with the deterministic oracle: same verdict, and the observed terms get the same types up to renaming
RECURSIVE Canon(_)
Canon(ts) == LET order == Dedup(VarsSeq(ts), {}) IN [i \in 1..Len(ts) |-> Rename(order, ts[i])]
Agrees ==
  Terminal =>
    LET u == Unify(Sets[which], NoSubst) IN
    /\ failed = ~u.ok
    /\ (~failed => Canon([i \in 1..4 |-> Apply(sub, Observed[i])]) = Canon([i \in 1..4 |-> Apply(u.s, Observed[i])]))
Terminates == <>Terminal
=============================================================================
