CONSTANTS
  OutFile = "repr_cases.ndjson"
INIT Init
NEXT Next
