CONSTANTS
  OutFile = "repr_cases.ndjson"
  Big = FALSE
INIT Init
NEXT Next
