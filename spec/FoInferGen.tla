----------------------------- MODULE FoInferGen -----------------------------
(***************************************************************************)
(* C02, stage 2: the syntax-directed typing rules of Folang as constraint  *)
(* generation over an abstract syntax, with top-level generalisation.      *)
(*                                                                         *)
(* Expressions (tagged tuples, the JSON arrays of tools/vlib/infgen.py):   *)
(*   <<"var", x>>            a parameter or local                           *)
(*   <<"lit", b>>            a literal of base type b                       *)
(*   <<"call", f, args>>     full application of a library function, an    *)
(*                           operator, a union constructor, a record       *)
(*                           literal or an earlier top-level function f:   *)
(*                           a FRESH instance of f's type scheme per use   *)
(*   <<"app", x, args>>      application of a function-typed variable      *)
(*   <<"tuple", args>>  <<"slice", args>>  <<"lam", y, body>>              *)
(*   <<"fld", e, F>>         field access e.F  (_.F is fun y -> y.F)       *)
(*   <<"if", c, a, b>>   <<"pipe", x, f, args>>   <<"papp", f, args>>      *)
(*   <<"lamn", <<y1, .., yn>>, body>>                                      *)
(*   <<"self", args>>        a recursive call of the function being typed  *)
(*   <<"match", x, <<<<case, v or "", body>>, ..>>, <<default>> or <<>>>>  *)
(*   <<"smatch", x, <<body, ..>>, <<v or "", last body>>>>  a string match  *)
(* Statements:  <<"let", v, e>>   <<"destr", <<v1, .., vn>>, e>>            *)
(* A function: [name, params |-> <<names>>, stmts, fin].                    *)
(*                                                                         *)
(* Rules (fc/infer.fo collectExprRel / collectStmtRel, docs/specs):        *)
(*   call: argument types = instantiated parameter types, result = inst.   *)
(*   app : type(x) = (argument types) -> fresh                             *)
(*   slice literal: all elements have the type of the first                *)
(*   lambda: fresh parameter type; un-annotated locals are monomorphic     *)
(*   let v = e: v gets the type of e (no generalisation of locals)         *)
(*   let (a, b) = e: type(e) = a-type * b-type with fresh component types  *)
(* A top-level function is generalised over the variables left in its      *)
(* parameter and result types (scheme variables <<"svar", k>>).            *)
(***************************************************************************)
EXTENDS FoInfer

SV(k) == SVar(k)
TInt == B("int")  TStr == B("string")  TBool == B("bool")
Sl(t) == <<"slice", t>>
Tu(ts) == <<"tuple", ts>>
Fu(as, r) == <<"func", as, r>>
Nm(n, as) == <<"named", n, as>>
Sig(n, as, r) == [n |-> n, args |-> as, res |-> r]

\* the signatures the generated functions use: operators, pkg/slice, pkg/strings, pkg/frt (pkg_all.foi), and the user types of the prelude
LibSigs ==
  [x \in {} |-> Sig(0, <<>>, Unit)]
  @@ ("int+" :> Sig(0, <<TInt, TInt>>, TInt))                  \* + - * with an int operand
  @@ ("str+" :> Sig(0, <<TStr, TStr>>, TStr))
  @@ ("same+" :> Sig(1, <<SV(1), SV(1)>>, SV(1)))              \* + between two operands of which neither is typed by itself: one type, also the sum's
  @@ ("cmp" :> Sig(0, <<TInt, TInt>>, TBool))                  \* < > <= >= with an int operand
  @@ ("eq" :> Sig(1, <<SV(1), SV(1)>>, TBool))                 \* = <>
  @@ ("strings.Length" :> Sig(0, <<TStr>>, TInt))
  @@ ("strings.Concat" :> Sig(0, <<TStr, Sl(TStr)>>, TStr))
  @@ ("frt.Sprintf1" :> Sig(1, <<TStr, SV(1)>>, TStr))
  @@ ("slice.Length" :> Sig(1, <<Sl(SV(1))>>, TInt))
  @@ ("slice.Head" :> Sig(1, <<Sl(SV(1))>>, SV(1)))
  @@ ("frt.Fst" :> Sig(2, <<Tu(<<SV(1), SV(2)>>)>>, SV(1)))
  @@ ("frt.Snd" :> Sig(2, <<Tu(<<SV(1), SV(2)>>)>>, SV(2)))
  @@ ("slice.Append" :> Sig(1, <<Sl(SV(1)), Sl(SV(1))>>, Sl(SV(1))))
  @@ ("slice.PushLast" :> Sig(1, <<SV(1), Sl(SV(1))>>, Sl(SV(1))))
  @@ ("slice.Map" :> Sig(2, <<Fu(<<SV(1)>>, SV(2)), Sl(SV(1))>>, Sl(SV(2))))
  @@ ("dict.Keys" :> Sig(2, <<Nm("dict.Dict", <<SV(1), SV(2)>>)>>, Sl(SV(1))))          \* pkg/dict: an external generic type
  @@ ("dict.Values" :> Sig(2, <<Nm("dict.Dict", <<SV(1), SV(2)>>)>>, Sl(SV(2))))
  @@ ("dict.ContainsKey" :> Sig(2, <<Nm("dict.Dict", <<SV(1), SV(2)>>), SV(1)>>, TBool))
  @@ ("dict.Item" :> Sig(2, <<Nm("dict.Dict", <<SV(1), SV(2)>>), SV(1)>>, SV(2)))
  @@ ("slice.Filter" :> Sig(1, <<Fu(<<SV(1)>>, TBool), Sl(SV(1))>>, Sl(SV(1))))
  @@ ("slice.Fold" :> Sig(2, <<Fu(<<SV(2), SV(1)>>, SV(2)), SV(2), Sl(SV(1))>>, SV(2)))
  \* type IR1 = {A: int; B: string}   type IR2 = {Name: string; Vals: []int}   type IBox<T> = {Val: T; Tag: string}
  @@ ("{IR1}" :> Sig(0, <<TInt, TStr>>, Nm("IR1", <<>>)))
  @@ ("{IR2}" :> Sig(0, <<TStr, Sl(TInt)>>, Nm("IR2", <<>>)))
  @@ ("{IR3}" :> Sig(0, <<TInt, TStr>>, Nm("IR3", <<>>)))                 \* type IR3 = {C: int; D: string}
  @@ ("{IBox}" :> Sig(1, <<SV(1), TStr>>, Nm("IBox", <<SV(1)>>)))
  @@ ("{IPair}" :> Sig(2, <<SV(1), SV(2)>>, Nm("IPair", <<SV(1), SV(2)>>)))
  @@ ("{IRev}" :> Sig(2, <<SV(1), SV(2)>>, Nm("IRev", <<SV(1), SV(2)>>)))          \* type IRev<A, B> = {RSecond: B; RFirst: A}: fields in the other order
  @@ ("{ITagged}" :> Sig(2, <<SV(1)>>, Nm("ITagged", <<SV(1), SV(2)>>)))           \* type ITagged<T, P> = {TVal: T}: P is a phantom parameter
  \* let ipair a b = (a, b) (prelude) with an explicit type argument for its FIRST type parameter only: the second is fresh at every use
  @@ ("ipair<int>" :> Sig(1, <<TInt, SV(1)>>, Tu(<<TInt, SV(1)>>)))        \* type IPair<A, B> = {Fst: A; Snd: B}
  \* type IU = IC1 of int | IC2 of int*string | IC3      type IOpt<T> = ISome of T | INone
  @@ ("IC1" :> Sig(0, <<TInt>>, Nm("IU", <<>>)))
  @@ ("IC2" :> Sig(0, <<Tu(<<TInt, TStr>>)>>, Nm("IU", <<>>)))
  @@ ("IC3" :> Sig(0, <<>>, Nm("IU", <<>>)))
  @@ ("ISome" :> Sig(1, <<SV(1)>>, Nm("IOpt", <<SV(1)>>)))
  \* type IEither<A, B> = ILeft of A | IRight of B
  @@ ("ILeft" :> Sig(2, <<SV(1)>>, Nm("IEither", <<SV(1), SV(2)>>)))
  @@ ("IRight" :> Sig(2, <<SV(2)>>, Nm("IEither", <<SV(1), SV(2)>>)))
  \* ... with explicit type arguments (ILeft<int, string> x): Go cannot infer a type parameter the payload does not mention
  @@ ("ILeft<int,string>" :> Sig(0, <<TInt>>, Nm("IEither", <<TInt, TStr>>)))
  @@ ("IRight<int,string>" :> Sig(0, <<TStr>>, Nm("IEither", <<TInt, TStr>>)))

\* the cases of the unions IU and IOpt<T>: payload types (scheme variables = the union's type parameters)
UnionOfCase == [IC1 |-> "IU", IC2 |-> "IU", IC3 |-> "IU", ISome |-> "IOpt", INone |-> "IOpt", ILeft |-> "IEither", IRight |-> "IEither"]
CasePayload == [IC1 |-> TInt, IC2 |-> Tu(<<TInt, TStr>>), IC3 |-> Unit, ISome |-> SV(1), INone |-> Unit, ILeft |-> SV(1), IRight |-> SV(2)]

---------------------------------------------------------------------------
\* instantiate scheme variable k as the fresh variable t<base+k>
TV(i) == V("t" \o ToString(i))
RECURSIVE Inst(_, _)
Inst(t, base) ==
  CASE t[1] = "svar"  -> TV(base + t[2])
    [] t[1] \in {"base", "unit", "var"} -> t
    [] t[1] = "slice" -> <<"slice", Inst(t[2], base)>>
    [] t[1] = "tuple" -> <<"tuple", [i \in 1..Len(t[2]) |-> Inst(t[2][i], base)]>>
    [] t[1] = "func"  -> <<"func", [i \in 1..Len(t[2]) |-> Inst(t[2][i], base)], Inst(t[3], base)>>
    [] t[1] = "named" -> <<"named", t[2], [i \in 1..Len(t[3]) |-> Inst(t[3][i], base)]>>

Ext(env, x, t) == [y \in (DOMAIN env) \cup {x} |-> IF y = x THEN t ELSE env[y]]
St(eqs, n) == [eqs |-> eqs, n |-> n]

\* GenE(sigs, e, env, st) = [t |-> type of e, st |-> constraints and fresh-variable counter after e]
RECURSIVE GenE(_, _, _, _), GenArgs(_, _, _, _)
GenArgs(sigs, es, env, st) ==
  IF Len(es) = 0 THEN [ts |-> <<>>, st |-> st]
  ELSE LET h == GenE(sigs, es[1], env, st)
           r == GenArgs(sigs, Tail(es), env, h.st)
       IN [ts |-> <<h.t>> \o r.ts, st |-> r.st]

GenE(sigs, e, env, st) ==
  CASE e[1] = "var" -> [t |-> env[e[2]], st |-> st]
    [] e[1] = "lit" -> [t |-> B(e[2]), st |-> st]
    [] e[1] = "call" ->
         LET a == GenArgs(sigs, e[3], env, st)
             sg == sigs[e[2]]
             base == a.st.n
         IN [t |-> Inst(sg.res, base),
             st |-> St(a.st.eqs \o [i \in 1..Len(sg.args) |-> <<a.ts[i], Inst(sg.args[i], base)>>], base + sg.n)]
    [] e[1] = "app" ->
         LET a == GenArgs(sigs, e[3], env, st)
             r == TV(a.st.n + 1)
         IN [t |-> r, st |-> St(Append(a.st.eqs, <<env[e[2]], Fu(a.ts, r)>>), a.st.n + 1)]
    [] e[1] = "tuple" ->
         LET a == GenArgs(sigs, e[2], env, st) IN [t |-> Tu(a.ts), st |-> a.st]
    [] e[1] = "slice" ->
         LET a == GenArgs(sigs, e[2], env, st)
         IN [t |-> Sl(a.ts[1]), st |-> St(a.st.eqs \o [i \in 1..(Len(a.ts) - 1) |-> <<a.ts[1], a.ts[i + 1]>>], a.st.n)]
    [] e[1] = "fld" ->                                  \* e.F : a fresh result type and the deferred constraint
         LET a == GenE(sigs, e[2], env, st)
             r == TV(a.st.n + 1)
         IN [t |-> r, st |-> St(Append(a.st.eqs, <<"fld", a.t, e[3], r>>), a.st.n + 1)]
    [] e[1] = "if" ->                                   \* if c then a else b : c is bool, both branches have one type
         LET a == GenArgs(sigs, <<e[2], e[3], e[4]>>, env, st)
         IN [t |-> a.ts[2], st |-> St(a.st.eqs \o <<<<a.ts[1], TBool>>, <<a.ts[2], a.ts[3]>>>>, a.st.n)]
    [] e[1] = "pipe" ->                                 \* x |> f a1 .. ak  is  f a1 .. ak x
         GenE(sigs, <<"call", e[3], e[4] \o <<e[2]>>>>, env, st)
    [] e[1] = "papp" ->                                 \* partial application f a1 .. ak : a function of the remaining parameters
         LET a == GenArgs(sigs, e[3], env, st)
             sg == sigs[e[2]]
             base == a.st.n
             k == Len(e[3])
         IN [t |-> Fu([i \in 1..(Len(sg.args) - k) |-> Inst(sg.args[k + i], base)], Inst(sg.res, base)),
             st |-> St(a.st.eqs \o [i \in 1..k |-> <<a.ts[i], Inst(sg.args[i], base)>>], base + sg.n)]
    [] e[1] = "lamn" ->                                 \* fun y1 .. yn -> body
         LET k == Len(e[2])
             tys == [i \in 1..k |-> TV(st.n + i)]
             env2 == [y \in (DOMAIN env) \cup {e[2][i] : i \in 1..k} |->
                        IF \E i \in 1..k : e[2][i] = y THEN tys[CHOOSE i \in 1..k : e[2][i] = y] ELSE env[y]]
             b == GenE(sigs, e[3], env2, St(st.eqs, st.n + k))
         IN [t |-> Fu(tys, b.t), st |-> b.st]
    [] e[1] = "self" ->                                 \* a recursive call: the function's own (monomorphic) parameter and result types
         LET a == GenArgs(sigs, e[2], env, st)
             me == env["<self>"]
         IN [t |-> me[3], st |-> St(a.st.eqs \o [i \in 1..Len(a.ts) |-> <<a.ts[i], me[2][i]>>], a.st.n)]
    [] e[1] = "match" ->                                \* match x with | C v -> body ... [| _ -> default]: x is of the union, v of the case's payload type,
                                                        \* all bodies have one type
         \* (the target's type is a union type when the match is met - an annotated parameter or a local bound to a constructor
         \* application; its type arguments instantiate the payload types)
         LET u == UnionOfCase[e[3][1][1]]
             tx == env[e[2]]
             targs == IF tx[1] = "named" /\ tx[2] = u THEN tx[3] ELSE <<>>
             arms == e[3]
             bodies == [i \in 1..Len(arms) |-> arms[i][3]] \o (IF Len(e[4]) = 0 THEN <<>> ELSE <<e[4][1]>>)
             envOf(i) == IF i <= Len(arms) /\ arms[i][2] # "" THEN Ext(env, arms[i][2], InstArgs(CasePayload[arms[i][1]], targs)) ELSE env
             RECURSIVE Go(_, _)
             Go(i, st0) == IF i > Len(bodies) THEN [ts |-> <<>>, st |-> st0]
                           ELSE LET h == GenE(sigs, bodies[i], envOf(i), st0)
                                    r == Go(i + 1, h.st)
                                IN [ts |-> <<h.t>> \o r.ts, st |-> r.st]
             g == Go(1, st)
         IN [t |-> g.ts[1],
             st |-> St(g.st.eqs \o <<<<env[e[2]], Nm(u, targs)>>>> \o [i \in 1..(Len(g.ts) - 1) |-> <<g.ts[1], g.ts[i + 1]>>], g.st.n)]
    [] e[1] = "smatch" ->                               \* match x with | "a" -> b1 | "b" -> b2 | _ -> bn  (or | v -> bn): x is a string, v too,
                                                        \* all bodies have one type
         LET bodies == e[3] \o <<e[4][2]>>
             envOf(i) == IF i = Len(bodies) /\ e[4][1] # "" THEN Ext(env, e[4][1], TStr) ELSE env
             RECURSIVE GoS(_, _)
             GoS(i, st0) == IF i > Len(bodies) THEN [ts |-> <<>>, st |-> st0]
                            ELSE LET h == GenE(sigs, bodies[i], envOf(i), st0)
                                     r == GoS(i + 1, h.st)
                                 IN [ts |-> <<h.t>> \o r.ts, st |-> r.st]
             g == GoS(1, st)
         IN [t |-> g.ts[1],
             st |-> St(g.st.eqs \o <<<<env[e[2]], TStr>>>> \o [i \in 1..(Len(g.ts) - 1) |-> <<g.ts[1], g.ts[i + 1]>>], g.st.n)]
    [] e[1] = "lam" ->
         LET ty == TV(st.n + 1)
             b == GenE(sigs, e[3], Ext(env, e[2], ty), St(st.eqs, st.n + 1))
         IN [t |-> Fu(<<ty>>, b.t), st |-> b.st]

\* statements thread the environment
RECURSIVE GenStmts(_, _, _, _)
GenStmts(sigs, ss, env, st) ==
  IF Len(ss) = 0 THEN [env |-> env, st |-> st]
  ELSE LET s == ss[1] IN
       IF s[1] = "let"
       THEN LET r == GenE(sigs, s[3], env, st) IN GenStmts(sigs, Tail(ss), Ext(env, s[2], r.t), r.st)
       ELSE \* destr: components get fresh types, the right-hand side is their tuple
            LET r == GenE(sigs, s[3], env, st)
                k == Len(s[2])
                comps == [i \in 1..k |-> TV(r.st.n + i)]
                env2 == [y \in (DOMAIN env) \cup {s[2][i] : i \in 1..k} |->
                           IF \E i \in 1..k : s[2][i] = y THEN comps[CHOOSE i \in 1..k : s[2][i] = y] ELSE env[y]]
            IN GenStmts(sigs, Tail(ss), env2, St(Append(r.st.eqs, <<r.t, Tu(comps)>>), r.st.n + k))

PVar(p) == V("p_" \o p)
\* the constraint problem of a function: [eqs, params, res] as FoInfer!Principal takes it
\* f.rtype (optional): the result type written in the source.
\* f.ptypes (optional): parameters whose type is written in the source, <<<<name, type>>, ...>> (a match target must be annotated)
GivenType(f, p) == IF "ptypes" \in DOMAIN f /\ \E i \in 1..Len(f.ptypes) : f.ptypes[i][1] = p
                   THEN f.ptypes[CHOOSE i \in 1..Len(f.ptypes) : f.ptypes[i][1] = p][2] ELSE PVar(p)
Problem(sigs, f) ==
  LET ptys == [i \in 1..Len(f.params) |-> GivenType(f, f.params[i])]
      ret == V("ret")
      \* the function's own name inside its body: parameters -> a type variable that is the type of the body
      env0 == [p \in {f.params[i] : i \in 1..Len(f.params)} \cup {"<self>"} |->
                 IF p = "<self>" THEN Fu(ptys, ret) ELSE GivenType(f, p)]
      b == GenStmts(sigs, f.stmts, env0, St(<<>>, 0))
      r == GenE(sigs, f.fin, b.env, b.st)
      \* f.rtype (optional): the result type written in the source (let f a b : T = ...), one more equation
      given == IF "rtype" \in DOMAIN f THEN <<<<ret, f.rtype>>>> ELSE <<>>
  IN [eqs |-> Append(r.st.eqs, <<ret, r.t>>) \o given, params |-> ptys, res |-> r.t]

\* generalisation: the type scheme of a top-level function, for its uses in later functions
RECURSIVE ToScheme(_, _)
ToScheme(order, t) ==
  CASE t[1] = "var"   -> SV(IdxOf(order, t[2]))
    [] t[1] \in {"base", "unit"} -> t
    [] t[1] = "slice" -> <<"slice", ToScheme(order, t[2])>>
    [] t[1] = "tuple" -> <<"tuple", [i \in 1..Len(t[2]) |-> ToScheme(order, t[2][i])]>>
    [] t[1] = "func"  -> <<"func", [i \in 1..Len(t[2]) |-> ToScheme(order, t[2][i])], ToScheme(order, t[3])>>
    [] t[1] = "named" -> <<"named", t[2], [i \in 1..Len(t[3]) |-> ToScheme(order, t[3][i])]>>

Scheme(sigs, f) ==
  LET pr == Problem(sigs, f)
      u == Solve(pr.eqs)
      ps == [i \in 1..Len(pr.params) |-> Apply(u.s, pr.params[i])]
      r == Apply(u.s, pr.res)
      order == Dedup(VarsSeq(ps) \o Vars(r), {})
  IN Sig(Len(order), [i \in 1..Len(ps) |-> ToScheme(order, ps[i])], ToScheme(order, r))

\* a program: top-level functions in order, each sees the schemes of the earlier ones
RECURSIVE WithFns(_, _)
WithFns(sigs, fs) == IF Len(fs) = 0 THEN sigs ELSE WithFns(sigs @@ (fs[1].name :> Scheme(sigs, fs[1])), Tail(fs))

---------------------------------------------------------------------------
(* the prelude of the generated packages (tools/vlib/infgen.py PRELUDE), as abstract syntax:                                 *)
(*   let ipair a b = (a, b)      let iid x = x      let iswap p = (frt.Snd p, frt.Fst p)      let iconst (n:int) y = n       *)
(*   let iunbox (b:IBox<int>) = b.Val    let ioptlen (o:IOpt<string>) = 1    let iwrap x = {Val=x; Tag="w"}                   *)
(*   let imkint (n:int) = {Val=n; Tag="k"}                                                                                   *)
Var(x) == <<"var", x>>
Fn(name, params, stmts, fin) == [name |-> name, params |-> params, stmts |-> stmts, fin |-> fin]
PreludeFns == <<
  Fn("ipair", <<"a", "b">>, <<>>, <<"tuple", <<Var("a"), Var("b")>>>>),
  Fn("iid", <<"x">>, <<>>, Var("x")),
  Fn("iswap", <<"p">>, <<>>, <<"tuple", <<<<"call", "frt.Snd", <<Var("p")>>>>, <<"call", "frt.Fst", <<Var("p")>>>>>>>>),
  Fn("iconst", <<"n", "y">>, <<>>, <<"call", "int+", <<Var("n"), <<"lit", "int">>>>>>),      \* (n:int): as typed as n + 0
  Fn("iwrap", <<"x">>, <<>>, <<"call", "{IBox}", <<Var("x"), <<"lit", "string">>>>>>) >>
\* annotated signatures are given, not inferred
AnnotSigs == ("iunbox" :> Sig(0, <<Nm("IBox", <<TInt>>)>>, TInt)) @@ ("ioptlen" :> Sig(0, <<Nm("IOpt", <<TStr>>)>>, TInt))
             @@ ("imkint" :> Sig(0, <<TInt>>, Nm("IBox", <<TInt>>)))                       \* let imkint (n:int) = {Val=n; Tag="k"}
Sigs == WithFns(LibSigs @@ AnnotSigs, PreludeFns)

\* expected schemes of the prelude, as the documentation describes generalisation
PreludeOK ==
  /\ Sigs["ipair"] = Sig(2, <<SV(1), SV(2)>>, Tu(<<SV(1), SV(2)>>))
  /\ Sigs["iid"] = Sig(1, <<SV(1)>>, SV(1))
  /\ Sigs["iswap"] = Sig(2, <<Tu(<<SV(1), SV(2)>>)>>, Tu(<<SV(2), SV(1)>>))
  /\ Sigs["iconst"] = Sig(1, <<TInt, SV(1)>>, TInt)
  /\ Sigs["iwrap"] = Sig(1, <<SV(1)>>, Nm("IBox", <<SV(1)>>))

PrincipalOfAst(f) == Principal(Problem(Sigs, f))

\* f.deps (optional): the abstract syntax of the earlier generated functions f calls (each in turn with its own deps): their type schemes are
\* INFERRED and generalised here, and every call takes a fresh instance - a function that calls an ill-typed one is ill-typed
RECURSIVE DepSigs(_), DepsOK(_)
DepSigs(f) == IF "deps" \notin DOMAIN f THEN Sigs
              ELSE LET RECURSIVE Add(_, _)
                       Add(sg, i) == IF i > Len(f.deps) THEN sg
                                     ELSE Add(sg @@ (f.deps[i].ast.name :> Scheme(DepSigs(f.deps[i]), f.deps[i].ast)), i + 1)
                   IN Add(Sigs, 1)
\* (a callee whose result mentions a type variable that no parameter mentions cannot be called from Go without explicit type arguments: outside the profile)
DepsOK(f) == "deps" \notin DOMAIN f \/ \A i \in 1..Len(f.deps) :
                 /\ DepsOK(f.deps[i])
                 /\ LET p == Principal(Problem(DepSigs(f.deps[i]), f.deps[i].ast)) IN p.ok /\ p.resonly = 0
PrincipalWithDeps(f) == LET p0 == Principal(Problem(DepSigs(f), f.ast)) IN [p0 EXCEPT !.ok = p0.ok /\ DepsOK(f)]
=============================================================================
