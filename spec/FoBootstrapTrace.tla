---------------------------- MODULE FoBootstrapTrace ----------------------------
(* validates the event log of a real bootstrap run (harness: tools/checks/c04.py) against the FoBootstrap machine *)
EXTENDS FoBootstrap, Json
CONSTANTS TraceFile, ListingFile
Trace == ndJsonDeserialize(TraceFile)
Listing == ndJsonDeserialize(ListingFile)       \* one line per listed source: [group, file, hash]
VARIABLES l
tvars == <<built, out, fmted, compared, l>>

MCListed == {<<Listing[i].group, Listing[i].file>> : i \in 1..Len(Listing)}
MCCheckedIn == [lf \in MCListed |-> (CHOOSE i \in 1..Len(Listing) : <<Listing[i].group, Listing[i].file>> = lf) \in 1..Len(Listing)]
HashOf(lf) == Listing[CHOOSE i \in 1..Len(Listing) : <<Listing[i].group, Listing[i].file>> = lf].hash
MCCheckedInH == [lf \in MCListed |-> HashOf(lf)]

ToFn(rows) == [lf \in {<<rows[i].group, rows[i].file>> : i \in 1..Len(rows)} |->
                 rows[CHOOSE i \in 1..Len(rows) : <<rows[i].group, rows[i].file>> = lf].hash]

Ev(t) ==
  CASE t.ev = "build" /\ t.g = 1 -> Build1
    [] t.ev = "build" /\ t.g = 2 -> Build2(ToFn(t.srcs))
    [] t.ev = "transpile" -> Transpile(t.g, <<t.group, t.file>>, t.hash)
    [] t.ev = "fmt"       -> Fmt(t.g, t.group, ToFn(t.hashes))
    [] t.ev = "compare"   -> Compare(t.g, <<t.group, t.file>>)

TraceInit == Init /\ l = 1
TraceNext ==
  /\ l <= Len(Trace) /\ Ev(Trace[l]) /\ l' = l + 1
  /\ IF l = Len(Trace)
     THEN PrintT(<<"BOOT-END", Len(Trace), Differing', Uncovered'>>)
     ELSE TRUE
TraceSpec == TraceInit /\ [][TraceNext]_tvars
\* the whole log was consumed (every event was an enabled action, in order)
Consumed == l = Len(Trace) + 1
=============================================================================
