CONSTANTS
  TraceFile = "ps_trace.ndjson"
SPECIFICATION Spec
CHECK_DEADLOCK FALSE
