CONSTANTS
  TraceFile = "lex_trace.ndjson"
  Deviations <- NoDev
SPECIFICATION Spec
CHECK_DEADLOCK FALSE
