------------------------------- MODULE FoLib -------------------------------
(***************************************************************************)
(* Specification of pkg/strings, pkg/buf and the pkg/frt helpers (C14).    *)
(* A string is a sequence of one-character strings, so that prefix/suffix/ *)
(* split are ordinary sequence operators.  The argument order is the       *)
(* pipeline-friendly one of the Folang declarations (pkg_all.foi): the     *)
(* subject string comes LAST.                                              *)
(***************************************************************************)
EXTENDS Integers, Sequences, FiniteSets, SequencesExt, TLC

---------------------------------------------------------------------------
(* pkg/strings *)
SLength(s) == Len(s)
SIsEmpty(s) == s = <<>>
AppendTail(tail, s) == s \o tail
AppendHead(head, s) == head \o s
EncloseWith(b, e, c) == b \o c \o e
HasPrefix(p, s) == IsPrefix(p, s)
HasSuffix(suf, s) == IsSuffix(suf, s)
TrimSuffix(suf, s) == IF IsSuffix(suf, s) THEN SubSeq(s, 1, Len(s) - Len(suf)) ELSE s

RECURSIVE Join(_, _)
Join(sep, xs) == IF xs = <<>> THEN <<>>
                 ELSE IF Len(xs) = 1 THEN xs[1]
                 ELSE xs[1] \o sep \o Join(sep, Tail(xs))

\* position (1-based) of the first occurrence of sep in s, 0 if none; sep non-empty
FirstAt(sep, s) ==
  LET hits == {i \in 1..(Len(s) - Len(sep) + 1) : SubSeq(s, i, i + Len(sep) - 1) = sep}
  IN IF hits = {} THEN 0 ELSE CHOOSE i \in hits : \A j \in hits : i <= j

\* at most n pieces (n < 0: no limit); Go: n = 0 gives no piece at all
RECURSIVE SplitN(_, _, _)
SplitN(n, sep, s) ==
  IF n = 0 THEN <<>>
  ELSE IF n = 1 THEN <<s>>
  ELSE LET p == FirstAt(sep, s) IN
       IF p = 0 THEN <<s>>
       ELSE <<SubSeq(s, 1, p - 1)>> \o SplitN(n - 1, sep, SubSeq(s, p + Len(sep), Len(s)))
Split(sep, s) == SplitN(0 - 1, sep, s)

---------------------------------------------------------------------------
(* function family shared with SliceLib (unary int functions) *)
ApplyU(f, x) ==
  CASE f = "inc"    -> x + 1
    [] f = "dbl"    -> 2 * x
    [] f = "neg"    -> 0 - x
    [] f = "const7" -> 7

---------------------------------------------------------------------------
(* one recorded call: t.lib, t.op, string arguments t.a t.b t.c, list t.xs, *)
(* integers t.n t.m t.k, boolean t.cond, function name t.f, reply t.ret,   *)
(* thunk/callback log t.log                                                *)
Post(t) ==
  CASE t.lib = "strings" ->
       (CASE t.op = "Concat"      -> t.ret = Join(t.a, t.xs)
          [] t.op = "Length"      -> t.ret = Len(t.a)
          [] t.op = "AppendTail"  -> t.ret = AppendTail(t.a, t.b)
          [] t.op = "AppendHead"  -> t.ret = AppendHead(t.a, t.b)
          [] t.op = "HasSuffix"   -> t.ret = HasSuffix(t.a, t.b)
          [] t.op = "HasPrefix"   -> t.ret = HasPrefix(t.a, t.b)
          [] t.op = "TrimSuffix"  -> t.ret = TrimSuffix(t.a, t.b)
          [] t.op = "EncloseWith" -> t.ret = EncloseWith(t.a, t.b, t.c)
          [] t.op = "Split"       -> t.ret = Split(t.a, t.b)
          [] t.op = "SplitN"      -> t.ret = SplitN(t.n, t.a, t.b)
          [] t.op = "IsEmpty"     -> t.ret = (t.a = <<>>)
          [] t.op = "IsNotEmpty"  -> t.ret = (t.a # <<>>))
    [] t.lib = "buf" ->
       \* two buffers written alternately: each accumulates exactly its own writes, in order
       t.ret = <<FlattenSeq(t.xs), FlattenSeq(Reverse(t.xs))>>
    [] t.lib = "frt" ->
       (CASE t.op = "Pipe"       -> t.ret = ApplyU(t.f, t.n) /\ t.log = <<t.n>>
          [] t.op = "PipeUnit"   -> t.log = <<t.n>>
          [] t.op = "IfElse"     -> t.ret = (IF t.cond THEN t.n ELSE t.m)
                                    /\ t.log = (IF t.cond THEN <<"then">> ELSE <<"else">>)
          [] t.op = "IfElseUnit" -> t.log = (IF t.cond THEN <<"then">> ELSE <<"else">>)
          [] t.op = "IfOnly"     -> t.log = (IF t.cond THEN <<"then">> ELSE <<>>)
          [] t.op = "Fst"        -> t.ret = t.n
          [] t.op = "Snd"        -> t.ret = t.m
          [] t.op = "Destr2"     -> t.ret = <<t.n, t.m>>
          [] t.op = "Destr3"     -> t.ret = <<t.n, t.m, t.k>>
          [] t.op = "OpNot"      -> t.ret = ~t.cond
          [] t.op = "OpAnd"      -> t.ret = (t.cond /\ t.n = 1)
          [] t.op = "Assert"     -> t.ret = (IF t.cond THEN "ok" ELSE "panic")
          [] t.op = "Empty"      -> t.ret = <<0, <<>>, FALSE>>)
    [] t.lib = "fmt" ->
       \* formatting by kind: t.kind, the decimal rendering t.dec (integer kinds), the text t.a (string kind),
       \* Go's own rendering t.ref (verb %f for floats, %v otherwise)
       (CASE t.kind \in {"int", "int8", "int16", "int32", "int64",
                         "uint", "uint8", "uint16", "uint32", "uint64", "uintptr"} -> t.ret = t.dec
          [] t.kind = "string" -> t.ret = t.a
          [] OTHER -> t.ret = t.ref)

=============================================================================
