------------------------------ MODULE FoEqCases ------------------------------
(* checks the equivalence laws on the specification and exports every same-typed pair with the expected verdict *)
EXTENDS FoEq, SequencesExt
CONSTANTS OutFile, Types

Pairs(ty) ==
  LET U == Universe[ty] IN
       {[ty |-> ty, a |-> a, b |-> b, shared |-> "", want |-> StructEq(a, b)] : a \in U, b \in U}
  \cup UNION {{[ty |-> ty, a |-> a, b |-> b, shared |-> h, want |-> StructEq(a, b)] : h \in SharedHow(a, b)} : a \in U, b \in U}

AllPairs == UNION {Pairs(ty) : ty \in Types}

ASSUME \A ty \in Types : EqLaws(Universe[ty])
ASSUME ndJsonSerialize(OutFile, SetToSeq(AllPairs))
ASSUME PrintT(<<"CASES", Cardinality(AllPairs)>>)
VARIABLE x
Init == x = 0
Next == x' = x
=============================================================================
