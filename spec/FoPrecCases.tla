---------------------------- MODULE FoPrecCases ----------------------------
(* checks Machine = Declarative on every enumerated chain and exports the chains with their trees *)
EXTENDS FoPrec, Json, SequencesExt
CONSTANTS N, OutFile

\* 1. every chain of 1..N non-pipe operators between atoms
Plain == {ChainOf(ops) : ops \in OpSeqs(N)}

\* 2. operand variants: applied, parenthesised sub-chain, not, on chains of 1..2 operators
Variants(x) == {x, <<"app", "f", x>>, <<"not", x>>, <<"not", <<"app", "f", x>>>>}
ParenSub == {<<"paren", <<A("x"), op, A("y")>>>> : op \in NonPipeOps}
WithOperands ==
       {<<l, op, r>> : l \in Variants(A("a")), op \in NonPipeOps, r \in Variants(A("b"))}
  \cup {<<l, op1, A("b"), op2, r>> : l \in Variants(A("a")), op1 \in NonPipeOps, op2 \in NonPipeOps, r \in Variants(A("c"))}
  \cup {<<p, op, A("b")>> : p \in ParenSub, op \in NonPipeOps}
  \cup {<<A("a"), op, p>> : p \in ParenSub, op \in NonPipeOps}
  \cup {<<A("a"), op1, p, op2, A("c")>> : p \in ParenSub, op1 \in NonPipeOps, op2 \in NonPipeOps}

\* 3. pipes: the pipe is looser than everything; stages are function names or applications
PipeChains ==
       {<<A("a"), op, A("b"), "|>", A("f")>> : op \in NonPipeOps}
  \cup {<<A("a"), op, A("b"), "|>", A("f"), "|>", A("g")>> : op \in NonPipeOps}
  \cup {<<A("a"), "|>", A("f"), "|>", A("g")>>, <<A("a"), "|>", A("f")>>, <<A("a"), "|>", <<"app", "h", A("b")>>>>,
        <<A("a"), "|>", <<"app", "h", A("b")>>, "|>", A("g")>>,
        <<<<"app", "f", A("a")>>, "|>", A("g")>>, <<<<"paren", <<A("a"), "|>", A("f")>>>>, "+", A("b")>>}
  \cup {<<A("a"), op1, A("b"), op2, A("c"), "|>", A("f")>> : op1 \in NonPipeOps, op2 \in NonPipeOps}

\* 4. terms that extend as far as possible, as the last operand: a one-line if (chain in the else branch, the then branch, the
\*    condition; nested in an else branch; parenthesised in the middle) and a lambda as a pipeline stage
If3(c, t, e) == <<"ifx", c, t, e>>
One(x) == <<A(x)>>
Swallow ==
       {<<A("a"), op1, If3(One("p"), One("b"), <<A("d"), op2, A("e")>>)>> : op1 \in NonPipeOps, op2 \in NonPipeOps}
  \cup {<<A("a"), op1, If3(One("p"), One("b"), <<A("d"), "|>", A("g")>>)>> : op1 \in NonPipeOps}
  \cup {<<A("a"), op1, If3(One("p"), <<A("b"), op2, A("c")>>, One("d"))>> : op1 \in NonPipeOps, op2 \in NonPipeOps}
  \cup {<<If3(<<A("a"), op2, A("b")>>, One("c"), One("d"))>> : op2 \in NonPipeOps}
  \cup {<<A("e"), op1, If3(<<A("a"), op2, A("b")>>, One("c"), One("d"))>> : op1 \in NonPipeOps, op2 \in NonPipeOps}
  \cup {<<If3(One("p"), One("b"), <<If3(One("q"), One("c"), <<A("d"), op2, A("e")>>)>>)>> : op2 \in NonPipeOps}
  \cup {<<<<"paren", <<If3(One("p"), One("b"), One("d"))>>>>, op1, A("e")>> : op1 \in NonPipeOps}
  \cup {<<A("a"), op1, <<"paren", <<If3(One("p"), One("b"), One("d"))>>>>, op2, A("e")>> : op1 \in NonPipeOps, op2 \in NonPipeOps}
  \cup {<<A("a"), op1, A("b"), "|>", <<"lam", "y", <<A("y"), op2, A("c")>>>>>> : op1 \in NonPipeOps, op2 \in NonPipeOps}
  \cup {<<A("a"), "|>", <<"lam", "y", <<A("y"), op2, A("c"), "|>", A("g")>>>>>> : op2 \in NonPipeOps}
  \cup {<<A("a"), "|>", <<"paren", <<<<"lam", "y", <<A("y"), op2, A("c")>>>>>>>>, "|>", A("g")>> : op2 \in NonPipeOps}
  \cup {<<<<"not", A("p")>>, op1, If3(One("q"), One("b"), <<<<"not", A("r")>>, op2, A("e")>>)>> : op1 \in {"&&", "||"}, op2 \in {"&&", "||", "="}}

\* 5. applications with several arguments bind tighter than every operator; an argument that is a chain stands in parentheses
H2(x, y) == <<"appn", "h", <<x, y>>>>
PA(op) == <<"paren", <<A("x"), op, A("y")>>>>
MultiApp ==
       {<<H2(A("a"), A("b")), op, A("c")>> : op \in NonPipeOps}
  \cup {<<A("c"), op, H2(A("a"), A("b"))>> : op \in NonPipeOps}
  \cup {<<A("c"), op1, H2(A("a"), A("b")), op2, A("d")>> : op1 \in NonPipeOps, op2 \in NonPipeOps}
  \cup {<<H2(PA(op1), A("b")), op2, A("c")>> : op1 \in NonPipeOps, op2 \in NonPipeOps}
  \cup {<<H2(A("a"), PA(op1)), op2, A("c")>> : op1 \in NonPipeOps, op2 \in NonPipeOps}
  \cup {<<<<"not", H2(A("a"), A("b"))>>, op, A("c")>> : op \in NonPipeOps}
  \cup {<<H2(A("a"), A("b")), "|>", A("g")>>, <<H2(A("a"), <<"paren", <<A("x"), "|>", A("f")>>>>), "|>", A("g")>>}
  \cup {<<H2(<<"app", "f", A("a")>>, A("b")), op, A("c")>> : op \in {"+", "<"}}

\* 6. tuples and slice literals: every component is a whole chain of its own; as operands of = / <>, as arguments
Ch(x, op, y) == <<A(x), op, A(y)>>
Brackets ==
       {<<<<"tup", <<Ch("a", op1, "b"), Ch("c", op2, "d")>>>>>> : op1 \in NonPipeOps, op2 \in NonPipeOps}
  \cup {<<<<"sl", <<Ch("a", op1, "b"), One("c"), Ch("d", op2, "e")>>>>>> : op1 \in {"+", "*", "-"}, op2 \in {"+", "*", "/"}}
  \cup {<<<<"tup", <<Ch("a", op1, "b"), One("c")>>>>, eq, <<"tup", <<One("d"), Ch("e", op2, "x")>>>>>> : op1 \in {"+", "*"}, op2 \in {"-", "*"}, eq \in {"=", "<>"}}
  \cup {<<<<"sl", <<Ch("a", op1, "b")>>>>, eq, <<"sl", <<Ch("c", op2, "d")>>>>, "&&", A("p")>> : op1 \in {"+", "*"}, op2 \in {"-", "/"}, eq \in {"=", "<>"}}
  \cup {<<<<"tup", <<<<A("a"), "|>", A("f")>>, <<A("b"), op1, A("c"), "|>", A("g")>>>>>>>> : op1 \in {"+", "*"}}
  \cup {<<<<"tup", <<<<<<"paren", Ch("a", op1, "b")>>, op2, A("c")>>, One("d")>>>>>> : op1 \in {"+", "<"}, op2 \in {"*", "&&"}}

Row(c, kind) == [toks |-> c, tree |-> Declarative(c), mtree |-> Machine(c), kind |-> kind]
Rows ==      {Row(c, "plain") : c \in Plain}
        \cup {Row(c, "operand") : c \in WithOperands}
        \cup {Row(c, "pipe") : c \in PipeChains}
        \cup {Row(c, "swallow") : c \in Swallow}
        \cup {Row(c, "multiapp") : c \in MultiApp}
        \cup {Row(c, "brackets") : c \in Brackets}

\* R1: the parser's loop computes the grouping of the published table, on every enumerated chain
ASSUME \A r \in Rows : r.tree = r.mtree
\* ... and fc's term parser reads the token text of every chain as that tree (the minimal parentheses of the text are right)
ASSUME \A r \in Rows : TextParse(r.toks) = r.mtree
ASSUME ndJsonSerialize(OutFile, SetToSeq(Rows))
ASSUME PrintT(<<"CASES", Cardinality(Rows)>>)
VARIABLE x
Init == x = 0
Next == x' = x
=============================================================================
