---------------------------- MODULE FoDriverTrace ----------------------------
(***************************************************************************)
(* Trace validation for C16 / C07: black-box observations of runs of the   *)
(* real fc binary, one run after the other:                                *)
(*   [ev |-> "start", run |-> r, args |-> <<[name, foi], ...>>]            *)
(*   [ev |-> "announce", name |-> f]            a "transpile: f" line      *)
(*   [ev |-> "exit", code, present, diag, bad]                             *)
(*       code: exit status (124 = did not terminate in time);              *)
(*       present: indices of the arguments whose gen file exists           *)
(*                (complete) after the run; diag: something was printed    *)
(*       besides the announcements; bad: "" or "hang" / "fatal" (Go        *)
(*       runtime fatal error) / "partial" (a gen file exists but is not    *)
(*       complete Go)                                                      *)
(* Every event also carries next: the index of the next "start" event      *)
(* (computed by the harness, so that skipping a run is a constant-time     *)
(* step).                                                                  *)
(* The outcome of reading / parsing / writing each file is NOT logged:     *)
(* TLC infers it -- between two events the machine may take any of its     *)
(* silent steps.  A run is accepted when some behaviour of the machine     *)
(* explains all its events; the accepted runs are printed ("ACC", r).      *)
(* SkipRun lets the search continue after a run that nothing explains.     *)
(***************************************************************************)
EXTENDS FoDriver, Json, TLC
CONSTANTS TraceFile
Trace == ndJsonDeserialize(TraceFile)
NoArgs == <<>>
VARIABLES l, run
tvars == <<args, cur, phase, written, announced, diag, code, l, run>>

TraceInit == Init /\ l = 1 /\ run = 0

Silent == (ReadOK \/ ReadFail \/ ParseOK \/ ParseFail \/ WriteOK \/ WriteFail \/ SkipFoi \/ ExitOK) /\ UNCHANGED <<l, run>>

EvStart ==
  /\ l <= Len(Trace) /\ Trace[l].ev = "start"
  /\ args' = Trace[l].args /\ cur' = 1 /\ phase' = "next" /\ written' = {} /\ announced' = <<>> /\ diag' = FALSE /\ code' = -1
  /\ run' = Trace[l].run /\ l' = l + 1

EvAnnounce ==
  /\ l <= Len(Trace) /\ Trace[l].ev = "announce"
  /\ Announce /\ announced'[Len(announced')] = Trace[l].name
  /\ l' = l + 1 /\ UNCHANGED run

EvExit ==
  /\ l <= Len(Trace) /\ Trace[l].ev = "exit"
  /\ LET t == Trace[l] IN
     /\ t.bad = ""                                       \* terminated, no runtime fatal error, no partial file
     /\ code # -1                                        \* the machine has exited too ...
     /\ (code = 0) = (t.code = 0)                        \* ... with the same verdict
     /\ {t.present[i] : i \in 1..Len(t.present)} = written      \* exactly the gen files the machine wrote exist
     /\ (code # 0 => t.diag)                             \* a failure comes with a diagnostic
     /\ PrintT(<<"ACC", run>>)
  /\ l' = l + 1 /\ UNCHANGED <<args, cur, phase, written, announced, diag, code, run>>

SkipRun ==     \* give up on the current run (it will not be reported as accepted along this path)
  /\ l <= Len(Trace) /\ Trace[l].ev # "start"
  /\ l' = Trace[l].next /\ UNCHANGED <<args, cur, phase, written, announced, diag, code, run>>

TraceNext == Silent \/ EvStart \/ EvAnnounce \/ EvExit \/ SkipRun
TraceSpec == TraceInit /\ [][TraceNext]_tvars
=============================================================================
