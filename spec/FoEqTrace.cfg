CONSTANTS
  Deep = FALSE
  TraceFile = "eq_trace.ndjson"
SPECIFICATION Spec
CHECK_DEADLOCK FALSE
