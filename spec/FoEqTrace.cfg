CONSTANTS
  TraceFile = "eq_trace.ndjson"
SPECIFICATION Spec
CHECK_DEADLOCK FALSE
