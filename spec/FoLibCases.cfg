CONSTANTS
  Chars = {"a", "b", ","}
  N = 3
  OutFile = "lib_cases.ndjson"
INIT Init
NEXT Next
