----------------------------- MODULE FoResolverMC -----------------------------
(* The implemented resolver against the declarative unifier, on every order of every small constraint system. *)
EXTENDS FoResolver
CONSTANTS MaxEqs,        \* the small-scope family: all sequences of at most MaxEqs equations x = t  (x in a, b, c)
          AllOrders,     \* explore every alphabetical order of the variable names that occur (else one)
          WithSets,      \* also the hand-written systems (sharing, diamonds, nesting, functions, cycles) in every rotation
          MergeLen       \* the merge family: every sequence of MergeLen equations x = y over five variables, with z = int before or after (0: off)

a == V("a")  b == V("b")  c == V("c")  d == V("d")  e == V("e")
TInt == B("int")  TStr == B("string")
Names == <<"a", "b", "c", "d", "e">>

Sets == << <<<<a, b>>, <<b, c>>, <<c, TInt>>>>,
          <<<<a, <<"slice", b>>>>, <<b, <<"tuple", <<c, TInt>>>>>>, <<c, TStr>>>>,
          <<<<<<"func", <<a, b>>, c>>, <<"func", <<TInt, <<"slice", a>>>>, b>>>>>>,
          <<<<a, <<"tuple", <<b, c>>>>>>, <<a, <<"tuple", <<c, b>>>>>>, <<b, TInt>>>>,
          <<<<a, <<"slice", a>>>>>>,                                              \* occurs check
          <<<<a, <<"func", <<a>>, b>>>>, <<b, TInt>>>>,                            \* x x
          <<<<a, TInt>>, <<a, TStr>>>>,                                            \* clash (accepted silently by the implementation)
          <<<<<<"slice", a>>, <<"slice", <<"slice", b>>>>>>, <<b, c>>, <<d, <<"tuple", <<a, c>>>>>>>>,
          <<<<a, b>>, <<c, d>>, <<<<"tuple", <<a, c>>>>, <<"tuple", <<d, b>>>>>>>>,
          <<<<<<"named", "IOpt", <<a>>>>, <<"named", "IOpt", <<TStr>>>>>>, <<b, <<"named", "IBox", <<a>>>>>>, <<<<"named", "IBox", <<c>>>>, b>>>>,
          <<<<a, <<"slice", b>>>>, <<c, <<"slice", d>>>>, <<a, c>>, <<d, TInt>>>>,
          <<<<a, b>>, <<c, d>>, <<b, d>>, <<a, <<"tuple", <<TInt, TStr>>>>>>>> >>
Rot(s, k) == [i \in 1..Len(s) |-> s[((i + k - 1) % Len(s)) + 1]]
Rev(s) == [i \in 1..Len(s) |-> s[Len(s) + 1 - i]]

\* the small-scope universe (as FoInferSmall without string / IBox)
Atoms == <<a, b, c, TInt>>
NA == Len(Atoms)
Rhs == Atoms
       \o [i \in 1..NA |-> <<"slice", Atoms[i]>>]
       \o [k \in 1..(NA * NA) |-> <<"tuple", <<Atoms[((k - 1) \div NA) + 1], Atoms[((k - 1) % NA) + 1]>>>>]
       \o [i \in 1..NA |-> <<"named", "IOpt", <<Atoms[i]>>>>]
NR == Len(Rhs)
NE == 3 * NR
Eq(k) == <<Atoms[((k - 1) \div NR) + 1], Rhs[((k - 1) % NR) + 1]>>

VARIABLES sys0,     \* the constraint system (one equation per statement)
          sys,      \* the same with the types of finished statements replaced by their resolved form
          bk,        \* the batch being resolved: 1..Len(sys) = statement bk, Len(sys) + 1 = the whole function, Len(sys) + 2 = finished
          nrounds
vars == <<rvars, ord, sys0, sys, bk, nrounds, mvars>>

\* alphabetical orders: every permutation of the first n names (the others keep their place), or the identity
Perms(n) == IF AllOrders THEN {p \in [1..n -> 1..n] : \A i, j \in 1..n : p[i] = p[j] => i = j} ELSE {[i \in 1..n |-> i]}
OrderOf(p, n) == [i \in 1..5 |-> Names[IF i <= n THEN p[i] ELSE i]]
SomeOrders == IF AllOrders THEN {[i \in 1..5 |-> Names[((i + j - 1) % 5) + 1]] : j \in 0..4} \cup {[i \in 1..5 |-> Names[6 - i]]} ELSE {Names}

SetSystems == IF WithSets THEN {Rot(Sets[i], j) : i \in 1..Len(Sets), j \in 0..3} \cup {Rev(Sets[i]) : i \in 1..Len(Sets)} ELSE {}
SmallSystems == UNION {[1..n -> {Eq(j) : j \in 1..NE}] : n \in 1..MaxEqs}
\* merges of classes in every order, a concrete type arriving through one member first or last
Vs == <<a, b, c, d, e>>
UPairSeq == <<<<a, b>>, <<a, c>>, <<a, d>>, <<a, e>>, <<b, c>>, <<b, d>>, <<b, e>>, <<c, d>>, <<c, e>>, <<d, e>>>>
RECURSIVE MDigits(_, _), Pow10(_)
Pow10(n) == IF n = 0 THEN 1 ELSE 10 * Pow10(n - 1)
MDigits(x, n) == IF n = 0 THEN <<>> ELSE <<UPairSeq[(x % 10) + 1]>> \o MDigits(x \div 10, n - 1)
\* system number x: merges = the MergeLen decimal digits of x \div 10, z = ((x % 10) \div 2) + 1, the concrete type first (x even) or last
MergeSys(x) ==
  LET m == MDigits(x \div 10, MergeLen)
      z == ((x % 10) \div 2) + 1
  IN IF x % 2 = 0 THEN <<<<Vs[z], TInt>>>> \o m ELSE m \o <<<<Vs[z], TInt>>>>
NMerge == IF MergeLen = 0 THEN 0 ELSE 10 * Pow10(MergeLen)

Init ==
  /\ \/ sys0 \in SmallSystems /\ \E p \in Perms(3) : ord = OrderOf(p, 3)
     \/ sys0 \in SetSystems /\ \E p \in Perms(4) : ord = OrderOf(p, 4)
     \/ \E x \in 0..(NMerge - 1) : sys0 = MergeSys(x) /\ ord \in SomeOrders
  /\ sys = sys0 /\ bk = 1 /\ nrounds = 0
  /\ RInit(RelsOf(<<sys0[1]>>).rels, RelsOf(<<sys0[1]>>).panic)
  /\ work = {} /\ sub = NoSubst /\ failed = FALSE          \* (the declarative machine of FoInfer is not run here)

\* InferExpr / InferLfd boundary: the finished statement's types are replaced by their resolved form, the next batch is loaded
EndBatch ==
  /\ ~rpanic /\ BatchDone /\ bk <= Len(sys) + 1
  /\ LET nsys == IF bk <= Len(sys)
                  THEN [sys EXCEPT ![bk] = <<Resolve(eid, sys[bk][1], {}), Resolve(eid, sys[bk][2], {})>>]
                  ELSE sys
         bad == bk <= Len(sys) /\ (IsPanic(nsys[bk][1]) \/ IsPanic(nsys[bk][2]))
         nxt == IF bk < Len(sys) THEN RelsOf(<<sys[bk + 1]>>) ELSE IF bk = Len(sys) /\ ~bad THEN RelsOf(nsys) ELSE [rels |-> <<>>, panic |-> FALSE]
     IN /\ sys' = IF bad THEN sys ELSE nsys
        /\ bk' = bk + 1
        /\ round' = nxt.rels
        /\ rpanic' = (bad \/ nxt.panic)
        /\ UNCHANGED <<eid, produced, ord, sys0, nrounds, mvars>>

Next ==
  \/ UpdateResOne /\ UNCHANGED <<ord, sys0, sys, bk, nrounds, mvars>>
  \/ NextRound /\ nrounds' = nrounds + 1 /\ UNCHANGED <<ord, sys0, sys, bk, mvars>>
  \/ EndBatch
Spec == Init /\ [][Next]_vars /\ WF_vars(Next)
RDone == rpanic \/ bk = Len(sys) + 2

Observed == <<a, b, c, d, e>>
Canon(ts) == LET order == Dedup(VarsSeq(ts), {}) IN [i \in 1..Len(ts) |-> Rename(order, ts[i])]

\* a well-typed system never panics, and its resolved types are the principal ones up to renaming of variables
Agrees ==
  RDone =>
    LET u == Unify(sys0, NoSubst) IN
    u.ok => /\ ~rpanic
            /\ LET rs == [i \in 1..5 |-> Resolve(eid, Observed[i], {})] IN
               /\ ~AnyPanic(rs)
               /\ Canon(rs) = Canon([i \in 1..5 |-> Apply(u.s, Observed[i])])
\* an occurs-check failure never resolves silently: it either panics or is reported as an infinite type
\* (a clash of two concrete types IS accepted silently: the Go compiler reports it)
RoundsBounded == nrounds <= 30
Terminates == <>RDone
=============================================================================
