----------------------------- MODULE FoResolverMC -----------------------------
(* The implemented resolver against the declarative unifier, on every order of every small constraint system. *)
EXTENDS FoResolver
CONSTANTS MaxEqs,        \* the small-scope family: all sequences of at most MaxEqs equations x = t  (x in a, b, c)
          AllOrders,     \* explore every alphabetical order of the variable names that occur (else one)
          WithSets,      \* also the hand-written systems (sharing, diamonds, nesting, functions, cycles) in every rotation
          FldEqs,        \* the field-access family: every sequence of at most FldEqs statements over accesses a.F / b.F, witnesses and uses (0: off)
          MergeLen       \* the merge family: every sequence of MergeLen equations x = y over five variables, with z = int before or after (0: off)

\* the record types of the model-checked systems: the user records of FoInfer (IR1, IR3, IBox<T>)
MCRecField(rt, f) == IF rt[2] \notin DOMAIN RecordFields THEN NOREC ELSE IF HasField(rt, f) THEN FieldType(rt, f) ELSE PANIC

a == V("a")  b == V("b")  c == V("c")  d == V("d")  e == V("e")
TInt == B("int")  TStr == B("string")
Names == <<"a", "b", "c", "d", "e">>

Sets == << <<<<a, b>>, <<b, c>>, <<c, TInt>>>>,
          <<<<a, <<"slice", b>>>>, <<b, <<"tuple", <<c, TInt>>>>>>, <<c, TStr>>>>,
          <<<<<<"func", <<a, b>>, c>>, <<"func", <<TInt, <<"slice", a>>>>, b>>>>>>,
          <<<<a, <<"tuple", <<b, c>>>>>>, <<a, <<"tuple", <<c, b>>>>>>, <<b, TInt>>>>,
          <<<<a, <<"slice", a>>>>>>,                                              \* occurs check
          <<<<a, <<"func", <<a>>, b>>>>, <<b, TInt>>>>,                            \* x x
          <<<<a, TInt>>, <<a, TStr>>>>,                                            \* clash (accepted silently by the implementation)
          <<<<<<"slice", a>>, <<"slice", <<"slice", b>>>>>>, <<b, c>>, <<d, <<"tuple", <<a, c>>>>>>>>,
          <<<<a, b>>, <<c, d>>, <<<<"tuple", <<a, c>>>>, <<"tuple", <<d, b>>>>>>>>,
          <<<<<<"named", "IOpt", <<a>>>>, <<"named", "IOpt", <<TStr>>>>>>, <<b, <<"named", "IBox", <<a>>>>>>, <<<<"named", "IBox", <<c>>>>, b>>>>,
          <<<<a, <<"slice", b>>>>, <<c, <<"slice", d>>>>, <<a, c>>, <<d, TInt>>>>,
          <<<<a, b>>, <<c, d>>, <<b, d>>, <<a, <<"tuple", <<TInt, TStr>>>>>>>> >>
Rot(s, k) == [i \in 1..Len(s) |-> s[((i + k - 1) % Len(s)) + 1]]
Rev(s) == [i \in 1..Len(s) |-> s[Len(s) + 1 - i]]

\* the small-scope universe (as FoInferSmall without string / IBox)
Atoms == <<a, b, c, TInt>>
NA == Len(Atoms)
Rhs == Atoms
       \o [i \in 1..NA |-> <<"slice", Atoms[i]>>]
       \o [k \in 1..(NA * NA) |-> <<"tuple", <<Atoms[((k - 1) \div NA) + 1], Atoms[((k - 1) % NA) + 1]>>>>]
       \o [i \in 1..NA |-> <<"named", "IOpt", <<Atoms[i]>>>>]
NR == Len(Rhs)
NE == 3 * NR
Eq(k) == <<Atoms[((k - 1) \div NR) + 1], Rhs[((k - 1) % NR) + 1]>>

VARIABLES obs,      \* the observed types (the parameters) as the passes of InferLfd see them: replaced by their resolved form after each pass
          npass,    \* passes of InferLfd done
          sys0,     \* the constraint system (one equation per statement)
          sys,      \* the same with the types of finished statements replaced by their resolved form
          bk,        \* the batch being resolved: 1..Len(sys) = statement bk, Len(sys) + 1 = the whole function, Len(sys) + 2 = finished
          nrounds
vars == <<rvars, ord, sys0, sys, bk, nrounds, obs, npass, mvars>>

\* alphabetical orders: every permutation of the first n names (the others keep their place), or the identity
Perms(n) == IF AllOrders THEN {p \in [1..n -> 1..n] : \A i, j \in 1..n : p[i] = p[j] => i = j} ELSE {[i \in 1..n |-> i]}
OrderOf(p, n) == [i \in 1..5 |-> Names[IF i <= n THEN p[i] ELSE i]]
SomeOrders == IF AllOrders THEN {[i \in 1..5 |-> Names[((i + j - 1) % 5) + 1]] : j \in 0..4} \cup {[i \in 1..5 |-> Names[6 - i]]} ELSE {Names}

SetSystems == IF WithSets THEN {Rot(Sets[i], j) : i \in 1..Len(Sets), j \in 0..3} \cup {Rev(Sets[i]) : i \in 1..Len(Sets)} ELSE {}
SmallSystems == UNION {[1..n -> {Eq(j) : j \in 1..NE}] : n \in 1..MaxEqs}
\* merges of classes in every order, a concrete type arriving through one member first or last
Vs == <<a, b, c, d, e>>
UPairSeq == <<<<a, b>>, <<a, c>>, <<a, d>>, <<a, e>>, <<b, c>>, <<b, d>>, <<b, e>>, <<c, d>>, <<c, e>>, <<d, e>>>>
RECURSIVE MDigits(_, _), Pow10(_)
Pow10(n) == IF n = 0 THEN 1 ELSE 10 * Pow10(n - 1)
MDigits(x, n) == IF n = 0 THEN <<>> ELSE <<UPairSeq[(x % 10) + 1]>> \o MDigits(x \div 10, n - 1)
\* system number x: merges = the MergeLen decimal digits of x \div 10, z = ((x % 10) \div 2) + 1, the concrete type first (x even) or last
MergeSys(x) ==
  LET m == MDigits(x \div 10, MergeLen)
      z == ((x % 10) \div 2) + 1
  IN IF x % 2 = 0 THEN <<<<Vs[z], TInt>>>> \o m ELSE m \o <<<<Vs[z], TInt>>>>
NMerge == IF MergeLen = 0 THEN 0 ELSE 10 * Pow10(MergeLen)

\* the field-access family: a, b are (to be) records, c a plain value.  Statements as the pairs of types they unify:
\*   use of an accessed field with a concrete type / with c       a.F + 1      [a.Val; c]
\*   fields of a and b meeting in one expression                  [a.F1; b.F2]
\*   witnesses of the record type                                 [a; {A=1; B="s"}]   [a; {C=3; D="d"}]   [a; iwrap c]   [a; {Val=2; Tag="t"}]
\*   merge of the two holders, a concrete type for c              [a; b]    c + 1
Fa(x, f) == <<"fa", x, f>>
FNames == <<"A", "C", "Val">>
FldEqSeq ==
  [i \in 1..6 |-> <<Fa(IF i <= 3 THEN a ELSE b, FNames[((i - 1) % 3) + 1]), TInt>>]
  \o [i \in 1..9 |-> <<Fa(a, FNames[((i - 1) \div 3) + 1]), Fa(b, FNames[((i - 1) % 3) + 1])>>]
  \o [i \in 1..8 |-> <<IF i <= 4 THEN a ELSE b,
                        CASE (i - 1) % 4 = 0 -> <<"named", "IR1", <<>>>> [] (i - 1) % 4 = 1 -> <<"named", "IR3", <<>>>>
                          [] (i - 1) % 4 = 2 -> <<"named", "IBox", <<c>>>> [] OTHER -> <<"named", "IBox", <<TInt>>>>>>]
  \o << <<a, b>>, <<Fa(a, "Val"), c>>, <<Fa(b, "Val"), c>>, <<c, TInt>> >>
  \o << <<a, <<"named", "IBox", <<d>>>>>>, <<b, <<"named", "IBox", <<d>>>>>>, <<d, TInt>>, <<c, d>> >>       \* [a; iwrap d]   d + 1   [c; d]
NF == Len(FldEqSeq)
RECURSIVE FPow(_), FDigits(_, _)
FPow(n) == IF n = 0 THEN 1 ELSE NF * FPow(n - 1)
FDigits(x, n) == IF n = 0 THEN <<>> ELSE <<FldEqSeq[(x % NF) + 1]>> \o FDigits(x \div NF, n - 1)

Observed == <<a, b, c, d, e>>
Init ==
  /\ \/ sys0 \in SmallSystems /\ \E p \in Perms(3) : ord = OrderOf(p, 3)
     \/ sys0 \in SetSystems /\ \E p \in Perms(4) : ord = OrderOf(p, 4)
     \/ \E x \in 0..(NMerge - 1) : sys0 = MergeSys(x) /\ ord \in SomeOrders
     \/ \E n \in 1..FldEqs : \E x \in 0..(FPow(n) - 1) : sys0 = FDigits(x, n) /\ \E p \in Perms(3) : ord = OrderOf(p, 3)
  /\ sys = sys0 /\ bk = 1 /\ nrounds = 0 /\ obs = Observed /\ npass = 0
  /\ RInit(RelsOf(<<sys0[1]>>).rels, RelsOf(<<sys0[1]>>).panic)
  /\ work = {} /\ sub = NoSubst /\ failed = FALSE          \* (the declarative machine of FoInfer is not run here)

\* countUnresLfd: distinct unresolved type variables of the definition (parameters and body)
Unres(s, o) == Cardinality(RVarsSeq(o) \cup UNION {RVars(s[i][1]) \cup RVars(s[i][2]) : i \in 1..Len(s)})
ResolveSys(s) == [i \in 1..Len(s) |-> <<Resolve(eid, s[i][1], {}), Resolve(eid, s[i][2], {})>>]
SysPanic(s) == \E i \in 1..Len(s) : IsPanic(s[i][1]) \/ IsPanic(s[i][2])

\* InferExpr boundary: the finished statement's types are replaced by their resolved form, the next batch is loaded;
\* after the last statement InferLfd takes the relations of the whole definition
EndStmtBatch ==
  /\ ~rpanic /\ BatchDone /\ bk <= Len(sys)
  /\ LET nsys == [sys EXCEPT ![bk] = <<Resolve(eid, sys[bk][1], {}), Resolve(eid, sys[bk][2], {})>>]
         bad == IsPanic(nsys[bk][1]) \/ IsPanic(nsys[bk][2])
         nxt == IF bad THEN [rels |-> <<>>, panic |-> FALSE] ELSE IF bk < Len(sys) THEN RelsOf(<<sys[bk + 1]>>) ELSE RelsOf(nsys)
     IN /\ sys' = IF bad THEN sys ELSE nsys
        /\ bk' = bk + 1
        /\ round' = nxt.rels
        /\ rpanic' = (bad \/ nxt.panic)
        /\ UNCHANGED <<eid, produced, ord, sys0, nrounds, obs, npass, mvars>>

\* a pass of InferLfd is finished: resolveLfd replaces every type of the definition; while that resolves more type variables
\* (a field access became a plain type) the pass is repeated on the replaced definition (fix d9fa44d; at most 10 times)
EndPass ==
  /\ ~rpanic /\ BatchDone /\ bk = Len(sys) + 1
  /\ LET nsys == ResolveSys(sys)
         nobs == [i \in 1..Len(obs) |-> Resolve(eid, obs[i], {})]
         bad == SysPanic(nsys) \/ AnyPanic(nobs)
         again == ~bad /\ "SinglePass" \notin Deviations /\ npass < 10 /\ Unres(nsys, nobs) < Unres(sys, obs)
         nxt == IF again THEN RelsOf(nsys) ELSE [rels |-> <<>>, panic |-> FALSE]
     IN /\ sys' = IF bad THEN sys ELSE nsys
        /\ obs' = IF bad THEN obs ELSE nobs
        /\ bk' = IF again THEN bk ELSE bk + 1
        /\ npass' = npass + 1
        /\ round' = nxt.rels
        /\ rpanic' = (bad \/ nxt.panic)
        /\ UNCHANGED <<eid, produced, ord, sys0, nrounds, mvars>>

Next ==
  \/ UpdateResOne /\ UNCHANGED <<ord, sys0, sys, bk, nrounds, obs, npass, mvars>>
  \/ NextRound /\ nrounds' = nrounds + 1 /\ UNCHANGED <<ord, sys0, sys, bk, obs, npass, mvars>>
  \/ EndStmtBatch
  \/ EndPass
Spec == Init /\ [][Next]_vars /\ WF_vars(Next)
RDone == rpanic \/ bk = Len(sys) + 2

Canon(ts) == LET order == Dedup(VarsSeq(ts), {}) IN [i \in 1..Len(ts) |-> Rename(order, ts[i])]

\* the declarative reading of a system: a field access side is a fresh variable plus a deferred field constraint (FoInfer!Solve)
ElimSide(t, k) == IF t[1] = "fa" THEN [t |-> V("r" \o ToString(k)), c |-> <<<<"fld", t[2], t[3], V("r" \o ToString(k))>>>>] ELSE [t |-> t, c |-> <<>>]
RECURSIVE ElimSys(_, _)
ElimSys(s, k) == IF Len(s) = 0 THEN <<>>
                 ELSE LET l == ElimSide(s[1][1], 2 * k)
                          r == ElimSide(s[1][2], 2 * k + 1)
                      IN <<<<l.t, r.t>>>> \o l.c \o r.c \o ElimSys(Tail(s), k + 1)
RECURSIVE NoFa(_)
NoFa(t) == CASE t[1] = "fa" -> FALSE
             [] t[1] \in {"var", "base", "unit", "panic"} -> TRUE
             [] t[1] = "slice" -> NoFa(t[2])
             [] t[1] = "tuple" -> \A i \in 1..Len(t[2]) : NoFa(t[2][i])
             [] t[1] = "func"  -> (\A i \in 1..Len(t[2]) : NoFa(t[2][i])) /\ NoFa(t[3])
             [] t[1] = "named" -> \A i \in 1..Len(t[3]) : NoFa(t[3][i])

\* a well-typed system never panics, and its resolved types are the principal ones up to renaming of variables
Agrees ==
  RDone =>
    LET u == Solve(ElimSys(sys0, 1)) IN
    u.ok => /\ ~rpanic
            /\ LET rs == [i \in 1..5 |-> Resolve(eid, Observed[i], {})] IN
               /\ ~AnyPanic(rs)
               /\ \A i \in 1..5 : NoFa(rs[i])
               /\ Canon(rs) = Canon([i \in 1..5 |-> Apply(u.s, Observed[i])])
\* (a clash of two concrete types IS accepted silently: the Go compiler reports it)
\* the known finding fa-class-drops-concrete (DESIGN section 6, #19) as a system of the field family: TLC must find Agrees violated from it
\*   [a.Val; c]   [b; iwrap c]   [b; imkint 1]   [a; iwrap c]
FindingSys == << <<Fa(a, "Val"), c>>, <<b, <<"named", "IBox", <<c>>>>>>, <<b, <<"named", "IBox", <<TInt>>>>>>, <<a, <<"named", "IBox", <<c>>>>>> >>
FindingInit ==
  /\ sys0 = FindingSys /\ ord = Names
  /\ sys = sys0 /\ bk = 1 /\ nrounds = 0 /\ obs = Observed /\ npass = 0
  /\ RInit(RelsOf(<<sys0[1]>>).rels, RelsOf(<<sys0[1]>>).panic)
  /\ work = {} /\ sub = NoSubst /\ failed = FALSE
FindingSpec == FindingInit /\ [][Next]_vars

RoundsBounded == nrounds <= 30
Terminates == <>RDone
=============================================================================
