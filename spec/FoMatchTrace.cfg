CONSTANTS
  TraceFile = "match_trace.ndjson"
SPECIFICATION Spec
CHECK_DEADLOCK FALSE
