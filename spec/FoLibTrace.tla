----------------------------- MODULE FoLibTrace -----------------------------
(* validates recorded calls of pkg/strings, pkg/buf and pkg/frt against FoLib!Post; one state per line *)
EXTENDS FoLib, Json
CONSTANTS TraceFile
Trace == ndJsonDeserialize(TraceFile)
VARIABLES l, bad
Init == l = 1 /\ bad = <<>>
Step ==
  /\ l <= Len(Trace)
  /\ LET t == Trace[l]
         ok == IF t.lib = "frt" /\ t.op = "Assert" THEN Post(t) ELSE t.panic = "" /\ Post(t)
     IN bad' = IF ok THEN bad ELSE Append(bad, l)
  /\ l' = l + 1
  /\ IF l = Len(Trace) THEN PrintT(<<"TRACE-END", Len(Trace), bad'>>) ELSE TRUE
Spec == Init /\ [][Step]_<<l, bad>>
=============================================================================
