---------------------------- MODULE FoMatchCases ----------------------------
(* enumerates match configurations, checks checker = declarative on each, exports them *)
EXTENDS FoMatch, Json, SequencesExt
CONSTANTS MaxCases, FullForms, OutFile

Names == <<"Kaa", "Kbb", "Kcc", "Kdd", "Kee">>

Unions == UNION {{[i \in 1..n |-> [n |-> Names[i], p |-> pm[i]]] : pm \in [1..n -> BOOLEAN]} : n \in 1..MaxCases}

\* ordered non-empty subsets of 1..n
OrderedSubsets(n) == UNION {{s \in [1..k -> 1..n] : \A i, j \in 1..k : i # j => s[i] # s[j]} : k \in 1..n}

Forms(hasPayload, n) == IF hasPayload THEN (IF n <= FullForms THEN {"bind", "ignore"} ELSE {"bind"}) ELSE {"none"}

ArmSeqs(u) ==
  UNION {{[i \in 1..Len(s) |-> [c |-> u[s[i]].n, form |-> fm[i]]] :
            fm \in {f \in [1..Len(s) -> {"bind", "ignore", "none"}] : \A i \in 1..Len(s) : f[i] \in Forms(u[s[i]].p, Len(u))}} :
         s \in OrderedSubsets(Len(u))}

\* arms with a REPEATED case: at least as many arms as cases and still a case omitted (counting arms decides nothing); without default
RepeatSeqs(n) == UNION {{s \in [1..k -> 1..n] : {s[i] : i \in 1..k} # 1..n} : k \in n..(n + 1)}
RepeatArmSeqs(u) == {[i \in 1..Len(s) |-> [c |-> u[s[i]].n, form |-> IF u[s[i]].p THEN "ignore" ELSE "none"]] : s \in RepeatSeqs(Len(u))}
RepeatConfigs == UNION {{[cases |-> u, arms |-> a, dflt |-> FALSE] : a \in RepeatArmSeqs(u)} : u \in {v \in Unions : Len(v) \in 2..3}}

Configs == UNION {{[cases |-> u, arms |-> a, dflt |-> d] : a \in ArmSeqs(u), d \in BOOLEAN} : u \in Unions} \cup RepeatConfigs

\* R1: the marking procedure decides the property
ASSUME \A c \in Configs : CheckerAccepts(c.cases, c.arms, c.dflt) = Declarative(c.cases, c.arms, c.dflt)
ASSUME \A c \in Configs : Unmarked(c.cases, c.arms) = Uncovered(c.cases, c.arms)
ASSUME ndJsonSerialize(OutFile, SetToSeq(Configs))
ASSUME PrintT(<<"CASES", Cardinality(Configs)>>)
VARIABLE x
Init == x = 0
Next == x' = x
=============================================================================
