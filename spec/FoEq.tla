-------------------------------- MODULE FoEq --------------------------------
(***************************************************************************)
(* Structural equality of Folang first-order values (C10).                 *)
(*                                                                         *)
(* A value is a tagged tuple:                                              *)
(*   <<"int", n>>  <<"str", s>>  <<"bool", b>>                             *)
(*   <<"tup", <<v1, ..., vk>>>>                                            *)
(*   <<"rec", TypeName, <<field values in declaration order>>>>            *)
(*   <<"uni", UnionName, CaseName, <<>> or <<payload>>>>                   *)
(*   <<"sl", ElemType, HOW, <<elements>>>>                                 *)
(* HOW names the library path that produced a slice (its REPRESENTATION:   *)
(* literal, slice.New, nil from Filter/Map, Take/Skip result, PopLast/Tail *)
(* view with spare capacity or interior pointer, or a view of the OTHER    *)
(* operand's own array).  Equality must not depend on it.                  *)
(* The declared types live in harness/drv_eq/eqtypes.fo and are emitted by *)
(* fc itself, so the Go representation is the transpiler's.                *)
(***************************************************************************)
EXTENDS Integers, Sequences, FiniteSets, TLC, Json
CONSTANT Deep       \* the thorough universe: slices up to length 3

RECURSIVE StructEq(_, _)
StructEq(a, b) ==
  CASE a[1] \in {"int", "str", "bool"} -> a[2] = b[2]
    [] a[1] = "tup" -> \A i \in 1..Len(a[2]) : StructEq(a[2][i], b[2][i])
    [] a[1] = "rec" -> a[2] = b[2] /\ \A i \in 1..Len(a[3]) : StructEq(a[3][i], b[3][i])
    [] a[1] = "uni" -> /\ a[3] = b[3]
                       /\ Len(a[4]) = Len(b[4])
                       /\ \A i \in 1..Len(a[4]) : StructEq(a[4][i], b[4][i])
    [] a[1] = "sl"  -> /\ Len(a[4]) = Len(b[4])
                       /\ \A i \in 1..Len(a[4]) : StructEq(a[4][i], b[4][i])

---------------------------------------------------------------------------
(* the bounded universe, by Folang type *)
I(n) == <<"int", n>>
S(s) == <<"str", s>>
B(b) == <<"bool", b>>
Ints  == {I(0), I(1), I(0 - 1)}
Strs  == {S(""), S("a"), S("b")}
Bools == {B(TRUE), B(FALSE)}

SeqsUpTo(E, n) == UNION {[1..k -> E] : k \in 0..n}

\* representations available for a slice with the given contents
\* frtEmpty (frt.Empty<[]T> ()) and dictValuesEmpty (dict.Values of an empty dict) are nil slices that do NOT come
\* from pkg/slice: = must not depend on pkg/slice's allocation habits
Hows(es) == IF es = <<>> THEN {"lit", "new", "nilFilter", "nilMap", "take0", "skipAll", "popLastToEmpty", "tailToEmpty",
                               "frtEmpty", "dictValuesEmpty", "collectEmpty", "concatEmpty"}
            ELSE {"lit", "pushLast", "take", "skip", "popLast", "tail", "map", "append", "collect", "concat"}
               \cup (IF Len(es) = 1 THEN {"dictValues"} ELSE {})
FewHows(es) == IF es = <<>> THEN {"lit", "nilFilter", "popLastToEmpty", "frtEmpty"} ELSE {"lit", "popLast"}

Sl(et, E, n, H(_)) == UNION {{<<"sl", et, how, es>> : how \in H(es)} : es \in SeqsUpTo(E, n)}

SlLen == IF Deep THEN 3 ELSE 2
IntSlices == Sl("int", {I(0), I(1)}, SlLen, Hows)
IntSlicesFew == Sl("int", {I(0), I(1)}, 2, FewHows)
StrSlices == Sl("string", {S(""), S("a")}, SlLen, Hows)
Tup2s == {<<"tup", <<a, b>>>> : a \in Ints, b \in Strs}
Tup3s == {<<"tup", <<a, b, c>>>> : a \in {I(0), I(1)}, b \in {I(0), I(1)}, c \in Bools}
Pts   == {<<"rec", "Pt", <<x, y>>>> : x \in {I(0), I(1)}, y \in {I(0), I(1)}}
Lrecs == {<<"rec", "lrec", <<n, vs>>>> : n \in {S(""), S("a")}, vs \in IntSlicesFew}
Colors == {<<"uni", "Color", c, <<>>>> : c \in {"Red", "Green"}}
Shapes ==      {<<"uni", "Shape", "Circle", <<r>>>> : r \in {I(0), I(1)}}
          \cup {<<"uni", "Shape", "Rect", <<p>>>> : p \in Pts}
          \cup {<<"uni", "Shape", "Poly", <<s>>>> : s \in IntSlicesFew}
          \cup {<<"uni", "Shape", "Unit0", <<>>>>}
Wraps == {<<"rec", "Wrap", <<i, b>>>> : i \in {I(0), I(1)}, b \in Shapes}
PtSlices == Sl("Pt", {<<"rec", "Pt", <<I(0), I(1)>>>>, <<"rec", "Pt", <<I(1), I(1)>>>>}, SlLen, FewHows)
TupSlices == Sl("tup2", {<<"tup", <<I(0), S("a")>>>>, <<"tup", <<I(1), S("a")>>>>}, SlLen, FewHows)
NestedSlices == Sl("[]int", {<<"sl", "int", "lit", <<>>>>, <<"sl", "int", "nilFilter", <<>>>>, <<"sl", "int", "frtEmpty", <<>>>>,
                             <<"sl", "int", "lit", <<I(1)>>>>, <<"sl", "int", "popLast", <<I(1)>>>>,
                             <<"sl", "int", "lit", <<I(0), I(1)>>>>}, 2, FewHows)
WrapTups == {<<"tup", <<w, s>>>> : w \in {x \in Wraps : x[3][1] = I(0)}, s \in {S("a")}}

Universe == [int |-> Ints, string |-> Strs, bool |-> Bools, tup2 |-> Tup2s, tup3 |-> Tup3s, Pt |-> Pts,
             lrec |-> Lrecs, Color |-> Colors, Shape |-> Shapes, Wrap |-> Wraps, ints |-> IntSlices,
             strings |-> StrSlices, pts |-> PtSlices, tups |-> TupSlices, nested |-> NestedSlices, wraptup |-> WrapTups]

TypeNames == DOMAIN Universe

---------------------------------------------------------------------------
(* R1: StructEq is an equivalence on every type of the universe and does not see representations *)
Content(v) ==   \* the value with every representation tag erased
  LET RECURSIVE C(_)
      C(x) == CASE x[1] \in {"int", "str", "bool"} -> x
                [] x[1] = "tup" -> <<"tup", [i \in 1..Len(x[2]) |-> C(x[2][i])]>>
                [] x[1] = "rec" -> <<"rec", x[2], [i \in 1..Len(x[3]) |-> C(x[3][i])]>>
                [] x[1] = "uni" -> <<"uni", x[2], x[3], [i \in 1..Len(x[4]) |-> C(x[4][i])]>>
                [] x[1] = "sl"  -> <<"sl", x[2], "", [i \in 1..Len(x[4]) |-> C(x[4][i])]>>
  IN C(v)

EqLaws(U) ==
  /\ \A a \in U : StructEq(a, a)
  /\ \A a, b \in U : StructEq(a, b) = StructEq(b, a)
  /\ \A a, b \in U : StructEq(a, b) = (Content(a) = Content(b))     \* hence transitive, representation independent

\* extra operand for slice pairs: b rebuilt as a VIEW OF a's own array when its contents are a prefix / suffix of a's
SharedHow(a, b) ==
  IF a[1] = "sl" /\ Len(b[4]) < Len(a[4]) /\ Len(a[4]) > 0
  THEN (IF \A i \in 1..Len(b[4]) : Content(b[4][i]) = Content(a[4][i]) THEN {"prefixOfA"} ELSE {})
       \cup (IF \A i \in 1..Len(b[4]) : Content(b[4][i]) = Content(a[4][Len(a[4]) - Len(b[4]) + i]) THEN {"suffixOfA"} ELSE {})
  ELSE {}
=============================================================================
