--------------------------- MODULE FoLiteralCases ---------------------------
(* every legal literal of <= L segments over the critical segment alphabet: pipeline = denotation; export *)
EXTENDS FoLiteral, Json, SequencesExt
CONSTANTS L, OutFile

Critical == {"a", "sp", "pct", "bsl", "dq", "bt", "lb", "rb", "nl", "tab", "c233", "n", "s"}
Segs ==      {<<"ch", c>> : c \in Critical}
        \cup {<<"esc", e>> : e \in {"n", "t", "bsl", "dq"}}
        \cup {<<"bres", b>> : b \in {"lb", "rb"}}
        \cup {<<"hole", v>> : v \in {"x", "y"}}

Lits == UNION {{[form |-> f, segs |-> s] : s \in {q \in [1..k -> Segs] : LegalLit(f, q)}} : f \in Forms, k \in 0..L}

\* R1
ASSUME \A l \in Lits : Pipeline(l.form, Source(l.segs), Env) = Denote(l.segs, Env)
ASSUME ndJsonSerialize(OutFile, SetToSeq(Lits))
ASSUME PrintT(<<"CASES", Cardinality(Lits)>>)
VARIABLE x
Init == x = 0
Next == x' = x
=============================================================================
