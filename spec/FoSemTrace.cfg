CONSTANTS
  ProgFile = "sem_progs.ndjson"
  TraceFile = "sem_trace.ndjson"
SPECIFICATION Spec
CHECK_DEADLOCK FALSE
