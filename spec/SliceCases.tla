----------------------------- MODULE SliceCases -----------------------------
(***************************************************************************)
(* Enumerates the call table of C13: every function of pkg/slice on every  *)
(* sequence over E of length <= N, every index/count in its domain and     *)
(* every function argument of the family.  TLC evaluates this at constant  *)
(* level and writes the table as NDJSON; the Go driver performs the calls  *)
(* on the real package and SliceLibTrace validates what it recorded.       *)
(***************************************************************************)
EXTENDS SliceLib, Json

CONSTANTS E, N, OutFile

S  == SmallSeqs(E, N)
S2 == SmallSeqs(E, 2)

C(op, s, s2, ss, n, e, f, acc) ==
  [op |-> op, s |-> s, s2 |-> s2, ss |-> ss, n |-> n, e |-> e, f |-> f, acc |-> acc]

U(op, s)       == C(op, s, <<>>, <<>>, 0, 0, "", 0)
WithN(op, s, n) == C(op, s, <<>>, <<>>, n, 0, "", 0)
WithE(op, s, e) == C(op, s, <<>>, <<>>, 0, e, "", 0)
WithF(op, s, f) == C(op, s, <<>>, <<>>, 0, 0, f, 0)

Cases ==
       {U(op, s) : op \in {"Length", "Len", "IsEmpty", "IsNotEmpty", "Sort", "Distinct", "Iter"}, s \in S}
  \cup {U(op, s) : op \in {"Head", "Last", "Tail", "PopLast"}, s \in S \ {<<>>}}
  \cup {U("New", <<>>)}
  \cup UNION {{WithN("Item", s, n) : n \in 0..(Len(s) - 1)} : s \in S}
  \cup UNION {{WithN("Take", s, n) : n \in 0..Len(s)} : s \in S}
  \cup UNION {{WithN("Skip", s, n) : n \in 0..(Len(s) + 1)} : s \in S}
  \cup {WithE(op, s, e) : op \in {"PushLast", "PushHead"}, s \in S, e \in E}
  \cup {C("Append", s, s2, <<>>, 0, 0, "", 0) : s \in S, s2 \in S2}
  \cup {C("Zip", s, s2, <<>>, 0, 0, "", 0) : s \in S2, s2 \in {t \in S2 : TRUE}} 
  \cup {C("Concat", <<>>, <<>>, ss, 0, 0, "", 0) : ss \in SmallSeqs(S2, 2)}
  \cup {C("Concat", <<>>, <<>>, <<s, s2, s>>, 0, 0, "", 0) : s \in S2, s2 \in S2}
  \cup {WithF("Map", s, f) : s \in S, f \in UnaryFns}
  \cup {WithF("Mapi", s, f) : s \in S, f \in IdxFns}
  \cup {WithF(op, s, f) : op \in {"Filter", "Forall", "Forany", "TryFind"}, s \in S, f \in PredFns}
  \cup {WithF("Collect", s, f) : s \in S, f \in ListFns}
  \cup {WithF("SortBy", s, f) : s \in S, f \in ProjFns}
  \cup {C("Fold", s, <<>>, <<>>, 0, 0, f, acc) : s \in S, f \in FoldFns, acc \in {0, 1}}

DomCases == {c \in Cases : InDomain(c)}

ASSUME LibSanity(E, IF N > 3 THEN 3 ELSE N)
ASSUME ndJsonSerialize(OutFile, SetToSeq(DomCases))
ASSUME PrintT(<<"CASES", Cardinality(DomCases)>>)

VARIABLE x
Init == x = 0
Next == x' = x
=============================================================================
