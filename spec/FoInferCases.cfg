CONSTANTS
  FnFile = "inf_fns.ndjson"
  OutFile = "inf_principal.ndjson"
INIT Init
NEXT Next
