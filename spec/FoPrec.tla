------------------------------- MODULE FoPrec -------------------------------
(***************************************************************************)
(* Binary operator grouping (C08).                                         *)
(*                                                                         *)
(* An expression is a sequence of tokens                                   *)
(*      operand op operand op ... operand                                  *)
(* where an operand is an atom <<"atom", x>>, an application              *)
(* <<"app", f, operand>> / <<"appn", f, <<operands>>>> (several arguments), a *)
(* parenthesised chain <<"paren", tokens>>, a tuple <<"tup", <<chains>>>> or *)
(* slice literal <<"sl", <<chains>>>> (every component a whole chain), or   *)
(* <<"not", operand>>, or - as                                             *)
(* the LAST operand of its chain only - one of the terms that extend as    *)
(* far as possible: a lambda <<"lam", x, body tokens>> (fun x -> body) or  *)
(* a one-line conditional <<"ifx", cond tokens, then tokens, else tokens>>.*)
(* Their body / else branch takes every operator that follows, whatever    *)
(* its rank:  a * if p then b else c + d  is  a * (if p then b else (c+d)),*)
(* x |> fun y -> y + 1 |> g  is  x |> (fun y -> ((y + 1) |> g)).           *)
(* Anywhere else they are written in parentheses.  Part 3 is fc's term     *)
(* parser over the FLAT token text; TLC checks that it reads every         *)
(* enumerated chain as Machine / Declarative do.                           *)
(*                                                                         *)
(* Two definitions of the tree such a chain denotes:                       *)
(*   Machine     -- the precedence-climbing loop of fc's parser            *)
(*                  (parseExprWithPrec / parseBinAfter: parse a term; while *)
(*                  the next token is an operator of rank >= minPrec,      *)
(*                  parse the right operand with minPrec = rank + 1, fold) *)
(*   Declarative -- the published table: the root is the RIGHTMOST         *)
(*                  operator of the LOWEST rank (so tighter operators bind *)
(*                  first and equal ranks associate to the left)           *)
(* TLC checks Machine = Declarative for every chain it enumerates, and     *)
(* FoPrecTrace validates the trees recovered from the Go that fc emits.    *)
(***************************************************************************)
EXTENDS Integers, Sequences, FiniteSets, TLC

\* the published table, loosest first
Rank(op) ==
  CASE op = "|>" -> 1
    [] op \in {"&&", "||", "<", ">", "<=", ">="} -> 2
    [] op \in {"=", "<>"} -> 3
    [] op \in {"+", "-"} -> 4
    [] op \in {"*", "/"} -> 5

NonPipeOps == {"&&", "||", "<", ">", "<=", ">=", "=", "<>", "+", "-", "*", "/"}
AllOps == NonPipeOps \cup {"|>"}

\* tokens at odd positions are operands (tagged tuples), tokens at even positions are operators (strings)
IsOpAt(toks, pos) == pos <= Len(toks) /\ pos % 2 = 0
A(x) == <<"atom", x>>

Bin(op, l, r) == <<"bin", op, l, r>>

---------------------------------------------------------------------------
(* the machine *)
RECURSIVE ParseE(_, _, _), BinAfter(_, _, _, _), TermTree(_)

\* an operand's own tree
TermTree(t) ==
       CASE t[1] = "atom"  -> t
         [] t[1] = "app"   -> <<"app", t[2], TermTree(t[3])>>
         [] t[1] = "not"   -> <<"not", TermTree(t[2])>>
         [] t[1] = "paren" -> ParseE(t[2], 1, 1)[1]        \* parentheses only group
         [] t[1] = "appn"  -> <<"appn", t[2], [i \in 1..Len(t[3]) |-> TermTree(t[3][i])]>>      \* h x y: arguments are atoms or ( chains )
         [] t[1] = "tup"   -> <<"tup", [i \in 1..Len(t[2]) |-> ParseE(t[2][i], 1, 1)[1]]>>      \* (c1, c2): every component a whole chain
         [] t[1] = "sl"    -> <<"sl", [i \in 1..Len(t[2]) |-> ParseE(t[2][i], 1, 1)[1]]>>       \* [c1; c2]
         [] t[1] = "lam"   -> <<"lam", t[2], ParseE(t[3], 1, 1)[1]>>
         [] t[1] = "ifx"   -> <<"if", ParseE(t[2], 1, 1)[1], ParseE(t[3], 1, 1)[1], ParseE(t[4], 1, 1)[1]>>

\* returns <<tree, next position>>
ParseE(toks, pos, minPrec) ==
  LET term == TermTree(toks[pos]) IN
  IF IsOpAt(toks, pos + 1)
  THEN BinAfter(toks, pos + 1, minPrec, term)
  ELSE <<term, pos + 1>>

BinAfter(toks, pos, minPrec, cur) ==
  IF IsOpAt(toks, pos)
  THEN LET r == Rank(toks[pos]) IN
       IF r < minPrec THEN <<cur, pos>>
       ELSE LET rhs == ParseE(toks, pos + 1, r + 1)
            IN BinAfter(toks, rhs[2], minPrec, Bin(toks[pos], cur, rhs[1]))
  ELSE <<cur, pos>>

Machine(toks) == ParseE(toks, 1, 1)[1]

---------------------------------------------------------------------------
(* the declarative grouping *)
RECURSIVE Declarative(_), DeclTerm(_)

DeclTerm(t) ==
       CASE t[1] = "atom"  -> t
         [] t[1] = "app"   -> <<"app", t[2], DeclTerm(t[3])>>
         [] t[1] = "not"   -> <<"not", DeclTerm(t[2])>>
         [] t[1] = "paren" -> Declarative(t[2])
         [] t[1] = "appn"  -> <<"appn", t[2], [i \in 1..Len(t[3]) |-> DeclTerm(t[3][i])]>>
         [] t[1] = "tup"   -> <<"tup", [i \in 1..Len(t[2]) |-> Declarative(t[2][i])]>>
         [] t[1] = "sl"    -> <<"sl", [i \in 1..Len(t[2]) |-> Declarative(t[2][i])]>>
         [] t[1] = "lam"   -> <<"lam", t[2], Declarative(t[3])>>
         [] t[1] = "ifx"   -> <<"if", Declarative(t[2]), Declarative(t[3]), Declarative(t[4])>>

Declarative(toks) ==
  IF Len(toks) = 1 THEN DeclTerm(toks[1])
  ELSE LET opPos == {i \in 1..Len(toks) : i % 2 = 0}
           minRank == CHOOSE r \in {Rank(toks[i]) : i \in opPos} : \A i \in opPos : r <= Rank(toks[i])
           root == CHOOSE i \in opPos : Rank(toks[i]) = minRank /\ \A j \in opPos : Rank(toks[j]) = minRank => j <= i
       IN Bin(toks[root], Declarative(SubSeq(toks, 1, root - 1)), Declarative(SubSeq(toks, root + 1, Len(toks))))

---------------------------------------------------------------------------
(* Part 3: the text and fc's term parser over it.  Flat(toks) is the token text of a chain (what the harness writes);       *)
(* FExpr is parseExprWithPrec / parseTerm / parseAtom over that text: a term is `not` TERM, `fun` x `->` EXPR, `if` EXPR      *)
(* `then` EXPR `else` EXPR, or one or more atoms (a name applied to atoms); an atom is a name or ( EXPR ).                    *)
Keywords == {"not", "fun", "->", "if", "then", "else", "(", ")", ",", ";", "[", "]"}
RECURSIVE Flat(_), FlatOperand(_), FlatArgs(_), FlatList(_, _)
FlatList(cs, sep) == IF Len(cs) = 1 THEN Flat(cs[1]) ELSE Flat(cs[1]) \o <<sep>> \o FlatList(Tail(cs), sep)
\* an argument is an atom or stands in parentheses
FlatArg(t) == IF t[1] \in {"atom", "paren", "tup", "sl"} THEN FlatOperand(t) ELSE <<"(">> \o FlatOperand(t) \o <<")">>
FlatArgs(as) == IF as = <<>> THEN <<>> ELSE FlatArg(as[1]) \o FlatArgs(Tail(as))
FlatOperand(t) ==
  CASE t[1] = "atom"  -> <<t[2]>>
    [] t[1] = "app"   -> <<t[2]>> \o (IF t[3][1] = "atom" THEN <<t[3][2]>> ELSE <<"(">> \o FlatOperand(t[3]) \o <<")">>)
    [] t[1] = "not"   -> <<"not">> \o FlatOperand(t[2])
    [] t[1] = "paren" -> <<"(">> \o Flat(t[2]) \o <<")">>
    [] t[1] = "appn"  -> <<t[2]>> \o FlatArgs(t[3])
    [] t[1] = "tup"   -> <<"(">> \o FlatList(t[2], ",") \o <<")">>
    [] t[1] = "sl"    -> <<"[">> \o FlatList(t[2], ";") \o <<"]">>
    [] t[1] = "lam"   -> <<"fun", t[2], "->">> \o Flat(t[3])
    [] t[1] = "ifx"   -> <<"if">> \o Flat(t[2]) \o <<"then">> \o Flat(t[3]) \o <<"else">> \o Flat(t[4])
Flat(toks) == IF toks = <<>> THEN <<>>
              ELSE (IF Len(toks) % 2 = 1 THEN Flat(SubSeq(toks, 1, Len(toks) - 1)) \o FlatOperand(toks[Len(toks)])
                    ELSE Flat(SubSeq(toks, 1, Len(toks) - 1)) \o <<toks[Len(toks)]>>)

StartsAtom(ts, p) == p <= Len(ts) /\ ts[p] \notin AllOps /\ (ts[p] \notin Keywords \/ ts[p] \in {"(", "["})
RECURSIVE FExpr(_, _, _), FBinAfter(_, _, _, _), FTerm(_, _), FAtom(_, _), FArgs(_, _), FElems(_, _, _)
\* EXPR (sep EXPR)* up to the closing bracket: <<trees, position of the closing bracket>>
FElems(ts, p, sep) == LET e == FExpr(ts, p, 1) IN
                      IF ts[e[2]] = sep THEN LET r == FElems(ts, e[2] + 1, sep) IN <<<<e[1]>> \o r[1], r[2]>>
                      ELSE <<<<e[1]>>, e[2]>>
FAtom(ts, p) == IF ts[p] = "(" THEN LET es == FElems(ts, p + 1, ",") IN                      \* ( EXPR ) or a tuple ( EXPR , EXPR .. )
                                    IF Len(es[1]) = 1 THEN <<es[1][1], es[2] + 1>> ELSE <<<<"tup", es[1]>>, es[2] + 1>>
                ELSE IF ts[p] = "[" THEN LET es == FElems(ts, p + 1, ";") IN <<<<"sl", es[1]>>, es[2] + 1>>    \* [ EXPR ; EXPR .. ]
                ELSE <<A(ts[p]), p + 1>>
FArgs(ts, p) == IF StartsAtom(ts, p) THEN LET a == FAtom(ts, p)
                                               r == FArgs(ts, a[2]) IN <<<<a[1]>> \o r[1], r[2]>>
                ELSE <<<<>>, p>>
FTerm(ts, p) ==
  CASE ts[p] = "not" -> LET r == FTerm(ts, p + 1) IN <<<<"not", r[1]>>, r[2]>>
    [] ts[p] = "fun" -> LET b == FExpr(ts, p + 3, 1) IN <<<<"lam", ts[p + 1], b[1]>>, b[2]>>          \* the body: a whole expression
    [] ts[p] = "if"  -> LET c == FExpr(ts, p + 1, 1)
                            t == FExpr(ts, c[2] + 1, 1)
                            e == FExpr(ts, t[2] + 1, 1)                                                \* the else branch: a whole expression
                        IN <<<<"if", c[1], t[1], e[1]>>, e[2]>>
    [] OTHER -> LET h == FAtom(ts, p)
                    as == FArgs(ts, h[2])
                IN IF as[1] = <<>> THEN h
                   ELSE IF Len(as[1]) = 1 THEN <<<<"app", h[1][2], as[1][1]>>, as[2]>>
                   ELSE <<<<"appn", h[1][2], as[1]>>, as[2]>>
FExpr(ts, p, minPrec) == LET t == FTerm(ts, p) IN FBinAfter(ts, t[2], minPrec, t[1])
FBinAfter(ts, p, minPrec, cur) ==
  IF p <= Len(ts) /\ ts[p] \in AllOps
  THEN LET r == Rank(ts[p]) IN
       IF r < minPrec THEN <<cur, p>>
       ELSE LET rhs == FExpr(ts, p + 1, r + 1)
            IN FBinAfter(ts, rhs[2], minPrec, Bin(ts[p], cur, rhs[1]))
  ELSE <<cur, p>>
TextParse(toks) == FExpr(Flat(toks), 1, 1)[1]

---------------------------------------------------------------------------
(* chains: operands named a, b, c, ... in order *)
Names == <<"a", "b", "c", "d", "e", "g", "h">>
ChainOf(ops) == [i \in 1..(2 * Len(ops) + 1) |-> IF i % 2 = 1 THEN A(Names[(i + 1) \div 2]) ELSE ops[i \div 2]]
OpSeqs(n) == UNION {[1..k -> NonPipeOps] : k \in 1..n}
=============================================================================
