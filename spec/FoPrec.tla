------------------------------- MODULE FoPrec -------------------------------
(***************************************************************************)
(* Binary operator grouping (C08).                                         *)
(*                                                                         *)
(* An expression is a sequence of tokens                                   *)
(*      operand op operand op ... operand                                  *)
(* where an operand is an atom <<"atom", x>>, an application              *)
(* <<"app", f, operand>>, a                                                *)
(* parenthesised chain <<"paren", tokens>> or <<"not", operand>>.          *)
(*                                                                         *)
(* Two definitions of the tree such a chain denotes:                       *)
(*   Machine     -- the precedence-climbing loop of fc's parser            *)
(*                  (parseExprWithPrec / parseBinAfter: parse a term; while *)
(*                  the next token is an operator of rank >= minPrec,      *)
(*                  parse the right operand with minPrec = rank + 1, fold) *)
(*   Declarative -- the published table: the root is the RIGHTMOST         *)
(*                  operator of the LOWEST rank (so tighter operators bind *)
(*                  first and equal ranks associate to the left)           *)
(* TLC checks Machine = Declarative for every chain it enumerates, and     *)
(* FoPrecTrace validates the trees recovered from the Go that fc emits.    *)
(***************************************************************************)
EXTENDS Integers, Sequences, FiniteSets, TLC

\* the published table, loosest first
Rank(op) ==
  CASE op = "|>" -> 1
    [] op \in {"&&", "||", "<", ">", "<=", ">="} -> 2
    [] op \in {"=", "<>"} -> 3
    [] op \in {"+", "-"} -> 4
    [] op \in {"*", "/"} -> 5

NonPipeOps == {"&&", "||", "<", ">", "<=", ">=", "=", "<>", "+", "-", "*", "/"}
AllOps == NonPipeOps \cup {"|>"}

\* tokens at odd positions are operands (tagged tuples), tokens at even positions are operators (strings)
IsOpAt(toks, pos) == pos <= Len(toks) /\ pos % 2 = 0
A(x) == <<"atom", x>>

Bin(op, l, r) == <<"bin", op, l, r>>

---------------------------------------------------------------------------
(* the machine *)
RECURSIVE ParseE(_, _, _), BinAfter(_, _, _, _), TermTree(_)

\* an operand's own tree
TermTree(t) ==
       CASE t[1] = "atom"  -> t
         [] t[1] = "app"   -> <<"app", t[2], TermTree(t[3])>>
         [] t[1] = "not"   -> <<"not", TermTree(t[2])>>
         [] t[1] = "paren" -> ParseE(t[2], 1, 1)[1]        \* parentheses only group

\* returns <<tree, next position>>
ParseE(toks, pos, minPrec) ==
  LET term == TermTree(toks[pos]) IN
  IF IsOpAt(toks, pos + 1)
  THEN BinAfter(toks, pos + 1, minPrec, term)
  ELSE <<term, pos + 1>>

BinAfter(toks, pos, minPrec, cur) ==
  IF IsOpAt(toks, pos)
  THEN LET r == Rank(toks[pos]) IN
       IF r < minPrec THEN <<cur, pos>>
       ELSE LET rhs == ParseE(toks, pos + 1, r + 1)
            IN BinAfter(toks, rhs[2], minPrec, Bin(toks[pos], cur, rhs[1]))
  ELSE <<cur, pos>>

Machine(toks) == ParseE(toks, 1, 1)[1]

---------------------------------------------------------------------------
(* the declarative grouping *)
RECURSIVE Declarative(_), DeclTerm(_)

DeclTerm(t) ==
       CASE t[1] = "atom"  -> t
         [] t[1] = "app"   -> <<"app", t[2], DeclTerm(t[3])>>
         [] t[1] = "not"   -> <<"not", DeclTerm(t[2])>>
         [] t[1] = "paren" -> Declarative(t[2])

Declarative(toks) ==
  IF Len(toks) = 1 THEN DeclTerm(toks[1])
  ELSE LET opPos == {i \in 1..Len(toks) : i % 2 = 0}
           minRank == CHOOSE r \in {Rank(toks[i]) : i \in opPos} : \A i \in opPos : r <= Rank(toks[i])
           root == CHOOSE i \in opPos : Rank(toks[i]) = minRank /\ \A j \in opPos : Rank(toks[j]) = minRank => j <= i
       IN Bin(toks[root], Declarative(SubSeq(toks, 1, root - 1)), Declarative(SubSeq(toks, root + 1, Len(toks))))

---------------------------------------------------------------------------
(* chains: operands named a, b, c, ... in order *)
Names == <<"a", "b", "c", "d", "e", "g", "h">>
ChainOf(ops) == [i \in 1..(2 * Len(ops) + 1) |-> IF i % 2 = 1 THEN A(Names[(i + 1) \div 2]) ELSE ops[i \div 2]]
OpSeqs(n) == UNION {[1..k -> NonPipeOps] : k \in 1..n}
=============================================================================
