CONSTANTS
  E = {1, 2, 3}
  N = 3
  OutFile = "slice_cases.ndjson"
INIT Init
NEXT Next
