CONSTANTS
  Keys = {"a", "b", "c"}
  Vals = {1, 2}
  ND = 2
  MaxSteps = 100000
  MaxPairs = 3
  TraceFile = "dict_trace.ndjson"
SPECIFICATION TraceSpec
INVARIANTS TypeOK
CHECK_DEADLOCK FALSE
