CONSTANTS
  Depth2 = TRUE
  Full2 = FALSE
  OutFile = "type_cases.ndjson"
INIT Init
NEXT Next
