CONSTANTS
  Depth2 = TRUE
  OutFile = "type_cases.ndjson"
INIT Init
NEXT Next
