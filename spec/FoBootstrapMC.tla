----------------------------- MODULE FoBootstrapMC -----------------------------
(* the bootstrap machine on a tiny abstract repository: 2 compiler files, 1 sample, hashes {"same", "diff"} *)
EXTENDS FoBootstrap
MCListed == {<<"fc", "a">>, <<"fc", "b">>, <<"samples", "s">>}
MCCheckedIn == [lf \in MCListed |-> "same"]
Hashes == {"same", "diff"}
Next ==
  \/ Build1
  \/ \E srcs \in [FcFiles -> Hashes] : Build2(srcs) /\ (\A lf \in FcFiles : srcs[lf] = out[1][lf])   \* the harness builds from out[1]
  \/ \E g \in Gens, lf \in Listed, h \in Hashes : Transpile(g, lf, h)
  \/ \E g \in Gens, grp \in {"fc", "samples"} :
       \E hs \in [{lf \in DOMAIN out[g] : lf[1] = grp} -> Hashes] : Fmt(g, grp, hs)
  \/ \E g \in Gens, lf \in Listed : Compare(g, lf)
Spec == Init /\ [][Next]_vars
\* a complete, all-equal run certifies the fixed point for both generations, and generation 2 really descends from out[1]
Certified == (Done /\ FixedPoint) => \A g \in Gens : \A lf \in Listed : out[g][lf] = CheckedIn[lf]
CompareAfterFmt == \A g \in Gens : \A lf \in DOMAIN compared[g] : lf[1] \in fmted[g]
=============================================================================
