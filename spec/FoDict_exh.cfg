CONSTANTS
  Keys = {"a", "b"}
  Vals = {1, 2}
  ND = 1
  MaxSteps = 3
  MaxPairs = 1
SPECIFICATION Spec
INVARIANTS TypeOK ExportHist
CHECK_DEADLOCK FALSE
