--------------------------- MODULE FoSampleMdProof ---------------------------
(***************************************************************************)
(* Unbounded safety of the build_sample_md machine (C18), by an inductive  *)
(* invariant checked with the TLA+ proof system: for EVERY list file and   *)
(* file system, a written README has one section per entry in list order,  *)
(* a failed run leaves README.md as it was, and the run fails exactly when *)
(* some listed file cannot be read.  The entry list of the scenario is     *)
(* kept opaque (Entries is never expanded): only its length matters.       *)
(***************************************************************************)
EXTENDS FoSampleMd, TLAPS

Es == Entries(sc.lines)
Old == IF sc.old = "absent" THEN <<"absent">> ELSE <<"old", sc.old>>

IndInv ==
  /\ Len(Es) \in Nat
  /\ status \in {"run", "ok", "failed"}
  /\ cur \in 1..(Len(Es) + 1)
  /\ Len(secs) = cur - 1
  /\ \A i \in 1..(cur - 1) : secs[i] = Section(Es[i], sc.fs, sc.bases) /\ Readable(Es[i], sc.fs)
  /\ (status = "run") => readme = Old
  /\ (status = "ok") => readme = <<"written", secs>> /\ cur = Len(Es) + 1
  /\ (status = "failed") => readme = Old /\ cur <= Len(Es) /\ ~Readable(Es[cur], sc.fs)

TypedInit(s) == InitWith(s) /\ Len(Entries(s.lines)) \in Nat

LEMMA InitInd == \A s : TypedInit(s) => IndInv
  BY DEF TypedInit, InitWith, IndInv, Es, Old

LEMMA NextInd == IndInv /\ [Next]_vars => IndInv'
<1> SUFFICES ASSUME IndInv, [Next]_vars PROVE IndInv'
  OBVIOUS
<1>1. CASE ConvOne
  BY <1>1 DEF ConvOne, IndInv, Es, Old
<1>2. CASE FailOne
  BY <1>2 DEF FailOne, IndInv, Es, Old
<1>3. CASE WriteReadme
  BY <1>3 DEF WriteReadme, IndInv, Es, Old
<1>4. CASE UNCHANGED vars
  BY <1>4 DEF vars, IndInv, Es, Old
<1> QED BY <1>1, <1>2, <1>3, <1>4 DEF Next

LEMMA IndImplies == IndInv => Complete /\ NoPartial /\ FailsIffUnreadable
  BY DEF IndInv, Complete, NoPartial, FailsIffUnreadable, Es, Old

THEOREM Safety == ASSUME NEW s PROVE TypedInit(s) /\ [][Next]_vars => [](Complete /\ NoPartial /\ FailsIffUnreadable)
<1>0. TypedInit(s) => IndInv
  BY InitInd
<1>1. TypedInit(s) /\ [][Next]_vars => []IndInv
  BY <1>0, NextInd, PTL
<1> QED BY <1>1, IndImplies, PTL
=============================================================================
