------------------------------ MODULE FoDriverMC ------------------------------
EXTENDS FoDriver, TLC
A1 == <<[name |-> "a.fo", foi |-> FALSE]>>
A3 == <<[name |-> "p.foi", foi |-> TRUE], [name |-> "a.fo", foi |-> FALSE], [name |-> "b.fo", foi |-> FALSE]>>
=============================================================================
