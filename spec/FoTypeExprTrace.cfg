CONSTANTS
  TraceFile = "type_trace.ndjson"
SPECIFICATION Spec
CHECK_DEADLOCK FALSE
