------------------------------ MODULE FoLayoutMC ------------------------------
(* exhaustive check of the reconstruction on all trees of <= N items, all increment vectors over Incs, sampled noise *)
EXTENDS FoLayout
CONSTANTS N, Incs
NoNoise(n) == [i \in 1..n |-> <<>>]
SomeNoise(n) == [i \in 1..n |-> IF i % 2 = 0 THEN <<[kind |-> "blank", col |-> 0, item |-> 0], [kind |-> "comment", col |-> 7, item |-> 0]>>
                                ELSE <<[kind |-> "comment", col |-> 0, item |-> 0]>>]
ASSUME \A n \in 1..N : \A par \in Trees(n) : \A inc \in [Openers(par) -> Incs] :
          Reconstructs(par, inc, NoNoise(n)) /\ Reconstructs(par, inc, SomeNoise(n))
\* converse on every tree with a last item that is the final line and sits at depth >= 2
ASSUME \A n \in 2..N : \A par \in Trees(n) : \A inc \in [Openers(par) -> Incs] :
          (par[n] # 0) =>
             LET o == par[n]
                 lines == Render(par, inc, NoNoise(n))
                 moved == [lines EXCEPT ![Len(lines)] = [@ EXCEPT !.col = ColOf(par, inc, o)]]
             IN Blocks(moved) = [par EXCEPT ![n] = par[o]]
ASSUME PrintT(<<"TREES", [n \in 1..N |-> Cardinality(Trees(n))]>>)
VARIABLE x
Init == x = 0
Next == x' = x
=============================================================================
