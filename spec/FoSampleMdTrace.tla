---------------------------- MODULE FoSampleMdTrace ----------------------------
(***************************************************************************)
(* Trace validation for C18.  The trace is a sequence of events observed   *)
(* from runs of the real build_sample_md, one run after the other:         *)
(*   [ev |-> "start", sc |-> scenario]                                     *)
(*   [ev |-> "process", file |-> f]       (the tool announced entry f)     *)
(*   [ev |-> "exit", code |-> c, readme |-> what README.md holds now]      *)
(* Each event must be the corresponding action of the FoSampleMd machine;  *)
(* an event no action explains is recorded in bad and the rest of that run *)
(* is skipped.                                                             *)
(***************************************************************************)
EXTENDS FoSampleMd, Json
CONSTANTS TraceFile
Trace == ndJsonDeserialize(TraceFile)
VARIABLES l, bad
tvars == <<sc, cur, secs, procs, readme, status, l, bad>>

NoRun == [lines |-> <<>>, fs |-> <<>>, bases |-> <<>>, old |-> "absent", eofnl |-> FALSE]
TraceInit == l = 1 /\ bad = <<>> /\ InitWith(NoRun)

EvStart(t) == t.ev = "start" /\ StartWith(t.sc)
EvProcess(t) ==
  /\ t.ev = "process"
  /\ (ConvOne \/ FailOne)
  /\ procs'[Len(procs')] = t.file                  \* entries are handled in list order
EvExit(t) ==
  /\ t.ev = "exit"
  /\ \/ /\ status = "run" /\ WriteReadme            \* every entry was readable: the complete README is written ...
        /\ t.code = 0 /\ t.readme = readme'         \* ... and that is what is on disk
     \/ /\ status = "failed" /\ UNCHANGED <<sc, cur, secs, procs, readme, status>>
        /\ t.code # 0 /\ t.readme = readme          \* failed: non-zero exit, README.md as it was

Apply == l <= Len(Trace) /\ (EvStart(Trace[l]) \/ EvProcess(Trace[l]) \/ EvExit(Trace[l]))

NextStart(i) ==
  LET later == {m \in (i + 1)..Len(Trace) : Trace[m].ev = "start"}
  IN IF later = {} THEN Len(Trace) + 1 ELSE CHOOSE m \in later : \A m2 \in later : m <= m2
Report(b) == IF l' > Len(Trace) THEN PrintT(<<"TRACE-END", Len(Trace), b>>) ELSE TRUE

TraceApply == Apply /\ l' = l + 1 /\ UNCHANGED bad /\ Report(bad)
TraceFail ==
  /\ l <= Len(Trace) /\ ~ENABLED Apply
  /\ bad' = Append(bad, l) /\ l' = NextStart(l)
  /\ UNCHANGED <<sc, cur, secs, procs, readme, status>>
  /\ Report(bad')
TraceSpec == TraceInit /\ [][TraceApply \/ TraceFail]_tvars
=============================================================================
