------------------------------ MODULE FoEqTrace ------------------------------
(* validates recorded results of frt.OpEqual / frt.OpNotEqual on real values against StructEq *)
EXTENDS FoEq
CONSTANTS TraceFile
Trace == ndJsonDeserialize(TraceFile)
VARIABLES l, bad
Init == l = 1 /\ bad = <<>>
Step ==
  /\ l <= Len(Trace)
  /\ LET t == Trace[l]
         want == StructEq(t.a, t.b)
         ok == /\ t.panic = ""
               /\ t.eq = want          \* a = b
               /\ t.neq = ~want        \* a <> b is the negation
               /\ t.eqrev = want       \* b = a
     IN bad' = IF ok THEN bad ELSE Append(bad, l)
  /\ l' = l + 1
  /\ IF l = Len(Trace) THEN PrintT(<<"TRACE-END", Len(Trace), bad'>>) ELSE TRUE
Spec == Init /\ [][Step]_<<l, bad>>
=============================================================================
