----------------------------- MODULE FoLayoutTrace -----------------------------
(* every layout of a document must give the output of the canonical layout; a dedent case the output of the regrouped document *)
EXTENDS Integers, Sequences, TLC, Json
CONSTANTS TraceFile
Trace == ndJsonDeserialize(TraceFile)
VARIABLES l, bad
Init == l = 1 /\ bad = <<>>
Step ==
  /\ l <= Len(Trace)
  /\ LET t == Trace[l]
         ok == t.code = 0 /\ t.hash # "" /\ t.hash = t.want       \* accepted, and byte-identical to the reference rendering
     IN bad' = IF ok THEN bad ELSE Append(bad, l)
  /\ l' = l + 1
  /\ IF l = Len(Trace) THEN PrintT(<<"TRACE-END", Len(Trace), bad'>>) ELSE TRUE
Spec == Init /\ [][Step]_<<l, bad>>
=============================================================================
