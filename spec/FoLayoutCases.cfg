CONSTANTS
  DocsFile = "layout_docs.ndjson"
  OutFile = "layout_single.ndjson"
SPECIFICATION Spec
INVARIANTS Export
CHECK_DEADLOCK FALSE
