------------------------------ MODULE FoResolver ------------------------------
(***************************************************************************)
(* The type-variable resolver of fc as it is implemented (fc/infer.fo:     *)
(* compositeTp, eiUnion, eiUpdateResT, updateResOne, updateResolver,       *)
(* resolveOneTypeVarIn; fc/parse_state.fo: EquivSet, EquivInfo, Resolver). *)
(*                                                                         *)
(* A relation (UniRel) is [src |-> variable name, dest |-> type].          *)
(* CompositeTp(l, r) compares two types, adopts the more concrete one and  *)
(* returns the relations between their variables.  The resolver maps each  *)
(* variable to its equivalence class [eset |-> names, res |-> the most     *)
(* concrete type known for the class]; updateResolver feeds a BATCH of      *)
(* relations through updateResOne round by round until a round produces    *)
(* no new relation.  One call of updateResOne is one action.  A function   *)
(* body is resolved in several batches (parser.fo): one per let statement  *)
(* (InferExpr: the relations of its right-hand side; afterwards the types  *)
(* inside that statement are REPLACED by their resolved form), then one    *)
(* for the whole function (InferLfd: all relations again, over the         *)
(* replaced types).  The resolver persists across the batches.             *)
(*                                                                         *)
(* Deliberate properties of the implementation that the model keeps:       *)
(*  - between two variables the alphabetically later NAME becomes the      *)
(*    source (names are _T0, _T1, ..: string order, here the variable      *)
(*    ord, fixed per behaviour and explored over all permutations);        *)
(*  - two different concrete types are NOT a clash: the left one is kept   *)
(*    silently (the Go compiler reports it); only slice / function /       *)
(*    tuple / parameterised shapes against another shape panic;            *)
(*  - when a non-variable destination adds nothing (no relation comes      *)
(*    back) the class is not re-registered.                                *)
(* Checked with TLC (FoResolverMC): from every order of every small        *)
(* constraint system the machine terminates, and whenever the system is    *)
(* well typed (declarative Unify of FoInfer succeeds) the resolved types   *)
(* of all observed terms equal the principal ones up to renaming.          *)
(***************************************************************************)
EXTENDS FoInfer

CONSTANT RecField(_, _)  \* RecField(rt, f): the type of field f of the record instance rt; NOREC if rt is not a (known) record, PANIC if it has no such field
CONSTANT Deviations      \* {} = the implementation; deviations for non-vacuity, see FoResolverMC
VARIABLE ord             \* sequence of all variable names, alphabetically ascending (fixed during a behaviour; explored over all orders)

Pos(x) == CHOOSE i \in 1..Len(ord) : ord[i] = x
Later(x, y) == Pos(x) > Pos(y)                    \* tv.Name > tv2.Name
Rel(x, t) == [src |-> x, dest |-> t]
PANIC == <<"panic">>
IsPanic(t) == t[1] = "panic"

NOREC == <<"norec">>
\* faResolve: the field's type once the record type is known, else the access stays a type of its own <<"fa", rectype, field>>
FaResolve(rt, f) ==
  IF rt[1] = "named" THEN (LET ft == RecField(rt, f) IN IF ft = NOREC THEN <<"fa", rt, f>> ELSE ft)
  ELSE <<"fa", rt, f>>

\* compositeTp: [t |-> adopted type, rels |-> relations, panic |-> BOOLEAN]
R(t, rels) == [t |-> t, rels |-> rels, panic |-> FALSE]
Boom == [t |-> Unit, rels |-> <<>>, panic |-> TRUE]

RECURSIVE CompositeTp(_, _), CompositeList(_, _)
CompositeList(ls, rs) ==
  IF Len(ls) = 0 THEN [ts |-> <<>>, rels |-> <<>>, panic |-> FALSE]
  ELSE LET h == CompositeTp(ls[1], rs[1])
           r == CompositeList(Tail(ls), Tail(rs))
       IN [ts |-> <<h.t>> \o r.ts, rels |-> h.rels \o r.rels, panic |-> h.panic \/ r.panic]

CompositeTp(l, r) ==
  IF IsVar(l)
  THEN IF IsVar(r)
       THEN IF l[2] = r[2] THEN R(l, <<>>)
            ELSE IF Later(l[2], r[2]) THEN R(r, <<Rel(l[2], r)>>) ELSE R(l, <<Rel(r[2], l)>>)
       ELSE R(IF "AdoptVar" \in Deviations THEN l ELSE r, <<Rel(l[2], r)>>)
  ELSE IF IsVar(r) THEN R(l, <<Rel(r[2], l)>>)
  ELSE CASE r[1] = "slice" ->
              IF l[1] = "slice" THEN (LET c == CompositeTp(l[2], r[2]) IN [t |-> <<"slice", c.t>>, rels |-> c.rels, panic |-> c.panic])
              ELSE IF l[1] = "fa" THEN R(r, <<>>)             \* "[]T1 = FA(T2, xx) ... just give up for this case"
              ELSE Boom                                       \* "right is slice, left is neither slice nor field access."
         [] r[1] = "fa" ->
              LET r2 == FaResolve(r[2], r[3]) IN
              IF IsPanic(r2) THEN Boom
              ELSE IF r2[1] # "fa" THEN CompositeTp(l, r2)    \* resolved, try the resolved type again
              ELSE IF l[1] = "fa"
                   THEN LET l2 == FaResolve(l[2], l[3]) IN
                        IF IsPanic(l2) THEN Boom
                        ELSE IF l2[1] # "fa" THEN CompositeTp(l2, r)
                        ELSE IF l[3] = r[3] \/ "FaAnyField" \in Deviations   \* the same field: the two record types are taken to be one (fix 778819f: only then)
                             THEN (LET c == CompositeTp(l[2], r[2])
                                       ft == FaResolve(c.t, l[3])
                                   IN IF IsPanic(ft) THEN Boom ELSE [t |-> ft, rels |-> c.rels, panic |-> c.panic])
                             ELSE R(l, <<>>)
                   ELSE R(l, <<>>)                            \* FA(T, xx) against anything else: ignored
         [] r[1] = "func" ->
              IF l[1] = "func" /\ Len(l[2]) = Len(r[2])
              THEN (LET c == CompositeList(Append(l[2], l[3]), Append(r[2], r[3]))
                    IN [t |-> <<"func", SubSeq(c.ts, 1, Len(l[2])), c.ts[Len(c.ts)]>>, rels |-> c.rels, panic |-> c.panic])
              ELSE Boom                                       \* "Lhs is not FFunc" / "type len is differ"
         [] r[1] = "tuple" ->
              IF l[1] = "tuple" /\ Len(l[2]) = Len(r[2])
              THEN (LET c == CompositeList(l[2], r[2]) IN [t |-> <<"tuple", c.ts>>, rels |-> c.rels, panic |-> c.panic])
              ELSE Boom                                       \* CastNow / "type len is differ"
         [] r[1] = "named" ->
              \* FParamd casts the left side (panic if it is something else); FRecord / FUnion of the same name unify their arguments
              \* (fix 144d4f6), anything else keeps the left side silently
              IF l[1] = "named" /\ l[2] = r[2] /\ Len(l[3]) = Len(r[3])
              THEN (LET c == CompositeList(l[3], r[3]) IN [t |-> <<"named", l[2], c.ts>>, rels |-> c.rels, panic |-> c.panic])
              ELSE R(l, <<>>)
         [] OTHER -> R(l, <<>>)                               \* "both type is concrete": no comparison at all

---------------------------------------------------------------------------
(* resolveOneTypeVarIn / resolveType: substitute class types recursively; a variable met again on its own path is an infinite type *)
\* type variables that occur (field-access types included)
RECURSIVE RVars(_)
RVarsSeq(ts) == UNION {RVars(ts[i]) : i \in 1..Len(ts)}
RVars(t) ==
  CASE t[1] = "var"   -> {t[2]}
    [] t[1] \in {"base", "unit", "panic"} -> {}
    [] t[1] = "slice" -> RVars(t[2])
    [] t[1] = "tuple" -> RVarsSeq(t[2])
    [] t[1] = "func"  -> RVarsSeq(t[2]) \cup RVars(t[3])
    [] t[1] = "named" -> RVarsSeq(t[3])
    [] t[1] = "fa"    -> RVars(t[2])
IsRecord(rt) == rt[1] = "named" /\ RecField(rt, "") # NOREC

\* follow a variable to the type of its class WITHOUT translating that type: [t |-> a variable or the class type, path |-> variables passed]
RECURSIVE Shallow(_, _, _)
Shallow(e, t, path) ==
  IF t[1] # "var" THEN [t |-> t, path |-> path]
  ELSE LET cand == IF t[2] \in DOMAIN e THEN e[t[2]].res ELSE t IN
       IF t[2] \in path \/ cand = t THEN [t |-> (IF IsRecord(cand) THEN cand ELSE t), path |-> path]
       ELSE Shallow(e, cand, path \cup {t[2]})

RECURSIVE Resolve(_, _, _)
ResolveSeq(e, ts, path) == [i \in 1..Len(ts) |-> Resolve(e, ts[i], path)]
AnyPanic(ts) == \E i \in 1..Len(ts) : IsPanic(ts[i])
Resolve(e, t, path) ==
  CASE t[1] = "var" ->
         LET cand == IF t[2] \in DOMAIN e THEN e[t[2]].res ELSE t IN
         IF "OldCycleRule" \in Deviations
         THEN (IF t[2] \in path THEN PANIC ELSE IF cand = t THEN t ELSE Resolve(e, cand, path \cup {t[2]}))     \* before the fix: any variable met again on its own path
         ELSE IF t[2] \in path
              THEN (IF IsRecord(cand) THEN cand ELSE t)       \* cut the cycle here; a record keeps its shape so that a field access on it can still be projected
              ELSE IF cand = t THEN t
              ELSE LET r == Resolve(e, cand, path \cup {t[2]}) IN
                   IF IsPanic(r) THEN PANIC
                   ELSE IF r[1] # "var" /\ t[2] \in RVars(r) THEN PANIC       \* "Infinite (self referential) type is inferred."
                   ELSE r
    [] t[1] \in {"base", "unit"} -> t
    [] t[1] = "slice" -> LET x == Resolve(e, t[2], path) IN IF IsPanic(x) THEN PANIC ELSE <<"slice", x>>
    [] t[1] = "tuple" -> LET xs == ResolveSeq(e, t[2], path) IN IF AnyPanic(xs) THEN PANIC ELSE <<"tuple", xs>>
    [] t[1] = "func"  -> LET xs == ResolveSeq(e, t[2], path)
                             x == Resolve(e, t[3], path)
                         IN IF AnyPanic(xs) \/ IsPanic(x) THEN PANIC ELSE <<"func", xs, x>>
    [] t[1] = "named" -> LET xs == ResolveSeq(e, t[3], path) IN IF AnyPanic(xs) THEN PANIC ELSE <<"named", t[2], xs>>
    [] t[1] = "fa"    ->
         \* transTVFType: resolve the record type (transRecType translates the fields of the instance found with the same resolution),
         \* then faResolve - i.e. the resolved type of field F of the record instance at the end of the variable chain
         LET s == Shallow(e, t[2], path) IN
         IF IsRecord(s.t)
         THEN (LET ft == RecField(s.t, t[3]) IN IF IsPanic(ft) THEN PANIC ELSE Resolve(e, ft, s.path))
         ELSE (LET x == Resolve(e, t[2], path) IN IF IsPanic(x) THEN PANIC ELSE FaResolve(x, t[3]))


\* rsLookupEI: the class of a name, a fresh singleton class if it is not registered
LookupIn(e, x) == IF x \in DOMAIN e THEN e[x] ELSE [eset |-> {x}, res |-> V(x)]
\* rsRegisterNewEI: every member of the class points to the new info
Register(e, ei) == [y \in (DOMAIN e) \cup ei.eset |-> IF y \in ei.eset THEN ei ELSE e[y]]

\* updateResOne as a function of the resolver e and one relation: [eid |-> resolver after, rels |-> relations returned, panic]
\* the type of a class that is still "field F of a record to be known" is looked at through the resolver: by now the record may be known
\* the type of a class (or a destination) that is still "field F of a record to be known" is looked at through the resolver:
\* by now the record may be known (resolveType; an infinite type found on the way is reported)
ViaResolver(e, t) == IF t[1] = "fa" /\ "FaKeepsClass" \notin Deviations THEN Resolve(e, t, {}) ELSE t
StepRel(e, rel0) ==
  LET dest == ViaResolver(e, rel0.dest)
      l1 == LookupIn(e, rel0.src)
      res1 == ViaResolver(e, l1.res)
      ei1 == [l1 EXCEPT !.res = res1] IN
  IF IsPanic(dest) \/ IsPanic(res1) THEN [eid |-> e, rels |-> <<>>, panic |-> TRUE]
  ELSE IF IsVar(dest)
  THEN LET l2 == LookupIn(e, dest[2])
           res2 == ViaResolver(e, l2.res)
           c == IF IsPanic(res2) THEN Boom ELSE CompositeTp(res1, res2)         \* eiUnion
           nei == [eset |-> l1.eset \cup l2.eset, res |-> c.t]
       IN [eid |-> IF c.panic THEN e
                   ELSE IF "RegisterPairOnly" \in Deviations
                        THEN Register(e, [nei EXCEPT !.eset = {rel0.src, dest[2]}])       \* only the two named members see the merged class
                        ELSE Register(e, nei),
           rels |-> IF "DropUnionRels" \in Deviations THEN <<>> ELSE c.rels,
           panic |-> c.panic]
  ELSE LET c == CompositeTp(res1, dest)                                        \* eiUpdateResT
           nei == [eset |-> l1.eset, res |-> c.t]
       IN [eid |-> IF c.panic \/ c.rels = <<>> THEN e ELSE Register(e, nei),     \* not re-registered when nothing came back
           rels |-> IF "DropUpdateRels" \in Deviations THEN <<>> ELSE c.rels,
           panic |-> c.panic]

\* one round of updateResolver (slice.Map (updateResOne res) |> slice.Concat) as a function
RECURSIVE RunRound(_, _)
RunRound(e, rels) ==
  IF Len(rels) = 0 THEN [eid |-> e, produced |-> <<>>, panic |-> FALSE]
  ELSE LET h == StepRel(e, rels[1]) IN
       IF h.panic THEN [eid |-> h.eid, produced |-> <<>>, panic |-> TRUE]
       ELSE LET r == RunRound(h.eid, Tail(rels)) IN [eid |-> r.eid, produced |-> h.rels \o r.produced, panic |-> r.panic]

---------------------------------------------------------------------------
VARIABLES eid,       \* the resolver: variable name -> [eset, res]   (only registered names are in the domain)
          round,     \* relations of the current round still to be processed (updateResolver's slice.Map)
          produced,  \* relations produced so far in this round
          rpanic     \* a PanicNow was reached
rvars == <<eid, round, produced, rpanic>>

Lookup(x) == LookupIn(eid, x)
RInit(rels, p) == eid = [x \in {} |-> 0] /\ round = rels /\ produced = <<>> /\ rpanic = p

\* one call of updateResOne on the head of the round
UpdateResOne ==
  /\ ~rpanic /\ round # <<>>
  /\ LET h == StepRel(eid, round[1]) IN
     IF h.panic THEN rpanic' = TRUE /\ UNCHANGED <<eid, round, produced>>
     ELSE eid' = h.eid /\ produced' = produced \o h.rels /\ round' = Tail(round) /\ UNCHANGED rpanic

\* end of a round: the produced relations are the next round (updateResolver recurses), none = the batch is done
NextRound ==
  /\ ~rpanic /\ round = <<>> /\ produced # <<>>
  /\ round' = produced /\ produced' = <<>> /\ UNCHANGED <<eid, rpanic>>

RNext == UpdateResOne \/ NextRound
BatchDone == round = <<>> /\ produced = <<>>

\* the relations of a constraint system: unifyType on each pair, concatenated in program order (collectLfdRels)
RECURSIVE RelsOf(_)
RelsOf(eqs) == IF Len(eqs) = 0 THEN [rels |-> <<>>, panic |-> FALSE]
               ELSE LET c == CompositeTp(eqs[1][1], eqs[1][2])
                        r == RelsOf(Tail(eqs))
                    IN [rels |-> c.rels \o r.rels, panic |-> c.panic \/ r.panic]
=============================================================================
