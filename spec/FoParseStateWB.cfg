CONSTANTS
  TraceFile = "ps_wb.ndjson"
SPECIFICATION Spec
CHECK_DEADLOCK FALSE
