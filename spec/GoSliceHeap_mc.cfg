CONSTANTS
  Elems = {8, 9}
  MaxLen = 3
  MaxPool = 4
  MaxSteps = 3
  ExtraCap = {0, 1}
  Deviations <- NoDev
  InitShapes <- FewShapes
SPECIFICATION Spec
INVARIANTS TypeOK Purity
PROPERTIES AbsRefines AbsInitHolds
VIEW View
CHECK_DEADLOCK FALSE
