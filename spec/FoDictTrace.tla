---------------------------- MODULE FoDictTrace ----------------------------
(* trace validation of recorded pkg/dict histories against the FoDict machine *)
EXTENDS FoDict

CONSTANTS TraceFile
Trace == ndJsonDeserialize(TraceFile)

VARIABLES l, bad
tvars == <<dicts, hist, steps, l, bad>>

TraceInit == l = 1 /\ bad = <<>> /\ Init

Act(t) ==
  CASE t.op = "New"    -> DoNew(t.d)
    [] t.op = "Add"    -> DoAdd(t.d, t.key, t.val)
    [] t.op = "ToDict" -> DoToDict(t.d, t.pairs)
    [] OTHER           -> DoQuery(t.op, t.d, t.key) /\ ReplyOK(t.op, dicts[t.d], t.key, t.ret)

Apply ==
  /\ l <= Len(Trace)
  /\ (Trace[l].k = 1 => steps = 0)
  /\ Trace[l].panic = ""
  /\ Act(Trace[l])

NextStart(i) ==
  LET later == {m \in (i + 1)..Len(Trace) : Trace[m].k = 1}
  IN IF later = {} THEN Len(Trace) + 1 ELSE CHOOSE m \in later : \A m2 \in later : m <= m2

Report(b) == IF l' > Len(Trace) THEN PrintT(<<"TRACE-END", Len(Trace), b>>) ELSE TRUE

TraceApply == Apply /\ l' = l + 1 /\ UNCHANGED bad /\ Report(bad)
TraceReset == /\ l <= Len(Trace) /\ Trace[l].k = 1 /\ steps # 0
              /\ dicts' = [d \in 1..ND |-> Empty] /\ hist' = <<>> /\ steps' = 0 /\ UNCHANGED <<l, bad>>
TraceFail ==
  /\ l <= Len(Trace)
  /\ ~(Trace[l].k = 1 /\ steps # 0)
  /\ ~ENABLED Apply
  /\ bad' = Append(bad, l)
  /\ l' = NextStart(l)
  /\ dicts' = [d \in 1..ND |-> Empty] /\ hist' = <<>> /\ steps' = 0
  /\ Report(bad')

TraceSpec == TraceInit /\ [][TraceApply \/ TraceReset \/ TraceFail]_tvars
=============================================================================
