CONSTANTS
  MaxEqs = 2
  AllOrders = TRUE
  WithSets = TRUE
  MergeLen = 3
  Deviations = {}
SPECIFICATION Spec
INVARIANTS Agrees RoundsBounded
PROPERTIES Terminates
CHECK_DEADLOCK FALSE
