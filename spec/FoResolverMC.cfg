CONSTANTS
  MaxEqs = 2
  AllOrders = TRUE
  WithSets = TRUE
  MergeLen = 3
  FldEqs = 2
  Deviations = {}
  RecField <- MCRecField
SPECIFICATION Spec
INVARIANTS Agrees RoundsBounded
PROPERTIES Terminates
CHECK_DEADLOCK FALSE
