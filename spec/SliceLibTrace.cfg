CONSTANTS
  TraceFile = "slice_trace.ndjson"
SPECIFICATION Spec
CHECK_DEADLOCK FALSE
