--------------------------- MODULE GoHeapAbsProof ---------------------------
(* Purity of the abstract heap machine for pools, arrays and histories of any size (TLA+ proof system). *)
EXTENDS GoHeapAbs, TLAPS

IndInv ==
  /\ Len(heap) \in Nat
  /\ Len(pool) \in Nat
  /\ \A k \in 1..Len(pool) : IsView(heap, pool[k])
  /\ Purity

LEMMA InitInd == AbsInit => IndInv
  BY DEF AbsInit, IndInv, Purity

LEMMA AliasInd == IndInv /\ AbsAlias => IndInv'
<1> SUFFICES ASSUME IndInv, AbsAlias PROVE IndInv'
  OBVIOUS
<1> DEFINE v == pool'[Len(pool')]
<1>1. heap' = heap /\ Extends(v) /\ IsView(heap, v) /\ v.snap = Contents(heap, v)
  BY DEF AbsAlias
<1>2. Len(pool') \in Nat /\ Len(pool') = Len(pool) + 1 /\ Len(pool) \in Nat
  BY <1>1 DEF Extends, IndInv
<1>3. \A k \in 1..Len(pool') : IsView(heap', pool'[k]) /\ Contents(heap', pool'[k]) = pool'[k].snap
  <2> TAKE k \in 1..Len(pool')
  <2>1. CASE k \in 1..Len(pool)
    BY <2>1, <1>1 DEF Extends, IndInv, Purity
  <2>2. CASE k = Len(pool')
    BY <2>2, <1>1
  <2> QED BY <2>1, <2>2, <1>2 DEF IndInv
<1>4. Len(heap') \in Nat
  BY <1>1 DEF IndInv
<1> QED BY <1>1, <1>2, <1>3, <1>4 DEF IndInv, Purity

LEMMA FreshInd == IndInv /\ AbsFresh => IndInv'
<1> SUFFICES ASSUME IndInv, AbsFresh PROVE IndInv'
  OBVIOUS
<1> DEFINE v == pool'[Len(pool')]
<1>1. /\ Len(heap') = Len(heap) + 1
      /\ \A a \in 1..Len(heap) : heap'[a] = heap[a]
      /\ Extends(v) /\ v.arr = Len(heap') /\ IsView(heap', v) /\ v.snap = Contents(heap', v)
  BY DEF AbsFresh
<1>2. Len(pool') \in Nat /\ Len(pool') = Len(pool) + 1 /\ Len(heap) \in Nat /\ Len(pool) \in Nat
  BY <1>1 DEF Extends, IndInv
<1>3. \A k \in 1..Len(pool') : IsView(heap', pool'[k]) /\ Contents(heap', pool'[k]) = pool'[k].snap
  <2> TAKE k \in 1..Len(pool')
  <2>1. CASE k \in 1..Len(pool)
    <3>1. pool'[k] = pool[k] /\ IsView(heap, pool[k]) /\ Contents(heap, pool[k]) = pool[k].snap
      BY <2>1, <1>1 DEF Extends, IndInv, Purity
    <3>2. pool[k].arr # 0 => heap'[pool[k].arr] = heap[pool[k].arr]
      BY <3>1, <1>1, <1>2 DEF IsView
    <3>3. IsView(heap', pool[k])
      BY <3>1, <3>2, <1>1, <1>2 DEF IsView
    <3>4. Contents(heap', pool[k]) = Contents(heap, pool[k])
      BY <3>1, <3>2 DEF Contents, IsView
    <3> QED BY <3>1, <3>3, <3>4
  <2>2. CASE k = Len(pool')
    BY <2>2, <1>1
  <2> QED BY <2>1, <2>2, <1>2
<1>4. Len(heap') \in Nat
  BY <1>1, <1>2
<1> QED BY <1>2, <1>3, <1>4 DEF IndInv, Purity

LEMMA NextInd == IndInv /\ [AbsNext]_<<heap, pool>> => IndInv'
<1> SUFFICES ASSUME IndInv, [AbsNext]_<<heap, pool>> PROVE IndInv'
  OBVIOUS
<1>1. CASE AbsAlias  BY <1>1, AliasInd
<1>2. CASE AbsFresh  BY <1>2, FreshInd
<1>3. CASE UNCHANGED <<heap, pool>>  BY <1>3 DEF IndInv, Purity, IsView, Contents
<1> QED BY <1>1, <1>2, <1>3 DEF AbsNext

THEOREM PurityAlways == AbsInit /\ [][AbsNext]_<<heap, pool>> => []Purity
<1>1. AbsInit /\ [][AbsNext]_<<heap, pool>> => []IndInv
  BY InitInd, NextInd, PTL
<1>2. IndInv => Purity
  BY DEF IndInv
<1> QED BY <1>1, <1>2, PTL
=============================================================================
