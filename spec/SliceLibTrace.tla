---------------------------- MODULE SliceLibTrace ----------------------------
(***************************************************************************)
(* Validates a recorded trace of real pkg/slice calls (one JSON object per *)
(* line: the case fields of SliceCases plus ret and log) against the       *)
(* post-conditions of SliceLib.  One TLC state per consumed line; lines    *)
(* whose post-condition fails are collected in bad (so one failure does    *)
(* not hide the others) and printed when the trace is exhausted.           *)
(***************************************************************************)
EXTENDS SliceLib, Json

CONSTANTS TraceFile

Trace == ndJsonDeserialize(TraceFile)

VARIABLES l, bad, badPure

Init == l = 1 /\ bad = <<>> /\ badPure = <<>>

Step ==
  /\ l <= Len(Trace)
  /\ LET t == Trace[l]
         \* C13: the call returned what its specification says (and invoked its callback in order)
         ok == t.panic = "" /\ InDomain(t) /\ Post(t)
         \* C12 (single step): the call left its arguments alone, and the live value they are a view of
         pure == t.after = t.s /\ t.after2 = t.s2 /\ t.parent1 = t.parent0 /\ t.afterss = t.ss      \* (also the outer list handed to Concat)
     IN /\ bad' = IF ok THEN bad ELSE Append(bad, l)
        /\ badPure' = IF pure THEN badPure ELSE Append(badPure, l)
  /\ l' = l + 1
  /\ IF l = Len(Trace) THEN PrintT(<<"TRACE-END", Len(Trace), bad'>>) /\ PrintT(<<"PURE-END", Len(Trace), badPure'>>) ELSE TRUE

Spec == Init /\ [][Step]_<<l, bad, badPure>>
=============================================================================
