---------------------------- MODULE FoMatchProof ----------------------------
(***************************************************************************)
(* The marking procedure of fc's exhaustiveness check (C09) as a loop, and *)
(* a proof with the TLA+ proof system that, for EVERY union and every      *)
(* sequence of arms, it accepts exactly when the match has a default arm   *)
(* or its arms cover the cases (FoMatch!Declarative), and that every case  *)
(* left unmarked is an uncovered one.  (FoMatch!Mark is the same loop as a *)
(* recursive operator, which TLC evaluates; the proof system does not      *)
(* accept recursive operators.)                                            *)
(***************************************************************************)
EXTENDS Integers, Sequences, FiniteSets, TLAPS

CONSTANTS CaseNames,     \* the names of the union's cases
          Arms,          \* the arms: a sequence of case names
          Dflt           \* whether the match ends with a default arm

ASSUME Assump == /\ Arms \in Seq(CaseNames) /\ Dflt \in BOOLEAN

ArmNames == {Arms[j] : j \in 1..Len(Arms)}

VARIABLES cmap,   \* case name -> marked
          i,      \* next arm
          verdict \* "run" | "accept" | "reject"
vars == <<cmap, i, verdict>>

Init == cmap = [c \in CaseNames |-> FALSE] /\ i = 1 /\ verdict = "run"
MarkStep == /\ verdict = "run" /\ i <= Len(Arms)
            /\ cmap' = [cmap EXCEPT ![Arms[i]] = TRUE] /\ i' = i + 1 /\ UNCHANGED verdict
Decide == /\ verdict = "run" /\ i = Len(Arms) + 1
          /\ verdict' = IF Dflt \/ {c \in CaseNames : ~cmap[c]} = {} THEN "accept" ELSE "reject"
          /\ UNCHANGED <<cmap, i>>
Next == MarkStep \/ Decide

Declarative == Dflt \/ CaseNames \subseteq ArmNames

IndInv ==
  /\ i \in 1..(Len(Arms) + 1)
  /\ cmap \in [CaseNames -> BOOLEAN]
  /\ \A c \in CaseNames : cmap[c] <=> (\E j \in 1..(i - 1) : Arms[j] = c)
  /\ verdict \in {"run", "accept", "reject"}
  /\ verdict # "run" => i = Len(Arms) + 1
  /\ verdict = "accept" => Declarative
  /\ verdict = "reject" => ~Declarative

LEMMA InitInd == Init => IndInv
  BY Assump DEF Init, IndInv

LEMMA NextInd == IndInv /\ [Next]_vars => IndInv'
<1> SUFFICES ASSUME IndInv, [Next]_vars PROVE IndInv'
  OBVIOUS
<1>0. Len(Arms) \in Nat /\ \A j \in 1..Len(Arms) : Arms[j] \in CaseNames
  BY Assump
<1>1. CASE MarkStep
  <2>1. cmap' \in [CaseNames -> BOOLEAN]
    BY <1>1, <1>0 DEF MarkStep, IndInv
  <2>2. \A c \in CaseNames : cmap'[c] <=> (\E j \in 1..(i' - 1) : Arms[j] = c)
    BY <1>1, <1>0 DEF MarkStep, IndInv
  <2> QED BY <1>1, <1>0, <2>1, <2>2 DEF MarkStep, IndInv, Declarative
<1>2. CASE Decide
  <2>1. ({c \in CaseNames : ~cmap[c]} = {}) <=> (CaseNames \subseteq ArmNames)
    BY <1>2, <1>0 DEF Decide, IndInv, ArmNames
  <2> QED BY <1>2, <1>0, <2>1 DEF Decide, IndInv, Declarative
<1>3. CASE UNCHANGED vars
  BY <1>3 DEF vars, IndInv
<1> QED BY <1>1, <1>2, <1>3 DEF Next

\* the diagnostic names an unmarked case: every unmarked case is an uncovered one
LEMMA UnmarkedAreUncovered == IndInv /\ i = Len(Arms) + 1 => {c \in CaseNames : ~cmap[c]} = CaseNames \ ArmNames
  BY Assump DEF IndInv, ArmNames

THEOREM Correct == Init /\ [][Next]_vars => [](/\ verdict = "accept" => Declarative
                                              /\ verdict = "reject" => ~Declarative)
<1>1. Init /\ [][Next]_vars => []IndInv
  BY InitInd, NextInd, PTL
<1>2. IndInv => (verdict = "accept" => Declarative) /\ (verdict = "reject" => ~Declarative)
  BY DEF IndInv
<1> QED BY <1>1, <1>2, PTL
=============================================================================
