CONSTANTS
  OutFile = "eq_cases.ndjson"
  Types = {"int", "string", "bool", "tup2", "tup3", "Pt", "lrec", "Color", "Shape", "Wrap", "ints", "strings", "pts", "tups", "nested", "wraptup"}
INIT Init
NEXT Next
