CONSTANTS
  TraceFile = "res_trace.ndjson"
  OrdFile = "res_ord.ndjson"
  Deviations = {}
SPECIFICATION Spec
CHECK_DEADLOCK FALSE
