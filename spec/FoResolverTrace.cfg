CONSTANTS
  TraceFile = "res_trace.ndjson"
  OrdFile = "res_ord.ndjson"
  RecFile = "res_recs.ndjson"
  RecField <- TraceRecField
  Deviations = {}
SPECIFICATION Spec
CHECK_DEADLOCK FALSE
