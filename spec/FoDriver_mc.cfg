CONSTANTS
  Args <- A3
SPECIFICATION Spec
INVARIANTS TypeOK ZeroMeansComplete FailureIsClean AnnouncedInOrder
PROPERTIES Terminates
CHECK_DEADLOCK FALSE
