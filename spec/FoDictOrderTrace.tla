--------------------------- MODULE FoDictOrderTrace ---------------------------
(* every replayed schedule must give the result of the canonical schedule *)
EXTENDS Integers, Sequences, TLC, Json
CONSTANTS TraceFile
Trace == ndJsonDeserialize(TraceFile)
VARIABLES l, bad
Init == l = 1 /\ bad = <<>>
Step ==
  /\ l <= Len(Trace)
  /\ LET t == Trace[l]
         ok == /\ t.code = t.canon.code          \* same accept / reject decision
               /\ t.files = t.canon.files        \* byte-identical output files (name and SHA-256)
     IN bad' = IF ok THEN bad ELSE Append(bad, l)
  /\ l' = l + 1
  /\ IF l = Len(Trace) THEN PrintT(<<"TRACE-END", Len(Trace), bad'>>) ELSE TRUE
Spec == Init /\ [][Step]_<<l, bad>>
=============================================================================
