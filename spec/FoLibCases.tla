----------------------------- MODULE FoLibCases -----------------------------
(* enumerates the call table of pkg/strings, pkg/buf and the frt helpers (C14) *)
EXTENDS FoLib, Json

CONSTANTS Chars, N, OutFile

Strs(n) == UNION {[1..k -> Chars] : k \in 0..n}
S  == Strs(N)
S2 == Strs(2)
Seps == {<<",">>, <<"a">>, <<"a", "b">>, <<",", ",">>}

C(lib, op, a, b, c, xs, n, m, k, cond, f) ==
  [lib |-> lib, op |-> op, a |-> a, b |-> b, c |-> c, xs |-> xs, n |-> n, m |-> m, k |-> k, cond |-> cond, f |-> f]
St(op, a, b, c, xs, n) == C("strings", op, a, b, c, xs, n, 0, 0, FALSE, "")
Fr(op, n, m, k, cond, f) == C("frt", op, <<>>, <<>>, <<>>, <<>>, n, m, k, cond, f)

Cases ==
       {St(op, a, <<>>, <<>>, <<>>, 0) : op \in {"Length", "IsEmpty", "IsNotEmpty"}, a \in S}
  \cup {St(op, a, b, <<>>, <<>>, 0) : op \in {"AppendTail", "AppendHead", "HasSuffix", "HasPrefix", "TrimSuffix"}, a \in S2, b \in S}
  \cup {St("EncloseWith", a, b, c, <<>>, 0) : a \in S2, b \in S2, c \in Strs(1)}
  \cup {St("Split", a, b, <<>>, <<>>, 0) : a \in Seps, b \in S}
  \cup {St("SplitN", a, b, <<>>, <<>>, n) : a \in Seps, b \in S, n \in (0 - 1)..3}
  \cup {St("Concat", a, <<>>, <<>>, xs, 0) : a \in {<<>>, <<",">>, <<"a", "b">>}, xs \in UNION {[1..k -> S2] : k \in 0..2}}
  \cup {St("Concat", <<",">>, <<>>, <<>>, <<x, y, x>>, 0) : x \in S2, y \in Strs(1)}
  \cup {C("buf", "Writes", <<>>, <<>>, <<>>, xs, 0, 0, 0, FALSE, "") : xs \in UNION {[1..k -> S2] : k \in 0..3}}
  \cup {Fr(op, n, 0, 0, FALSE, f) : op \in {"Pipe", "PipeUnit"}, n \in 0..2, f \in {"inc", "dbl", "neg", "const7"}}
  \cup {Fr(op, n, m, 0, cond, "") : op \in {"IfElse", "IfElseUnit", "IfOnly"}, n \in 1..2, m \in 3..4, cond \in BOOLEAN}
  \cup {Fr(op, n, m, k, FALSE, "") : op \in {"Fst", "Snd", "Destr2", "Destr3"}, n \in 1..2, m \in 3..4, k \in 5..6}
  \cup {Fr("OpNot", 0, 0, 0, cond, "") : cond \in BOOLEAN}
  \cup {Fr("OpAnd", n, 0, 0, cond, "") : cond \in BOOLEAN, n \in 0..1}
  \cup {Fr("Assert", 0, 0, 0, cond, "") : cond \in BOOLEAN}
  \cup {Fr("Empty", 0, 0, 0, FALSE, "")}

\* laws of the specification itself
ASSUME \A s \in Strs(3), sep \in Seps : Join(sep, Split(sep, s)) = s
ASSUME \A s \in Strs(3), sep \in Seps, n \in 1..3 : Join(sep, SplitN(n, sep, s)) = s /\ Len(SplitN(n, sep, s)) <= n
ASSUME \A s \in Strs(3), t \in S2 : TrimSuffix(t, AppendTail(t, s)) = s /\ HasSuffix(t, AppendTail(t, s)) /\ HasPrefix(t, AppendHead(t, s))
ASSUME ndJsonSerialize(OutFile, SetToSeq(Cases))
ASSUME PrintT(<<"CASES", Cardinality(Cases)>>)

VARIABLE x
Init == x = 0
Next == x' = x
=============================================================================
