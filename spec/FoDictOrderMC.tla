---------------------------- MODULE FoDictOrderMC ----------------------------
(* checks the consumer facts and exports the bounded schedules for recorded call sequences *)
EXTENDS FoDictOrder, Json, SequencesExt
CONSTANTS CallsFile, OutFile, B

Progs == ndJsonDeserialize(CallsFile)      \* one line per program: [prog |-> id, calls |-> <<n1, n2, ...>>]

SchedsFor(calls) == IF B >= 2 THEN {s \in Sched1(calls) \cup Sched2(calls) : Valid(s)} ELSE Sched1(calls)
Rows == UNION {{[prog |-> Progs[i].prog, sched |-> SetToSeq(s)] : s \in SchedsFor(Progs[i].calls)} : i \in 1..Len(Progs)}

ASSUME ConsumerFacts
ASSUME ndJsonSerialize(OutFile, SetToSeq(Rows))
ASSUME PrintT(<<"CASES", Cardinality(Rows)>>)
VARIABLE x
Init == x = 0
Next == x' = x
=============================================================================
