CONSTANTS
  N = 2
  OutFile = "prec_cases.ndjson"
INIT Init
NEXT Next
