--------------------------- MODULE FoLiteralTrace ---------------------------
(* validates the values computed by emitted programs for literals against Denote *)
EXTENDS FoLiteral, Json
CONSTANTS TraceFile
Trace == ndJsonDeserialize(TraceFile)
VARIABLES l, bad
Init == l = 1 /\ bad = <<>>
Step ==
  /\ l <= Len(Trace)
  /\ LET t == Trace[l]
         ok == /\ t.status = "ok"
               /\ LegalLit(t.form, t.segs)
               /\ t.got = Denote(t.segs, Env)
               /\ Pipeline(t.form, Source(t.segs), Env) = Denote(t.segs, Env)
     IN bad' = IF ok THEN bad ELSE Append(bad, l)
  /\ l' = l + 1
  /\ IF l = Len(Trace) THEN PrintT(<<"TRACE-END", Len(Trace), bad'>>) ELSE TRUE
Spec == Init /\ [][Step]_<<l, bad>>
=============================================================================
