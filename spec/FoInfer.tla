------------------------------- MODULE FoInfer -------------------------------
(***************************************************************************)
(* Type inference for top-level functions (C02).                           *)
(*                                                                         *)
(* Types are the terms of FoTypeExpr plus type variables <<"var", name>>.  *)
(* A function is given by its constraint set eqs (a sequence of pairs      *)
(* <<t1, t2>> produced by the documented syntax-directed rules), the       *)
(* types of its parameters and of its result (terms over variables).       *)
(*                                                                         *)
(* Part 1: unification as a NONDETERMINISTIC machine (Decompose, Orient,    *)
(* Bind with occurs check, Drop, Clash).  TLC explores every processing    *)
(* order of small constraint sets: every behaviour terminates, and every   *)
(* terminal state gives the same types to the observed terms up to         *)
(* renaming of variables -- so the principal type exists and is what the   *)
(* deterministic Unify below computes.                                     *)
(* Part 2: Sig: apply the most general unifier to parameters and result,   *)
(* rename the remaining variables T0, T1, ... by first occurrence in the   *)
(* parameter list then the result, and print the Go signature.             *)
(***************************************************************************)
EXTENDS FoTypeExpr

V(n) == <<"var", n>>
IsVar(t) == t[1] = "var"

RECURSIVE Vars(_), VarsSeq(_)
VarsSeq(ts) == IF ts = <<>> THEN <<>> ELSE Vars(ts[1]) \o VarsSeq(Tail(ts))      \* in order of occurrence, with repetitions
Vars(t) ==
  CASE t[1] = "var"   -> <<t[2]>>
    [] t[1] \in {"base", "unit"} -> <<>>
    [] t[1] = "slice" -> Vars(t[2])
    [] t[1] = "tuple" -> VarsSeq(t[2])
    [] t[1] = "func"  -> VarsSeq(t[2]) \o Vars(t[3])
    [] t[1] = "named" -> VarsSeq(t[3])
VarSet(t) == {Vars(t)[i] : i \in 1..Len(Vars(t))}

\* substitution: function from variable names to types
RECURSIVE Apply(_, _)
Apply(s, t) ==
  CASE t[1] = "var"   -> IF t[2] \in DOMAIN s THEN Apply(s, s[t[2]]) ELSE t
    [] t[1] \in {"base", "unit"} -> t
    [] t[1] = "slice" -> <<"slice", Apply(s, t[2])>>
    [] t[1] = "tuple" -> <<"tuple", [i \in 1..Len(t[2]) |-> Apply(s, t[2][i])]>>
    [] t[1] = "func"  -> <<"func", [i \in 1..Len(t[2]) |-> Apply(s, t[2][i])], Apply(s, t[3])>>
    [] t[1] = "named" -> <<"named", t[2], [i \in 1..Len(t[3]) |-> Apply(s, t[3][i])]>>

Bind1(s, x, t) == [y \in (DOMAIN s) \cup {x} |-> IF y = x THEN t ELSE s[y]]
NoSubst == [x \in {} |-> Unit]

\* children of a constructed type, and whether two constructed types have the same head
Kids(t) == CASE t[1] = "slice" -> <<t[2]>> [] t[1] = "tuple" -> t[2] [] t[1] = "func" -> Append(t[2], t[3])
             [] t[1] = "named" -> t[3] [] OTHER -> <<>>
SameHead(a, b) ==
  /\ a[1] = b[1]
  /\ (a[1] = "base" => a[2] = b[2])
  /\ (a[1] = "named" => a[2] = b[2])
  /\ Len(Kids(a)) = Len(Kids(b))

\* deterministic unification: eqs processed left to right; result [ok, s]
RECURSIVE Unify(_, _)
Unify(eqs, s) ==
  IF eqs = <<>> THEN [ok |-> TRUE, s |-> s]
  ELSE LET a == Apply(s, eqs[1][1])
           b == Apply(s, eqs[1][2])
           rest == Tail(eqs) IN
       IF a = b THEN Unify(rest, s)
       ELSE IF IsVar(a) THEN (IF a[2] \in VarSet(b) THEN [ok |-> FALSE, s |-> s] ELSE Unify(rest, Bind1(s, a[2], b)))
       ELSE IF IsVar(b) THEN (IF b[2] \in VarSet(a) THEN [ok |-> FALSE, s |-> s] ELSE Unify(rest, Bind1(s, b[2], a)))
       ELSE IF SameHead(a, b) THEN Unify([i \in 1..Len(Kids(a)) |-> <<Kids(a)[i], Kids(b)[i]>>] \o rest, s)
       ELSE [ok |-> FALSE, s |-> s]

---------------------------------------------------------------------------
(* Field access.  e.F on an expression whose record type is not known yet is a DEFERRED constraint <<"fld", te, F, r>> (r the type  *)
(* of the access): it becomes the equation r = type of field F of R once te is resolved to a record type R<..> by the equations; *)
(* if te is never determined by the rest of the function the function is not typable (there is no row polymorphism).             *)
(* The user record types of the generated packages:                                                                              *)
SVar(k) == <<"svar", k>>
RecordFields ==
  [IR1 |-> <<<<"A", B("int")>>, <<"B", B("string")>>>>,
   IR2 |-> <<<<"Name", B("string")>>, <<"Vals", <<"slice", B("int")>>>>>>,
   IR3 |-> <<<<"C", B("int")>>, <<"D", B("string")>>>>,
   IBox |-> <<<<"Val", SVar(1)>>, <<"Tag", B("string")>>>>,
   IPair |-> <<<<"Fst", SVar(1)>>, <<"Snd", SVar(2)>>>>,
   ITagged |-> <<<<"TVal", SVar(1)>>>>,
   IRev |-> <<<<"RSecond", SVar(2)>>, <<"RFirst", SVar(1)>>>>]
RECURSIVE InstArgs(_, _)
InstArgs(t, targs) ==
  CASE t[1] = "svar"  -> targs[t[2]]
    [] t[1] \in {"base", "unit", "var"} -> t
    [] t[1] = "slice" -> <<"slice", InstArgs(t[2], targs)>>
    [] t[1] = "tuple" -> <<"tuple", [i \in 1..Len(t[2]) |-> InstArgs(t[2][i], targs)]>>
    [] t[1] = "func"  -> <<"func", [i \in 1..Len(t[2]) |-> InstArgs(t[2][i], targs)], InstArgs(t[3], targs)>>
    [] t[1] = "named" -> <<"named", t[2], [i \in 1..Len(t[3]) |-> InstArgs(t[3][i], targs)]>>
HasField(rt, f) == rt[1] = "named" /\ rt[2] \in DOMAIN RecordFields /\ \E i \in 1..Len(RecordFields[rt[2]]) : RecordFields[rt[2]][i][1] = f
FieldType(rt, f) == LET fs == RecordFields[rt[2]]
                        i == CHOOSE j \in 1..Len(fs) : fs[j][1] = f
                    IN InstArgs(fs[i][2], rt[3])

IsFld(c) == Len(c) = 4
\* constraints = equations <<t1, t2>> and deferred field constraints <<"fld", te, F, r>>, in any order
RECURSIVE SolveAll(_, _)
SolveAll(eqs, flds) ==
  LET u == Unify(eqs, NoSubst) IN
  IF ~u.ok \/ flds = <<>> THEN u
  ELSE LET ready == {i \in 1..Len(flds) : Apply(u.s, flds[i][2])[1] # "var"} IN
       IF ready = {} THEN [ok |-> FALSE, s |-> u.s]                                  \* a record type that nothing determines
       ELSE IF \E i \in ready : ~HasField(Apply(u.s, flds[i][2]), flds[i][3]) THEN [ok |-> FALSE, s |-> u.s]
       ELSE LET idx == CHOOSE i \in ready : \A j \in ready : i <= j
                neweq == <<flds[idx][4], FieldType(Apply(u.s, flds[idx][2]), flds[idx][3])>>
            IN SolveAll(Append(eqs, neweq), [j \in 1..(Len(flds) - 1) |-> IF j < idx THEN flds[j] ELSE flds[j + 1]])
Solve(cs) == SolveAll(SelectSeq(cs, LAMBDA c : ~IsFld(c)), SelectSeq(cs, IsFld))

---------------------------------------------------------------------------
(* Part 2: the emitted signature *)
\* remaining variables in order of first occurrence: parameters, then result
RECURSIVE Dedup(_, _)
Dedup(xs, seen) == IF xs = <<>> THEN <<>>
                   ELSE IF xs[1] \in seen THEN Dedup(Tail(xs), seen) ELSE <<xs[1]>> \o Dedup(Tail(xs), seen \cup {xs[1]})
IdxOf(xs, x) == CHOOSE i \in 1..Len(xs) : xs[i] = x

RECURSIVE Rename(_, _)
Rename(order, t) ==
  CASE t[1] = "var"   -> B("T" \o ToString(IdxOf(order, t[2]) - 1))
    [] t[1] \in {"base", "unit"} -> t
    [] t[1] = "slice" -> <<"slice", Rename(order, t[2])>>
    [] t[1] = "tuple" -> <<"tuple", [i \in 1..Len(t[2]) |-> Rename(order, t[2][i])]>>
    [] t[1] = "func"  -> <<"func", [i \in 1..Len(t[2]) |-> Rename(order, t[2][i])], Rename(order, t[3])>>
    [] t[1] = "named" -> <<"named", t[2], [i \in 1..Len(t[3]) |-> Rename(order, t[3][i])]>>

\* fn: [eqs, params |-> <<types>>, res |-> type]
Principal(fn) ==
  LET u == Solve(fn.eqs)
      ps == [i \in 1..Len(fn.params) |-> Apply(u.s, fn.params[i])]
      r == Apply(u.s, fn.res)
      order == Dedup(VarsSeq(ps) \o Vars(r), {})
  IN [ok |-> u.ok,
      ntparams |-> Len(order),
      resonly |-> Cardinality(VarSet(r) \ UNION {VarSet(ps[i]) : i \in 1..Len(ps)}),        \* type variables that only the result mentions
      params |-> [i \in 1..Len(ps) |-> GoText(Rename(order, ps[i]))],
      res |-> GoText(Rename(order, r)),
      \* which parameters are fully determined by the body (an annotation with that type is redundant), and the type to write
      ground |-> [i \in 1..Len(ps) |-> Vars(ps[i]) = <<>>],
      annot |-> [i \in 1..Len(ps) |-> IF Vars(ps[i]) = <<>> THEN JoinStr(PMin(ps[i], 2), "") ELSE ""],
      \* an INFORMATIVE result annotation: the principal result type with its variables instantiated (int / string in turn); the
      \* function written with ": text" after its parameters has the constraint problem of fn plus the equation ret = t
      rinst |-> LET vs == Dedup(Vars(r), {})
                    g == [x \in {vs[k] : k \in 1..Len(vs)} |-> IF (IdxOf(vs, x) + Len(fn.eqs)) % 2 = 0 THEN B("int") ELSE B("string")]
                IN IF u.ok /\ vs # <<>> THEN [has |-> TRUE, t |-> Apply(g, r), text |-> JoinStr(PMin(Apply(g, r), 2), "")]
                   ELSE [has |-> FALSE, t |-> Unit, text |-> ""]]

---------------------------------------------------------------------------
(* Part 1: the nondeterministic machine *)
VARIABLES work,    \* set of pending equations <<a, b>>
          sub,     \* substitution built so far
          failed
mvars == <<work, sub, failed>>

MInit(eqs) == work = {eqs[i] : i \in 1..Len(eqs)} /\ sub = NoSubst /\ failed = FALSE

Step(e) ==
  LET a == Apply(sub, e[1])
      b == Apply(sub, e[2]) IN
  /\ ~failed /\ e \in work
  /\ IF a = b THEN work' = work \ {e} /\ UNCHANGED <<sub, failed>>                                   \* Drop
     ELSE IF IsVar(a) \/ IsVar(b)
          THEN LET x == IF IsVar(a) THEN a ELSE b                                                    \* Orient
                   t == IF IsVar(a) THEN b ELSE a IN
               IF x[2] \in VarSet(t) THEN failed' = TRUE /\ UNCHANGED <<work, sub>>                   \* occurs check
               ELSE sub' = Bind1(sub, x[2], t) /\ work' = work \ {e} /\ UNCHANGED failed             \* Bind
     ELSE IF SameHead(a, b)
          THEN work' = (work \ {e}) \cup {<<Kids(a)[i], Kids(b)[i]>> : i \in 1..Len(Kids(a))} /\ UNCHANGED <<sub, failed>>    \* Decompose
     ELSE failed' = TRUE /\ UNCHANGED <<work, sub>>                                                  \* Clash

MNext == \E e \in work : Step(e)
Terminal == work = {} \/ failed
=============================================================================
