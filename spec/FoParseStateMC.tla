---------------------------- MODULE FoParseStateMC ----------------------------
(* a small abstract package: 2 types (one group with forward references), 4 lets; every definition alone needs < Limit *)
EXTENDS FoParseState, TLC
MCDefs == {"T1", "T2", "f", "g", "h", "k"}
MCDeps == [d \in MCDefs |-> CASE d = "T2" -> {"T1"} [] d = "g" -> {"f", "T2"} [] d = "h" -> {"g", "k"} [] OTHER -> {}]
MCNeedTva == [d \in MCDefs |-> IF d \in {"T1", "T2"} THEN 0 ELSE 3]
MCNeedFwd == [d \in MCDefs |-> IF d \in {"T1", "T2"} THEN 2 ELSE 0]
MCIsType == [d \in MCDefs |-> d \in {"T1", "T2"}]
\* local names of each definition; "k" (unrelated to g and h) is also used as a local name inside g
MCLocals == [d \in MCDefs |-> CASE d = "g" -> {"k", "x"} [] d = "h" -> {"x"} [] OTHER -> {}]
NoDev == {}
DevTva == {"NoTvaReset"}
DevFwd == {"NoFwdReset"}
DevLeak == {"ScopeLeak"}
DevPop == {"NoPop"}
=============================================================================
