--------------------------- MODULE FoTypeExprTrace ---------------------------
(* validates the Go types read back from what the real fc emitted against GoText *)
EXTENDS FoTypeExpr, Json
CONSTANTS TraceFile
Trace == ndJsonDeserialize(TraceFile)
VARIABLES l, bad
Init == l = 1 /\ bad = <<>>
Step ==
  /\ l <= Len(Trace)
  /\ LET t == Trace[l]
         ok == t.status = "ok" /\ t.got = GoText(t.term)
     IN bad' = IF ok THEN bad ELSE Append(bad, l)
  /\ l' = l + 1
  /\ IF l = Len(Trace) THEN PrintT(<<"TRACE-END", Len(Trace), bad'>>) ELSE TRUE
Spec == Init /\ [][Step]_<<l, bad>>
=============================================================================
