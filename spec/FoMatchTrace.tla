---------------------------- MODULE FoMatchTrace ----------------------------
(* validates observed runs of the real fc (and of the emitted programs) against FoMatch *)
EXTENDS FoMatch, Json
CONSTANTS TraceFile
Trace == ndJsonDeserialize(TraceFile)
VARIABLES l, bad
Init == l = 1 /\ bad = <<>>
Step ==
  /\ l <= Len(Trace)
  /\ LET t == Trace[l]
         ok == RunOK(t) /\ (t.ran => DispatchOK(t))
     IN bad' = IF ok THEN bad ELSE Append(bad, l)
  /\ l' = l + 1
  /\ IF l = Len(Trace) THEN PrintT(<<"TRACE-END", Len(Trace), bad'>>) ELSE TRUE
Spec == Init /\ [][Step]_<<l, bad>>
=============================================================================
