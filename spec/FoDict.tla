------------------------------- MODULE FoDict -------------------------------
(***************************************************************************)
(* pkg/dict as a finite-map machine (C14).  A dictionary is a mutable      *)
(* object: Add updates it in place.  The machine keeps ND independent      *)
(* dictionaries so that cross-talk between instances is observable.        *)
(* Every operation is an action that also records the reply the            *)
(* specification prescribes; Keys/Values/KVs reply with a BAG (each entry  *)
(* exactly once, in any order), so their reply is a predicate, not a value.*)
(***************************************************************************)
EXTENDS Integers, Sequences, FiniteSets, SequencesExt, TLC, Json

CONSTANTS Keys, Vals, ND, MaxSteps, MaxPairs

VARIABLES dicts,   \* dicts[d] : function from a finite subset of Keys to Vals
          hist, steps

vars == <<dicts, hist, steps>>

Empty == [k \in {} |-> 0]
Put(m, key, val) == [k \in (DOMAIN m) \cup {key} |-> IF k = key THEN val ELSE m[k]]

H(op, d, key, val, pairs) == [op |-> op, d |-> d, key |-> key, val |-> val, pairs |-> pairs]

RECURSIVE FromPairs(_, _)
FromPairs(m, ps) == IF ps = <<>> THEN m ELSE FromPairs(Put(m, ps[1][1], ps[1][2]), Tail(ps))   \* last value per key wins

Count(s, x) == Cardinality({i \in 1..Len(s) : s[i] = x})

\* replies
ReplyOK(op, m, key, ret) ==
  CASE op = "ContainsKey" -> ret = (key \in DOMAIN m)
    [] op = "TryFind"     -> ret = IF key \in DOMAIN m THEN <<m[key], TRUE>> ELSE <<0, FALSE>>
    [] op = "Item"        -> key \in DOMAIN m /\ ret = m[key]
    [] op = "Keys"        -> Len(ret) = Cardinality(DOMAIN m) /\ ToSet(ret) = DOMAIN m
    [] op = "Values"      -> /\ Len(ret) = Cardinality(DOMAIN m)
                             /\ \A v \in Vals : Count(ret, v) = Cardinality({k \in DOMAIN m : m[k] = v})
    [] op = "KVs"         -> /\ Len(ret) = Cardinality(DOMAIN m)
                             /\ ToSet(ret) = {<<k, m[k]>> : k \in DOMAIN m}
    [] OTHER              -> TRUE

Log(rec) == hist' = Append(hist, rec) /\ steps' = steps + 1

DoNew(d)           == dicts' = [dicts EXCEPT ![d] = Empty] /\ Log(H("New", d, "", 0, <<>>))
DoAdd(d, key, val) == dicts' = [dicts EXCEPT ![d] = Put(@, key, val)] /\ Log(H("Add", d, key, val, <<>>))
DoToDict(d, ps)    == dicts' = [dicts EXCEPT ![d] = FromPairs(Empty, ps)] /\ Log(H("ToDict", d, "", 0, ps))
DoQuery(op, d, key) ==
  /\ (op = "Item" => key \in DOMAIN dicts[d])      \* Item is only specified on present keys
  /\ UNCHANGED dicts /\ Log(H(op, d, key, 0, <<>>))

Init == dicts = [d \in 1..ND |-> Empty] /\ hist = <<>> /\ steps = 0

PairSeqs == UNION {[1..n -> Keys \X Vals] : n \in 0..MaxPairs}

NextOver(D, K, V, PS) ==
  /\ steps < MaxSteps
  /\ \E d \in D :
       \/ DoNew(d)
       \/ \E key \in K : \/ \E val \in V : DoAdd(d, key, val)
                         \/ \E op \in {"ContainsKey", "TryFind", "Item"} : DoQuery(op, d, key)
       \/ \E op \in {"Keys", "Values", "KVs"} : DoQuery(op, d, "")
       \/ \E ps \in PS : DoToDict(d, ps)

Next == NextOver(1..ND, Keys, Vals, PairSeqs)
Finish == steps = MaxSteps /\ steps' = steps + 1 /\ UNCHANGED <<dicts, hist>>
\* (the dependence on the variable steps keeps TLC from caching the draw as a constant)
Rnd(S) == RandomElement({x \in S : steps >= 0})
SimNext == \/ NextOver({Rnd(1..ND)}, {Rnd(Keys)}, {Rnd(Vals)}, {Rnd(PairSeqs)})
           \/ Finish
Spec == Init /\ [][Next \/ Finish]_vars
SimSpec == Init /\ [][SimNext]_vars

\* finite-map laws of the machine itself
TypeOK == \A d \in 1..ND : DOMAIN dicts[d] \subseteq Keys /\ \A k \in DOMAIN dicts[d] : dicts[d][k] \in Vals
LastAddWins ==
  \A d \in 1..ND : \A k \in Keys :
     LET adds == {i \in 1..Len(hist) : hist[i].d = d /\ hist[i].op \in {"Add", "New", "ToDict"} /\
                                        (hist[i].op = "Add" => hist[i].key = k)}
     IN adds # {} =>
        LET last == CHOOSE i \in adds : \A j \in adds : j <= i IN
        CASE hist[last].op = "Add" -> k \in DOMAIN dicts[d] /\ dicts[d][k] = hist[last].val
          [] hist[last].op = "New" -> k \notin DOMAIN dicts[d]
          [] OTHER -> TRUE

View == <<dicts, steps>>
ExportHist == steps = MaxSteps + 1 => PrintT(<<"HIST", ToJson(hist)>>)
=============================================================================
