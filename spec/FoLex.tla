-------------------------------- MODULE FoLex --------------------------------
(***************************************************************************)
(* The character-level scanners of fc (fc/wrapper.go: scanTokenAt and the  *)
(* scan*Token functions, searchForward) -- C16 (every scanner loop         *)
(* terminates and stays inside the buffer), C06/C11 (what a token is).     *)
(*                                                                         *)
(* A buffer is a sequence of one-character strings; positions are 0-based  *)
(* as in the Go code (At(buf, i) = buf[i + 1]).  Every loop of the Go code *)
(* is a recursive operator whose recursion carries the loop index; a loop  *)
(* that can leave the buffer without terminating is represented by the     *)
(* result RUNAWAY (the model never recurses past Len(buf) + 1), a Go panic *)
(* (explicit panic(...) or index out of range, both recovered by           *)
(* OnParseError into a diagnostic) by PANIC.                               *)
(* Scan(buf, pos) = [tt |-> token type, begin, len] | PANIC | RUNAWAY.     *)
(*                                                                         *)
(* Deviations = {"NoEofGuard"} is the code before the fix f283373 (the     *)
(* line-comment loop did not test the end of the buffer): TLC then finds   *)
(* the run-away on the buffer "//".                                        *)
(***************************************************************************)
EXTENDS Integers, Sequences, FiniteSets, TLC

CONSTANTS Deviations

PANIC == [tt |-> "PANIC", begin |-> 0, len |-> 0]
RUNAWAY == [tt |-> "RUNAWAY", begin |-> 0, len |-> 0]
Tok(tt, begin, len) == [tt |-> tt, begin |-> begin, len |-> len]

At(buf, i) == buf[i + 1]
IsCharAt(buf, at, c) == at < Len(buf) /\ At(buf, at) = c
IsStrAt(buf, at, s) == at + Len(s) <= Len(buf) /\ \A k \in 1..Len(s) : buf[at + k] = s[k]

Lower == {"a", "b", "c", "d", "e", "f", "g", "h", "i", "j", "k", "l", "m", "n", "o", "p", "q", "r", "s", "t", "u", "v", "w", "x", "y", "z"}
Upper == {"A", "B", "C", "X", "Y", "Z"}          \* (the explored alphabets only use a few letters)
Digits == {"0", "1", "2", "3", "4", "5", "6", "7", "8", "9"}
IsAlpha(c) == c \in Lower \cup Upper
IsNumber(c) == c \in Digits
IsAlnum(c) == IsAlpha(c) \/ IsNumber(c)

\* searchForward: first position >= start where s occurs, -1 if none
SearchForward(buf, start, s) ==
  LET hits == {p \in start..(Len(buf) - 1) : IsStrAt(buf, p, s)}
  IN IF hits = {} THEN 0 - 1 ELSE CHOOSE p \in hits : \A q \in hits : p <= q

---------------------------------------------------------------------------
(* scanSpaceToken: blanks, tabs, block comments and line comments fold into one SPACE token *)
RECURSIVE SkipChar(_, _, _), ToEol(_, _), SpaceLoop(_, _, _)
SkipChar(buf, at, c) == IF IsCharAt(buf, at, c) THEN SkipChar(buf, at + 1, c) ELSE at

\* `for ; !isCharAt(buf, pos+i, '\n'); i++ {}` -- with the end-of-buffer guard of the fix
ToEol(buf, at) ==
  IF at >= Len(buf)
  THEN (IF "NoEofGuard" \in Deviations THEN 0 - 3 ELSE at)      \* -3: the loop runs away past the end of the buffer
  ELSE IF At(buf, at) = "\n" THEN at ELSE ToEol(buf, at + 1)

\* returns the length i of the token, -2 for panic("No comment end found."), -3 for a run-away
SpaceLoop(buf, pos, i) ==
  IF ~(IsCharAt(buf, pos + i, " ") \/ IsStrAt(buf, pos + i, <<"/", "*">>) \/ IsStrAt(buf, pos + i, <<"/", "/">>) \/ IsCharAt(buf, pos + i, "\t"))
  THEN i
  ELSE LET a1 == SkipChar(buf, pos + i, " ")
           a2 == SkipChar(buf, a1, "\t")
           a3 == IF IsStrAt(buf, a2, <<"/", "*">>)
                 THEN (LET end == SearchForward(buf, a2 + 2, <<"*", "/">>) IN IF end = 0 - 1 THEN 0 - 2 ELSE end + 2)
                 ELSE a2
       IN IF a3 = 0 - 2 THEN 0 - 2
          ELSE LET a4 == IF IsStrAt(buf, a3, <<"/", "/">>) THEN ToEol(buf, a3) ELSE a3
               IN IF a4 = 0 - 3 THEN 0 - 3 ELSE SpaceLoop(buf, pos, a4 - pos)

ScanSpace(buf, pos) ==
  LET i == SpaceLoop(buf, pos, 0)
  IN IF i = 0 - 2 THEN PANIC ELSE IF i = 0 - 3 THEN RUNAWAY ELSE Tok("SPACE", pos, i)

(* scanIdentifierToken *)
RECURSIVE IdentLen(_, _, _)
IdentLen(buf, pos, i) ==
  IF pos + i = Len(buf) THEN i
  ELSE IF IsAlnum(At(buf, pos + i)) \/ At(buf, pos + i) = "_" THEN IdentLen(buf, pos, i + 1) ELSE i

Keywords == [let |-> "LET", package |-> "PACKAGE", import |-> "IMPORT", type |-> "TYPE", of |-> "OF", match |-> "MATCH",
             with |-> "WITH", true |-> "TRUE", false |-> "FALSE", package_info |-> "PACKAGE_INFO", and |-> "AND", if |-> "IF",
             then |-> "THEN", else |-> "ELSE", elif |-> "ELIF", not |-> "NOT", fun |-> "FUN"]
RECURSIVE CatChars(_)
CatChars(cs) == IF cs = <<>> THEN "" ELSE cs[1] \o CatChars(Tail(cs))

ScanIdent(buf, pos) ==
  LET n == IdentLen(buf, pos, 1)
      text == CatChars(SubSeq(buf, pos + 1, pos + n))
  IN Tok(IF text = "_" THEN "UNDER_SCORE" ELSE IF text \in DOMAIN Keywords THEN Keywords[text] ELSE "IDENTIFIER", pos, n)

(* scanIntImmToken: reads buf[pos+i] AFTER the last digit, so digits at the very end of the buffer index out of range *)
RECURSIVE IntLen(_, _, _)
IntLen(buf, pos, i) ==
  IF pos + i >= Len(buf) THEN 0 - 2                      \* index out of range: Go panic
  ELSE IF IsNumber(At(buf, pos + i)) THEN IntLen(buf, pos, i + 1) ELSE i
ScanInt(buf, pos) == LET n == IntLen(buf, pos, 1) IN IF n = 0 - 2 THEN PANIC ELSE Tok("INT_IMM", pos, n)

(* scanStringLiteralToken: pos is the opening quote; escapes are copied as pairs *)
RECURSIVE StrLen(_, _, _)
StrLen(buf, pos, i) ==
  IF pos + i = Len(buf) THEN 0 - 2                       \* panic("unclosed string literal")
  ELSE IF At(buf, pos + i) = "\"" THEN i + 1
  ELSE IF At(buf, pos + i) = "\\" THEN (IF pos + i + 1 = Len(buf) THEN 0 - 2 ELSE StrLen(buf, pos, i + 2))
  ELSE StrLen(buf, pos, i + 1)
ScanString(buf, pos, tt) == LET n == StrLen(buf, pos, 1) IN IF n = 0 - 2 THEN PANIC ELSE Tok(tt, pos, n)

(* scanRawStringLiteralToken: up to the closing backtick *)
RECURSIVE RawLen(_, _, _)
RawLen(buf, pos, i) ==
  IF pos + i = Len(buf) THEN 0 - 2                       \* panic("unclosed raw string")
  ELSE IF At(buf, pos + i) = "`" THEN i + 1 ELSE RawLen(buf, pos, i + 1)
ScanRaw(buf, pos, tt) == LET n == RawLen(buf, pos, 1) IN IF n = 0 - 2 THEN PANIC ELSE Tok(tt, pos, n)

---------------------------------------------------------------------------
OneChar == [x \in {"=", "\n", "(", ")", "{", "}", "[", "]", ":", ",", ".", ";", "+", "*"} |->
              CASE x = "=" -> "EQ" [] x = "\n" -> "EOL" [] x = "(" -> "LPAREN" [] x = ")" -> "RPAREN" [] x = "{" -> "LBRACE"
                [] x = "}" -> "RBRACE" [] x = "[" -> "LSBRACKET" [] x = "]" -> "RSBRACKET" [] x = ":" -> "COLON" [] x = "," -> "COMMA"
                [] x = "." -> "DOT" [] x = ";" -> "SEMICOLON" [] x = "+" -> "PLUS" [] x = "*" -> "ASTER"]

\* scanTokenAt
Scan(buf, pos) ==
  IF pos = Len(buf) THEN Tok("EOF", pos, 0)
  ELSE LET b == At(buf, pos) IN
       CASE b = " " \/ b = "\t" -> ScanSpace(buf, pos)
         [] b = "/" -> IF IsCharAt(buf, pos + 1, "*") \/ IsCharAt(buf, pos + 1, "/") THEN ScanSpace(buf, pos) ELSE Tok("SLASH", pos, 1)
         [] IsAlpha(b) \/ b = "_" -> ScanIdent(buf, pos)
         [] IsNumber(b) -> ScanInt(buf, pos)
         [] b = "\"" -> ScanString(buf, pos, "STRING")
         [] b = "`" -> ScanRaw(buf, pos, "STRING")
         [] b = "$" -> IF IsCharAt(buf, pos + 1, "\"") THEN ScanString(buf, pos + 1, "SINTERP")       \* the token begins after the $
                       ELSE IF IsCharAt(buf, pos + 1, "`") THEN ScanRaw(buf, pos + 1, "SINTERP")
                       ELSE PANIC
         [] b \in DOMAIN OneChar -> Tok(OneChar[b], pos, 1)
         [] b = "|" -> IF IsCharAt(buf, pos + 1, ">") THEN Tok("PIPE", pos, 2)
                       ELSE IF IsCharAt(buf, pos + 1, "|") THEN Tok("BARBAR", pos, 2) ELSE Tok("BAR", pos, 1)
         [] b = "<" -> IF IsCharAt(buf, pos + 1, ">") THEN Tok("BRACKET", pos, 2)
                       ELSE IF IsCharAt(buf, pos + 1, "=") THEN Tok("LE", pos, 2) ELSE Tok("LT", pos, 1)
         [] b = ">" -> IF IsCharAt(buf, pos + 1, "=") THEN Tok("GE", pos, 2) ELSE Tok("GT", pos, 1)
         [] b = "&" -> IF IsCharAt(buf, pos + 1, "&") THEN Tok("AMPAMP", pos, 2) ELSE Tok("AMP", pos, 1)
         [] b = "-" -> IF IsCharAt(buf, pos + 1, ">") THEN Tok("RARROW", pos, 2) ELSE Tok("MINUS", pos, 1)
         [] OTHER -> PANIC

---------------------------------------------------------------------------
(* C16 on the scanner: every call terminates inside the buffer, and every token other than EOF consumes at least one character, *)
(* so the loops of nextToken / the parser that advance by token length make progress                                             *)
Safe(buf, pos) ==
  LET t == Scan(buf, pos) IN
  /\ t # RUNAWAY
  /\ (t # PANIC => /\ t.begin >= pos /\ t.begin + t.len <= Len(buf)
                   /\ (t.tt # "EOF" => t.len >= 1))

Buffers(A, n) == UNION {[1..k -> A] : k \in 0..n}
AllSafe(A, n) == \A buf \in Buffers(A, n) : \A pos \in 0..Len(buf) : Safe(buf, pos)
=============================================================================
