----------------------------- MODULE FoInferCases -----------------------------
(* principal types of the functions of a file (constraints from tools/vlib/infgen.py), exported for the harness *)
EXTENDS FoInfer, Json, SequencesExt
CONSTANTS FnFile, OutFile
Fns == ndJsonDeserialize(FnFile)
Rows == [i \in 1..Len(Fns) |-> [name |-> Fns[i].name] @@ Principal(Fns[i])]
ASSUME ndJsonSerialize(OutFile, Rows)
ASSUME PrintT(<<"CASES", Len(Fns)>>)
Init == work = {} /\ sub = NoSubst /\ failed = FALSE
Next == UNCHANGED mvars
=============================================================================
