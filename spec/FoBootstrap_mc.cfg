CONSTANTS
  Listed <- MCListed
  CheckedIn <- MCCheckedIn
SPECIFICATION Spec
INVARIANTS Certified CompareAfterFmt Gen2FromGen1
CHECK_DEADLOCK FALSE
