-------------------------------- MODULE FoSem --------------------------------
(***************************************************************************)
(* The semantics of Folang programs (C01, C03, C17): strict, left to       *)
(* right, lexically scoped.                                                *)
(*                                                                         *)
(* Programs are abstract syntax trees read from JSON (the shape the        *)
(* generator tools/fogen emits; see Appendix A of DESIGN.md):              *)
(*   program  [id, types, funcs, main]                                     *)
(*   types    records  [k |-> "record", name, fields |-> <<names>>]        *)
(*            unions   [k |-> "union", name, cases |-> <<[n, p]>>]         *)
(*   funcs    [name, params |-> <<names>>, body |-> block]                 *)
(*   block    [stmts |-> <<stmt>>, fin |-> expr]                           *)
(* The evaluator is big-step and threads the OBSERVABLE OUTPUT (the        *)
(* sequence of probe / mark events) through every sub-evaluation, so the   *)
(* order of side effects, which operands and branches are evaluated at     *)
(* all, and which arm a match takes are all visible in its result:         *)
(*   Eval(e, env, out)  =  [st |-> "ok" | "panic", v |-> value, out]       *)
(* Values: <<"int", n>> <<"str", s>> <<"bool", b>> <<"unit">>              *)
(*   <<"tup", vs>> <<"sl", vs>> <<"rec", Type, vs>> (declaration order)    *)
(*   <<"uni", Union, Case, <<>> | <<payload>>>>                            *)
(*   <<"clo", params, body, env, supplied>>  <<"bi", name, supplied>>      *)
(* A program's TRACE is the output of its main block followed by the       *)
(* status.  FoSemTrace compares it, event by event, with the trace         *)
(* recorded from the Go program that fc / tinyfo emitted.                  *)
(***************************************************************************)
EXTENDS Integers, Sequences, FiniteSets, TLC

VARIABLE prog       \* the program being evaluated (a record as described above); constant while it runs

---------------------------------------------------------------------------
(* results *)
Ok(v, out) == [st |-> "ok", v |-> v, out |-> out]
Panic(msg, out) == [st |-> "panic", v |-> <<"str", msg>>, out |-> out]
Then(r, K(_)) == IF r.st # "ok" THEN r ELSE K(r)

I(n) == <<"int", n>>
S(s) == <<"str", s>>
B(b) == <<"bool", b>>
U == <<"unit">>

Ext(env, x, v) == [y \in (DOMAIN env) \cup {x} |-> IF y = x THEN v ELSE env[y]]
RECURSIVE ExtAll(_, _, _)
ExtAll(env, xs, vs) == IF xs = <<>> THEN env
                       ELSE ExtAll(IF xs[1] = "_" THEN env ELSE Ext(env, xs[1], vs[1]), Tail(xs), Tail(vs))
Empty == [x \in {} |-> U]
\* an absent optional part is the node [k |-> "none"]; blocks have no field k
IsNone(x) == "k" \in DOMAIN x /\ x.k = "none"

(* program tables *)
TypeByName(n) == prog.types[CHOOSE i \in 1..Len(prog.types) : prog.types[i].name = n]
FuncNames == {prog.funcs[i].name : i \in 1..Len(prog.funcs)}
FuncByName(n) == prog.funcs[CHOOSE i \in 1..Len(prog.funcs) : prog.funcs[i].name = n]
IndexOf(seq, x) == CHOOSE i \in 1..Len(seq) : seq[i] = x
\* foreign functions declared with package_info (C03): [name (as written in Folang, e.g. "ext.F"), arity, ret |-> literal expression].
\* A foreign function is modelled as: record its arguments (an event "call:<name>"), return the fixed value.
ExternNames == {prog.externs[i].name : i \in 1..Len(prog.externs)}
ExternByName(n) == prog.externs[CHOOSE i \in 1..Len(prog.externs) : prog.externs[i].name = n]

---------------------------------------------------------------------------
(* canonical display of a value: the same text is produced by the reflection decoder harness/probe/probe.go *)
RECURSIVE Show(_), ShowSeq(_, _)
ShowSeq(vs, sep) == IF vs = <<>> THEN "" ELSE IF Len(vs) = 1 THEN Show(vs[1]) ELSE Show(vs[1]) \o sep \o ShowSeq(Tail(vs), sep)
Show(v) ==
  CASE v[1] = "int"  -> "I" \o ToString(v[2])
    [] v[1] = "str"  -> "S\"" \o v[2] \o "\""
    [] v[1] = "bool" -> IF v[2] THEN "Btrue" ELSE "Bfalse"
    [] v[1] = "unit" -> "U"
    [] v[1] = "tup"  -> "T(" \o ShowSeq(v[2], ",") \o ")"
    [] v[1] = "sl"   -> "L[" \o ShowSeq(v[2], ",") \o "]"
    [] v[1] = "rec"  -> LET fs == TypeByName(v[2]).fields
                            RECURSIVE F(_)
                            F(i) == IF i > Len(fs) THEN "" ELSE fs[i] \o "=" \o Show(v[3][i]) \o (IF i < Len(fs) THEN ";" ELSE "") \o F(i + 1)
                        IN "R:" \o v[2] \o "{" \o F(1) \o "}"
    [] v[1] = "uni"  -> "U:" \o v[2] \o "_" \o v[3] \o (IF v[4] = <<>> THEN "" ELSE "(" \o Show(v[4][1]) \o ")")
    [] OTHER         -> "F"

\* display of a value inside an interpolated string: decimal for ints, the string itself, Go %v otherwise (bool only here)
Disp(v) == CASE v[1] = "int" -> ToString(v[2]) [] v[1] = "str" -> v[2] [] v[1] = "bool" -> (IF v[2] THEN "true" ELSE "false")

(* structural equality on first-order values *)
RECURSIVE ValEq(_, _)
ValEq(a, b) ==
  CASE a[1] \in {"int", "str", "bool"} -> a[2] = b[2]
    [] a[1] = "unit" -> TRUE
    [] a[1] \in {"tup", "sl"} -> Len(a[2]) = Len(b[2]) /\ \A i \in 1..Len(a[2]) : ValEq(a[2][i], b[2][i])
    [] a[1] = "rec" -> \A i \in 1..Len(a[3]) : ValEq(a[3][i], b[3][i])
    [] a[1] = "uni" -> a[3] = b[3] /\ Len(a[4]) = Len(b[4]) /\ \A i \in 1..Len(a[4]) : ValEq(a[4][i], b[4][i])

---------------------------------------------------------------------------
BuiltinArity(f) ==
  CASE f \in {"slice.Length", "slice.Len", "slice.Head", "slice.Last", "slice.Tail", "slice.PopLast", "slice.IsEmpty", "slice.IsNotEmpty",
              "slice.Sort", "slice.Distinct", "frt.Fst", "frt.Snd", "strings.Length", "strings.IsEmpty", "strings.IsNotEmpty"} -> 1
    [] f \in {"slice.Take", "slice.Skip", "slice.Item", "slice.Append", "slice.PushLast", "slice.PushHead", "slice.Map", "slice.Filter",
              "slice.Forall", "slice.Forany", "slice.Iter", "slice.Zip", "slice.Collect", "strings.Concat", "strings.AppendTail",
              "strings.AppendHead", "strings.HasPrefix", "strings.HasSuffix", "frt.Sprintf1"} -> 2
    [] f \in {"slice.Fold", "strings.EncloseWith"} -> 3

IsBuiltin(f) == f \in {"slice.Length", "slice.Len", "slice.Head", "slice.Last", "slice.Tail", "slice.PopLast", "slice.IsEmpty", "slice.IsNotEmpty",
                       "slice.Sort", "slice.Distinct", "frt.Fst", "frt.Snd", "strings.Length", "strings.IsEmpty", "strings.IsNotEmpty",
                       "slice.Take", "slice.Skip", "slice.Item", "slice.Append", "slice.PushLast", "slice.PushHead", "slice.Map", "slice.Filter",
                       "slice.Forall", "slice.Forany", "slice.Iter", "slice.Zip", "slice.Collect", "strings.Concat", "strings.AppendTail",
                       "strings.AppendHead", "strings.HasPrefix", "strings.HasSuffix", "frt.Sprintf1", "slice.Fold", "strings.EncloseWith"}

RECURSIVE StrLen(_)
StrLen(s) == Len(s)          \* TLC: Len on strings

RECURSIVE JoinStrs(_, _)
JoinStrs(vs, sep) == IF vs = <<>> THEN "" ELSE IF Len(vs) = 1 THEN vs[1][2] ELSE vs[1][2] \o sep \o JoinStrs(Tail(vs), sep)

RECURSIVE DistinctV(_, _)
DistinctV(vs, seen) == IF vs = <<>> THEN <<>>
                       ELSE IF \E i \in 1..Len(seen) : ValEq(seen[i], vs[1]) THEN DistinctV(Tail(vs), seen)
                       ELSE <<vs[1]>> \o DistinctV(Tail(vs), Append(seen, vs[1]))

---------------------------------------------------------------------------
RECURSIVE Eval(_, _, _), EvalBlock(_, _, _), EvalStmts(_, _, _, _), EvalSeq(_, _, _), ApplyVal(_, _, _), Builtin(_, _, _),
          MapCB(_, _, _, _), FilterCB(_, _, _, _), FoldCB(_, _, _, _), AllAnyCB(_, _, _, _), IterCB(_, _, _), CollectCB(_, _, _, _),
          EvalArms(_, _, _, _), EvalSArms(_, _, _, _), EvalInterp(_, _, _, _), EvalFields(_, _, _)

\* a list of expressions, left to right; result value is <<"tup", values>>
EvalSeq(es, env, out) ==
  IF es = <<>> THEN Ok(<<"tup", <<>>>>, out)
  ELSE Then(Eval(es[1], env, out), LAMBDA r1 :
       Then(EvalSeq(Tail(es), env, r1.out), LAMBDA r2 : Ok(<<"tup", <<r1.v>> \o r2.v[2]>>, r2.out)))

BinOp(op, a, b, out) ==
  CASE op = "+"  -> IF a[1] = "str" THEN Ok(S(a[2] \o b[2]), out) ELSE Ok(I(a[2] + b[2]), out)
    [] op = "-"  -> Ok(I(a[2] - b[2]), out)
    [] op = "*"  -> Ok(I(a[2] * b[2]), out)
    [] op = "/"  -> IF b[2] = 0 THEN Panic("integer divide by zero", out)
                    ELSE LET q == IF (a[2] >= 0) = (b[2] > 0) THEN a[2] \div b[2]
                                  ELSE 0 - ((IF a[2] < 0 THEN 0 - a[2] ELSE a[2]) \div (IF b[2] < 0 THEN 0 - b[2] ELSE b[2]))
                         IN Ok(I(IF a[2] >= 0 /\ b[2] > 0 THEN a[2] \div b[2] ELSE
                                 IF a[2] < 0 /\ b[2] < 0 THEN (0 - a[2]) \div (0 - b[2]) ELSE q), out)       \* Go truncates toward zero
    [] op = "<"  -> Ok(B(a[2] < b[2]), out)
    [] op = ">"  -> Ok(B(a[2] > b[2]), out)
    [] op = "<=" -> Ok(B(a[2] <= b[2]), out)
    [] op = ">=" -> Ok(B(a[2] >= b[2]), out)
    [] op = "="  -> Ok(B(ValEq(a, b)), out)
    [] op = "<>" -> Ok(B(~ValEq(a, b)), out)

Eval(e, env, out) ==
  CASE e.k = "int"  -> Ok(I(e.v), out)
    [] e.k = "str"  -> Ok(S(e.v), out)
    [] e.k = "bool" -> Ok(B(e.v), out)
    [] e.k = "unit" -> Ok(U, out)
    [] e.k = "var"  -> IF e.x \in DOMAIN env THEN Ok(env[e.x], out)
                       ELSE IF e.x \in FuncNames THEN Ok(<<"clo", FuncByName(e.x).params, FuncByName(e.x).body, Empty, <<>>>>, out)
                       ELSE IF e.x \in ExternNames THEN Ok(<<"ext", e.x, <<>>>>, out)
                       ELSE Ok(<<"bi", e.x, <<>>>>, out)
    [] e.k = "bin"  -> Then(Eval(e.a, env, out), LAMBDA r1 :           \* strict, left operand first
                       Then(Eval(e.b, env, r1.out), LAMBDA r2 : BinOp(e.op, r1.v, r2.v, r2.out)))
    [] e.k = "and"  -> Then(Eval(e.a, env, out), LAMBDA r1 :           \* only the needed operand
                       IF r1.v[2] THEN Eval(e.b, env, r1.out) ELSE Ok(B(FALSE), r1.out))
    [] e.k = "or"   -> Then(Eval(e.a, env, out), LAMBDA r1 :
                       IF r1.v[2] THEN Ok(B(TRUE), r1.out) ELSE Eval(e.b, env, r1.out))
    [] e.k = "not"  -> Then(Eval(e.a, env, out), LAMBDA r1 : Ok(B(~r1.v[2]), r1.out))
    [] e.k = "if"   -> Then(Eval(e.c, env, out), LAMBDA r1 :           \* only the taken branch
                       IF r1.v[2] THEN EvalBlock(e.t, env, r1.out)
                       ELSE IF IsNone(e.e) THEN Ok(U, r1.out) ELSE EvalBlock(e.e, env, r1.out))
    [] e.k = "umatch" -> Then(Eval(e.target, env, out), LAMBDA r1 : EvalArms(e, r1.v, env, r1.out))
    [] e.k = "smatch" -> Then(Eval(e.target, env, out), LAMBDA r1 : EvalSArms(e, r1.v, env, r1.out))
    [] e.k = "app"  -> Then(EvalSeq(e.args, env, out), LAMBDA r1 :     \* arguments left to right, then the call
                       Then(Eval([k |-> "var", x |-> e.f], env, r1.out), LAMBDA r2 : ApplyVal(r2.v, r1.v[2], r2.out)))
    [] e.k = "lam"  -> Ok(<<"clo", e.params, e.body, env, <<>>>>, out)
    [] e.k = "ctor" -> IF IsNone(e.arg) THEN Ok(<<"uni", e.union, e.case, <<>>>>, out)
                       ELSE Then(Eval(e.arg, env, out), LAMBDA r1 : Ok(<<"uni", e.union, e.case, <<r1.v>>>>, r1.out))
    [] e.k = "rec"  -> Then(EvalFields(e.fields, env, out), LAMBDA r1 :       \* initialisers in SOURCE order
                       LET decl == TypeByName(e.name).fields
                           src == [i \in 1..Len(e.fields) |-> e.fields[i].n]
                       IN Ok(<<"rec", e.name, [i \in 1..Len(decl) |-> r1.v[2][IndexOf(src, decl[i])]]>>, r1.out))
    [] e.k = "field" -> Then(Eval(e.e, env, out), LAMBDA r1 :
                        Ok(r1.v[3][IndexOf(TypeByName(r1.v[2]).fields, e.n)], r1.out))
    [] e.k = "tuple" -> Then(EvalSeq(e.es, env, out), LAMBDA r1 : Ok(<<"tup", r1.v[2]>>, r1.out))
    [] e.k = "slice" -> Then(EvalSeq(e.es, env, out), LAMBDA r1 : Ok(<<"sl", r1.v[2]>>, r1.out))
    [] e.k = "pipe" -> Then(Eval(e.a, env, out), LAMBDA r1 :           \* the piped value first, then the stage
                       Then(Eval(e.b, env, r1.out), LAMBDA r2 : ApplyVal(r2.v, <<r1.v>>, r2.out)))
    [] e.k = "interp" -> EvalInterp(e.segs, env, out, "")
    [] e.k = "probe" -> Then(Eval(e.e, env, out), LAMBDA r1 : Ok(r1.v, Append(r1.out, <<e.tag, Show(r1.v)>>)))

EvalFields(fs, env, out) ==
  IF fs = <<>> THEN Ok(<<"tup", <<>>>>, out)
  ELSE Then(Eval(fs[1].e, env, out), LAMBDA r1 :
       Then(EvalFields(Tail(fs), env, r1.out), LAMBDA r2 : Ok(<<"tup", <<r1.v>> \o r2.v[2]>>, r2.out)))

EvalInterp(segs, env, out, acc) ==
  IF segs = <<>> THEN Ok(S(acc), out)
  ELSE IF segs[1].k = "lit" THEN EvalInterp(Tail(segs), env, out, acc \o segs[1].v)
  ELSE EvalInterp(Tail(segs), env, out, acc \o Disp(env[segs[1].x]))

\* the arm of the constructor the value was built with, else the default; no arm and no default: the emitted panic
EvalArms(e, v, env, out) ==
  LET hits == {i \in 1..Len(e.arms) : e.arms[i].case = v[3]} IN
  IF hits # {}
  THEN LET a == e.arms[CHOOSE i \in hits : \A j \in hits : i <= j]
       IN EvalBlock(a.body, IF a.bind \in {"", "_"} THEN env ELSE Ext(env, a.bind, v[4][1]), out)
  ELSE IF IsNone(e.dflt) THEN Panic("Union pattern fail. Never reached here.", out)
  ELSE EvalBlock(e.dflt, env, out)

EvalSArms(e, v, env, out) ==
  LET hits == {i \in 1..Len(e.arms) : e.arms[i].lit = v[2]} IN
  IF hits # {} THEN EvalBlock(e.arms[CHOOSE i \in hits : \A j \in hits : i <= j].body, env, out)
  ELSE IF e.last.k = "var" THEN EvalBlock(e.last.body, Ext(env, e.last.x, v), out)
  ELSE EvalBlock(e.last.body, env, out)

EvalBlock(b, env, out) == EvalStmts(b.stmts, b.fin, env, out)

EvalStmts(stmts, fin, env, out) ==
  IF stmts = <<>> THEN Eval(fin, env, out)
  ELSE LET s == stmts[1] IN
       CASE s.k = "let"   -> Then(Eval(s.e, env, out), LAMBDA r1 : EvalStmts(Tail(stmts), fin, Ext(env, s.x, r1.v), r1.out))
         [] s.k = "destr" -> Then(Eval(s.e, env, out), LAMBDA r1 : EvalStmts(Tail(stmts), fin, ExtAll(env, s.xs, r1.v[2]), r1.out))
         [] s.k = "letfun" -> EvalStmts(Tail(stmts), fin, Ext(env, s.name, <<"clo", s.params, s.body, env, <<>>>>), out)
         [] s.k = "expr"  -> Then(Eval(s.e, env, out), LAMBDA r1 : EvalStmts(Tail(stmts), fin, env, r1.out))
         [] s.k = "mark"  -> EvalStmts(Tail(stmts), fin, env, Append(out, <<s.tag, "U">>))

\* application of a function value to argument values (partial application keeps the values already supplied)
ApplyVal(f, args, out) ==
  IF f[1] = "clo"
  THEN LET all == f[5] \o args
           n == Len(f[2]) IN
       IF n = 0 THEN EvalBlock(f[3], f[4], out)                              \* unit parameter
       ELSE IF Len(all) < n THEN Ok(<<"clo", f[2], f[3], f[4], all>>, out)
       ELSE IF Len(all) = n THEN EvalBlock(f[3], ExtAll(f[4], f[2], all), out)
       ELSE Then(EvalBlock(f[3], ExtAll(f[4], f[2], SubSeq(all, 1, n)), out), LAMBDA r : ApplyVal(r.v, SubSeq(all, n + 1, Len(all)), r.out))
  ELSE IF f[1] = "ext"
  THEN LET all == f[3] \o args
           x == ExternByName(f[2]) IN
       IF x.arity = 0 THEN Then(Eval(x.ret, Empty, Append(out, <<"call:" \o f[2], "T()">>)), LAMBDA r : r)
       ELSE IF Len(all) < x.arity THEN Ok(<<"ext", f[2], all>>, out)
       ELSE Eval(x.ret, Empty, Append(out, <<"call:" \o f[2], Show(<<"tup", all>>)>>))      \* all arguments, in source order
  ELSE LET all == f[3] \o args
           n == BuiltinArity(f[2]) IN
       IF Len(all) < n THEN Ok(<<"bi", f[2], all>>, out) ELSE Builtin(f[2], all, out)

MapCB(f, xs, acc, out) ==
  IF xs = <<>> THEN Ok(<<"sl", acc>>, out)
  ELSE Then(ApplyVal(f, <<xs[1]>>, out), LAMBDA r : MapCB(f, Tail(xs), Append(acc, r.v), r.out))
FilterCB(f, xs, acc, out) ==
  IF xs = <<>> THEN Ok(<<"sl", acc>>, out)
  ELSE Then(ApplyVal(f, <<xs[1]>>, out), LAMBDA r : FilterCB(f, Tail(xs), IF r.v[2] THEN Append(acc, xs[1]) ELSE acc, r.out))
FoldCB(f, acc, xs, out) ==
  IF xs = <<>> THEN Ok(acc, out)
  ELSE Then(ApplyVal(f, <<acc, xs[1]>>, out), LAMBDA r : FoldCB(f, r.v, Tail(xs), r.out))
\* Forall (stop = FALSE: stops at the first element for which the predicate is FALSE) / Forany (stop = TRUE)
AllAnyCB(f, xs, stop, out) ==
  IF xs = <<>> THEN Ok(B(~stop), out)
  ELSE Then(ApplyVal(f, <<xs[1]>>, out), LAMBDA r : IF r.v[2] = stop THEN Ok(B(stop), r.out) ELSE AllAnyCB(f, Tail(xs), stop, r.out))
IterCB(f, xs, out) ==
  IF xs = <<>> THEN Ok(U, out) ELSE Then(ApplyVal(f, <<xs[1]>>, out), LAMBDA r : IterCB(f, Tail(xs), r.out))
CollectCB(f, xs, acc, out) ==
  IF xs = <<>> THEN Ok(<<"sl", acc>>, out)
  ELSE Then(ApplyVal(f, <<xs[1]>>, out), LAMBDA r : CollectCB(f, Tail(xs), acc \o r.v[2], r.out))

Builtin(f, a, out) ==
  CASE f \in {"slice.Length", "slice.Len"} -> Ok(I(Len(a[1][2])), out)
    [] f = "slice.IsEmpty"    -> Ok(B(a[1][2] = <<>>), out)
    [] f = "slice.IsNotEmpty" -> Ok(B(a[1][2] # <<>>), out)
    [] f = "slice.Head" -> IF a[1][2] = <<>> THEN Panic("call Head to empty list", out) ELSE Ok(a[1][2][1], out)
    [] f = "slice.Last" -> IF a[1][2] = <<>> THEN Panic("index out of range", out) ELSE Ok(a[1][2][Len(a[1][2])], out)
    [] f = "slice.Tail" -> IF a[1][2] = <<>> THEN Panic("call Tail to empty list", out) ELSE Ok(<<"sl", Tail(a[1][2])>>, out)
    [] f = "slice.PopLast" -> IF a[1][2] = <<>> THEN Panic("slice bounds out of range", out) ELSE Ok(<<"sl", SubSeq(a[1][2], 1, Len(a[1][2]) - 1)>>, out)
    [] f = "slice.Item" -> IF a[1][2] < 0 \/ a[1][2] >= Len(a[2][2]) THEN Panic("index out of range", out) ELSE Ok(a[2][2][a[1][2] + 1], out)
    [] f = "slice.Take" -> IF a[1][2] > Len(a[2][2]) THEN Panic("index out of range", out) ELSE Ok(<<"sl", SubSeq(a[2][2], 1, a[1][2])>>, out)
    [] f = "slice.Skip" -> Ok(<<"sl", SubSeq(a[2][2], a[1][2] + 1, Len(a[2][2]))>>, out)
    [] f = "slice.Append" -> Ok(<<"sl", a[1][2] \o a[2][2]>>, out)
    [] f = "slice.PushLast" -> Ok(<<"sl", Append(a[2][2], a[1])>>, out)
    [] f = "slice.PushHead" -> Ok(<<"sl", <<a[1]>> \o a[2][2]>>, out)
    [] f = "slice.Sort" -> Ok(<<"sl", SortSeq(a[1][2], LAMBDA x, y : x[2] < y[2])>>, out)
    [] f = "slice.Distinct" -> Ok(<<"sl", DistinctV(a[1][2], <<>>)>>, out)
    [] f = "slice.Zip" -> IF Len(a[1][2]) # Len(a[2][2]) THEN Panic("zip with different length slices.", out)
                          ELSE Ok(<<"sl", [i \in 1..Len(a[1][2]) |-> <<"tup", <<a[1][2][i], a[2][2][i]>>>>]>>, out)
    [] f = "slice.Map"    -> MapCB(a[1], a[2][2], <<>>, out)
    [] f = "slice.Filter" -> FilterCB(a[1], a[2][2], <<>>, out)
    [] f = "slice.Fold"   -> FoldCB(a[1], a[2], a[3][2], out)
    [] f = "slice.Forall" -> AllAnyCB(a[1], a[2][2], FALSE, out)
    [] f = "slice.Forany" -> AllAnyCB(a[1], a[2][2], TRUE, out)
    [] f = "slice.Iter"   -> IterCB(a[1], a[2][2], out)
    [] f = "slice.Collect" -> CollectCB(a[1], a[2][2], <<>>, out)
    [] f = "frt.Fst" -> Ok(a[1][2][1], out)
    [] f = "frt.Snd" -> Ok(a[1][2][2], out)
    [] f = "strings.Length" -> Ok(I(Len(a[1][2])), out)
    [] f = "strings.IsEmpty" -> Ok(B(a[1][2] = ""), out)
    [] f = "strings.IsNotEmpty" -> Ok(B(a[1][2] # ""), out)
    [] f = "strings.Concat" -> Ok(S(JoinStrs(a[2][2], a[1][2])), out)
    [] f = "strings.AppendTail" -> Ok(S(a[2][2] \o a[1][2]), out)
    [] f = "strings.AppendHead" -> Ok(S(a[1][2] \o a[2][2]), out)
    [] f = "strings.EncloseWith" -> Ok(S(a[1][2] \o a[3][2] \o a[2][2]), out)
    [] f = "frt.Sprintf1" -> Ok(S(Disp(a[2])), out)         \* only the formats "%d" (int) / "%s" (string) / "%v" (bool) are generated

---------------------------------------------------------------------------
(* the trace of the program: events of the main block, then the status *)
Run == LET r == EvalBlock(prog.main, Empty, <<>>)
       IN [events |-> r.out, status |-> r.st, result |-> IF r.st = "ok" THEN Show(r.v) ELSE r.v[2]]
=============================================================================
