------------------------------- MODULE FoDriver -------------------------------
(***************************************************************************)
(* The fc command line driver (C16, C07) as a machine.                     *)
(*                                                                         *)
(* fc is given a list of file arguments and folds ONE parse state over     *)
(* them (main.fo: transpileFiles / transpileOne):                          *)
(*   Announce(f)      prints "transpile: f"                                *)
(*   ReadOK / ReadFail        (missing file, directory)                    *)
(*   ParseOK / ParseFail      (tokenizer, parser, inference, emission)     *)
(*   WriteOK / WriteFail      only for X.fo: gen_X.go next to it           *)
(*   SkipFoi                  a .foi argument yields no file               *)
(*   Exit(code)                                                            *)
(* The machine is nondeterministic in the OUTCOME of read / parse / write  *)
(* (they depend on the environment and on the file content) but not in     *)
(* what follows from an outcome.  Properties: the run is finite; exit 0    *)
(* only if every requested gen file was written; after a failure nothing   *)
(* is written for the offending file and for the files after it, the exit  *)
(* status is non-zero and a diagnostic was printed.                        *)
(***************************************************************************)
EXTENDS Integers, Sequences, FiniteSets

CONSTANTS Args       \* sequence of [name |-> string, foi |-> BOOLEAN]

VARIABLES args,      \* the argument list of this run (constant during a run)
          cur,       \* index of the argument being processed
          phase,     \* "next" | "announced" | "read" | "parsed" | "done"
          written,   \* set of indices whose gen file was written by this run
          announced, \* sequence of names printed
          diag,      \* a diagnostic was printed
          code       \* exit status, -1 while running

vars == <<args, cur, phase, written, announced, diag, code>>

Init == args = Args /\ cur = 1 /\ phase = "next" /\ written = {} /\ announced = <<>> /\ diag = FALSE /\ code = -1

Running == code = -1

Announce ==
  /\ Running /\ phase = "next" /\ cur <= Len(args)
  /\ announced' = Append(announced, args[cur].name) /\ phase' = "announced"
  /\ UNCHANGED <<args, cur, written, diag, code>>

ReadOK   == Running /\ phase = "announced" /\ phase' = "read" /\ UNCHANGED <<args, cur, written, announced, diag, code>>
ReadFail == Running /\ phase = "announced" /\ diag' = TRUE /\ code' = 2 /\ phase' = "done"     \* uncaught panic: exit 2
            /\ UNCHANGED <<args, cur, written, announced>>

ParseOK   == Running /\ phase = "read" /\ phase' = "parsed" /\ UNCHANGED <<args, cur, written, announced, diag, code>>
ParseFail == Running /\ phase = "read" /\ diag' = TRUE /\ code' = 1 /\ phase' = "done"         \* OnParseError: exit 1
             /\ UNCHANGED <<args, cur, written, announced>>

WriteOK ==
  /\ Running /\ phase = "parsed" /\ ~args[cur].foi
  /\ written' = written \cup {cur} /\ cur' = cur + 1 /\ phase' = "next"
  /\ UNCHANGED <<args, announced, diag, code>>
WriteFail ==
  /\ Running /\ phase = "parsed" /\ ~args[cur].foi
  /\ diag' = TRUE /\ code' = 1 /\ phase' = "done" /\ UNCHANGED <<args, cur, written, announced>>
SkipFoi ==
  /\ Running /\ phase = "parsed" /\ args[cur].foi
  /\ cur' = cur + 1 /\ phase' = "next" /\ UNCHANGED <<args, written, announced, diag, code>>

ExitOK == Running /\ phase = "next" /\ cur = Len(args) + 1 /\ code' = 0 /\ phase' = "done"
          /\ UNCHANGED <<args, cur, written, announced, diag>>

Next == Announce \/ ReadOK \/ ReadFail \/ ParseOK \/ ParseFail \/ WriteOK \/ WriteFail \/ SkipFoi \/ ExitOK
Spec == Init /\ [][Next]_vars /\ WF_vars(Next)

---------------------------------------------------------------------------
Requested == {i \in 1..Len(args) : ~args[i].foi}

TypeOK == cur \in 1..(Len(args) + 1) /\ written \subseteq Requested
ZeroMeansComplete == code = 0 => written = Requested
FailureIsClean ==
  code > 0 => /\ diag
              /\ cur \notin written                                \* nothing for the offending file
              /\ \A i \in written : i < cur                        \* nor for the files after it
AnnouncedInOrder == announced = [i \in 1..Len(announced) |-> args[i].name]
Terminates == <>(code # -1)
=============================================================================
