CONSTANTS
  TraceFile = "boot_trace.ndjson"
  ListingFile = "boot_listing.ndjson"
  Listed <- MCListed
  CheckedIn <- MCCheckedInH
SPECIFICATION TraceSpec
INVARIANTS Gen2FromGen1
CHECK_DEADLOCK FALSE
