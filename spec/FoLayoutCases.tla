----------------------------- MODULE FoLayoutCases -----------------------------
(***************************************************************************)
(* Layout vectors for concrete documents.  A document (tools/vlib/         *)
(* layoutdoc.py) declares its decision points in a fixed pre-order; point  *)
(* i has Arity[i] alternatives, alternative 0 is the canonical layout.     *)
(* The kinds of decision point are exactly those of the property: indent   *)
(* increment of a block; blank lines / line comment / block comment /      *)
(* multi-line block comment before an item; trailing spaces or comment     *)
(* after it; if on one line or several; right-hand side of a let, body of  *)
(* a function or of a match arm on the same or the next line; arms at the  *)
(* match column or deeper; a line break before a |> at the block column or *)
(* deeper.                                                                 *)
(* Exported: every layout that differs from the canonical one in exactly   *)
(* one decision point (systematic), plus R random full layouts per         *)
(* document drawn by the behaviour below (TLC simulation, seeded).         *)
(***************************************************************************)
EXTENDS Integers, Sequences, FiniteSets, TLC, Json, SequencesExt
CONSTANTS DocsFile, OutFile
Docs == ndJsonDeserialize(DocsFile)       \* one line per document: [doc |-> id, arity |-> <<a1, ..., ak>>]

Canon(ar) == [i \in 1..Len(ar) |-> 0]
Single(ar) == UNION {{[i \in 1..Len(ar) |-> IF i = p THEN v ELSE 0] : v \in 1..(ar[p] - 1)} : p \in 1..Len(ar)}
Rows == UNION {{[doc |-> Docs[d].doc, choices |-> c] : c \in Single(Docs[d].arity)} : d \in 1..Len(Docs)}
ASSUME ndJsonSerialize(OutFile, SetToSeq(Rows))
ASSUME PrintT(<<"CASES", Cardinality(Rows)>>)

VARIABLES d, pos, vec
Init == d \in 1..Len(Docs) /\ pos = 1 /\ vec = <<>>
Draw == /\ pos <= Len(Docs[d].arity)
        /\ vec' = Append(vec, RandomElement({v \in 0..(Docs[d].arity[pos] - 1) : pos >= 0}))
        /\ pos' = pos + 1 /\ UNCHANGED d
Done == pos = Len(Docs[d].arity) + 1 /\ pos' = pos + 1 /\ UNCHANGED <<d, vec>>
Spec == Init /\ [][Draw \/ Done]_<<d, pos, vec>>
Export == pos = Len(Docs[d].arity) + 2 => PrintT(<<"LAYOUT", Docs[d].doc, vec>>)
=============================================================================
