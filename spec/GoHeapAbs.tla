------------------------------ MODULE GoHeapAbs ------------------------------
(***************************************************************************)
(* The heap machine of GoSliceHeap reduced to what Purity depends on       *)
(* (C12): a library call either produces a VIEW of an existing array (or   *)
(* nil) and writes nothing, or ALLOCATES a new array and produces a view   *)
(* of it.  No step writes into an existing array.                          *)
(*   - GoSliceHeapMC checks with TLC that every step of the full machine   *)
(*     (Deviations = {}) is a step of this one (action property            *)
(*     AbsRefines, bounded);                                               *)
(*   - GoHeapAbsProof proves with the TLA+ proof system that Purity is an  *)
(*     invariant of this machine for pools, arrays and histories of ANY    *)
(*     size (unbounded).                                                   *)
(* A value is a record [arr, off, len, cap, snap]: the view                *)
(* heap[arr][off+1 .. off+len]; arr = 0 is nil; snap is its contents when  *)
(* it was produced.                                                        *)
(***************************************************************************)
EXTENDS Integers, Sequences

VARIABLES heap, pool

Contents(hp, v) == [i \in 1..v.len |-> hp[v.arr][v.off + i]]

\* v is a view of an array of hp (or nil)
IsView(hp, v) ==
  /\ v.arr \in 0..Len(hp)
  /\ v.off \in Nat /\ v.len \in Nat
  /\ (v.arr = 0 => v.len = 0)
  /\ (v.arr # 0 => v.off + v.len <= Len(hp[v.arr]))

Extends(v) == /\ Len(pool') = Len(pool) + 1
              /\ \A k \in 1..Len(pool) : pool'[k] = pool[k]
              /\ pool'[Len(pool')] = v

\* Tail, PopLast, the empty results, Sort of an empty value, a nil value handed in: no write, no allocation
AbsAlias == \E v \in {pool'[Len(pool')]} :
              /\ heap' = heap
              /\ Extends(v)
              /\ IsView(heap, v)
              /\ v.snap = Contents(heap, v)

\* every other call: a new array, the result is a view of it
AbsFresh == \E v \in {pool'[Len(pool')]} :
              /\ Len(heap') = Len(heap) + 1
              /\ \A a \in 1..Len(heap) : heap'[a] = heap[a]
              /\ Extends(v)
              /\ v.arr = Len(heap')
              /\ IsView(heap', v)
              /\ v.snap = Contents(heap', v)

AbsNext == AbsAlias \/ AbsFresh

\* initially every value is a view whose snapshot is its contents
AbsInit == /\ Len(heap) \in Nat
           /\ Len(pool) \in Nat
           /\ \A k \in 1..Len(pool) : IsView(heap, pool[k]) /\ pool[k].snap = Contents(heap, pool[k])

\* the property: every value still has the contents it was produced with
Purity == \A k \in 1..Len(pool) : Contents(heap, pool[k]) = pool[k].snap
=============================================================================
