CONSTANTS
  Keys = {"a", "b", "c"}
  Vals = {1, 2}
  ND = 2
  MaxSteps = 12
  MaxPairs = 3
SPECIFICATION SimSpec
INVARIANTS TypeOK ExportHist
CHECK_DEADLOCK FALSE
