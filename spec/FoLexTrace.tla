------------------------------ MODULE FoLexTrace ------------------------------
(* validates recorded calls of the real scanTokenAt (white-box driver) against FoLex *)
EXTENDS FoLex, Json
CONSTANTS TraceFile
Trace == ndJsonDeserialize(TraceFile)
NoDev == {}
VARIABLES l, bad, differ
Init == l = 1 /\ bad = <<>> /\ differ = <<>>
Step ==
  /\ l <= Len(Trace)
  /\ LET t == Trace[l]
         m == Scan(t.buf, t.pos)
         \* C16: the call returned, and unless it panicked (a diagnostic) the token lies inside the buffer and makes progress
         ok == ~t.hang /\ (t.panic \/ (t.begin >= t.pos /\ t.begin + t.len <= Len(t.buf) /\ (t.tt # "EOF" => t.len >= 1)))
         \* agreement of the model with the code (information: a disagreement on the unchanged tree means the MODEL is wrong)
         same == IF t.panic THEN m = PANIC ELSE (m # PANIC /\ m # RUNAWAY /\ m.tt = t.tt /\ m.begin = t.begin /\ m.len = t.len)
     IN /\ bad' = IF ok THEN bad ELSE Append(bad, l)
        /\ differ' = IF same THEN differ ELSE Append(differ, l)
  /\ l' = l + 1
  /\ IF l = Len(Trace) THEN PrintT(<<"TRACE-END", Len(Trace), bad'>>) /\ PrintT(<<"DIFFER-END", Len(Trace), differ'>>) ELSE TRUE
Spec == Init /\ [][Step]_<<l, bad, differ>>
=============================================================================
