CONSTANTS
  TraceFile = "md_trace.ndjson"
SPECIFICATION TraceSpec
INVARIANTS Complete NoPartial
CHECK_DEADLOCK FALSE
