--------------------------- MODULE FoParseStateHist ---------------------------
(* history generation for C07: behaviours of the FoParseState machine over a concrete package read from a file *)
EXTENDS FoParseState, Json, TLC
CONSTANTS PkgFile
Pkg == ndJsonDeserialize(PkgFile)          \* one line per definition: [id, deps, tva, fwd, istype, locals]
PDefs == {Pkg[i].id : i \in 1..Len(Pkg)}
Row(d) == Pkg[CHOOSE i \in 1..Len(Pkg) : Pkg[i].id = d]
ToSetS(s) == {s[i] : i \in 1..Len(s)}
PDeps == [d \in PDefs |-> ToSetS(Row(d).deps)]
PTva == [d \in PDefs |-> Row(d).tva]
PFwd == [d \in PDefs |-> Row(d).fwd]
PIsType == [d \in PDefs |-> Row(d).istype]
PLocals == [d \in PDefs |-> ToSetS(Row(d).locals)]
NoDev == {}

VARIABLE done
Rnd(S) == RandomElement({x \in S : tmpId >= 0})
HInit == Init /\ done = FALSE
\* simulation: draw the next definition at random among the enabled ones; cut files and stop at random
Enabled == {d \in PDefs : d \notin DOMAIN emitted /\ Deps[d] \subseteq DOMAIN emitted}
HNext ==
  /\ ~done
  /\ \/ Enabled # {} /\ Process(Rnd(Enabled)) /\ UNCHANGED done
     \/ Enabled # {} /\ Process(Rnd(Enabled)) /\ UNCHANGED done
     \/ Enabled # {} /\ Process(Rnd(Enabled)) /\ UNCHANGED done
     \/ NextFile /\ UNCHANGED done
     \/ hist # <<>> /\ done' = TRUE /\ UNCHANGED vars
HSpec == HInit /\ [][HNext]_<<vars, done>>
ExportHist == done => PrintT(<<"HIST", ToJson(hist)>>)
=============================================================================
