CONSTANTS
  N = 5
  Incs = {1, 2, 4}
INIT Init
NEXT Next
