CONSTANTS
  TraceFile = "prec_trace.ndjson"
SPECIFICATION Spec
CHECK_DEADLOCK FALSE
