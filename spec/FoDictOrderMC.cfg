CONSTANTS
  CallsFile = "order_calls.ndjson"
  OutFile = "order_scheds.ndjson"
  B = 1
INIT Init
NEXT Next
