------------------------------ MODULE FoBootstrap ------------------------------
(***************************************************************************)
(* The self-hosting chain (C04) as a machine.                              *)
(*                                                                         *)
(* Generation 1 compiler = built from the repository's checked-in Go       *)
(* (fc/gen_*.go + wrapper.go).  Running it on the repository's own Folang  *)
(* sources gives out[1]; generation 2 = built from out[1]'s compiler files *)
(* (+ wrapper.go); running it again gives out[2].                          *)
(* Listed is the set of Folang sources that have a checked-in generated    *)
(* counterpart: <<group, file>> with group "fc" | "samples" | "tool", plus *)
(* <<"readme", "README.md">> for samples/README.md via the rebuilt tool.   *)
(*   FixedPoint : out[g][f] = checkedIn[f] for both generations            *)
(*   Covered    : every listed source was transpiled, formatted and        *)
(*                compared in both generations                             *)
(*   Gen2FromGen1 : compiler 2 was built from exactly out[1]               *)
(* Hashes are SHA-256 strings computed by the harness.                     *)
(***************************************************************************)
EXTENDS Integers, Sequences, FiniteSets, TLC

CONSTANTS Listed,        \* set of <<group, file>>
          CheckedIn      \* function Listed -> hash

VARIABLES built,     \* built[g] : [k |-> "no" | "checkedin" | "srcs", s |-> file -> hash of the compiler files it was built from]
          out,       \* out[g] : function from the <<group, file>> transpiled so far to the hash of the (formatted) result
          fmted,     \* fmted[g] : set of groups formatted
          compared   \* compared[g] : function from compared <<group, file>> to BOOLEAN (same as checked in)

vars == <<built, out, fmted, compared>>

Gens == {1, 2}
EmptyF == [x \in {} |-> ""]
FcFiles == {lf \in Listed : lf[1] = "fc"}

Init ==
  /\ built = [g \in Gens |-> [k |-> "no", s |-> EmptyF]]
  /\ out = [g \in Gens |-> EmptyF]
  /\ fmted = [g \in Gens |-> {}]
  /\ compared = [g \in Gens |-> EmptyF]

Build1 == built[1].k = "no" /\ built' = [built EXCEPT ![1] = [k |-> "checkedin", s |-> EmptyF]] /\ UNCHANGED <<out, fmted, compared>>

\* compiler 2 can only be built once generation 1 regenerated and formatted every compiler file; srcs: what it is built from
Build2(srcs) ==
  /\ built[2].k = "no" /\ built[1].k # "no"
  /\ FcFiles \subseteq DOMAIN out[1] /\ "fc" \in fmted[1]
  /\ built' = [built EXCEPT ![2] = [k |-> "srcs", s |-> srcs]]
  /\ UNCHANGED <<out, fmted, compared>>

Transpile(g, lf, hash) ==
  /\ built[g].k # "no" /\ lf \in Listed /\ lf[1] \notin fmted[g]
  /\ out' = [out EXCEPT ![g] = [x \in (DOMAIN @) \cup {lf} |-> IF x = lf THEN hash ELSE @[x]]]
  /\ UNCHANGED <<built, fmted, compared>>

\* gofmt of a group; hashes: the formatted results
Fmt(g, grp, hashes) ==
  /\ grp \notin fmted[g]
  /\ DOMAIN hashes = {lf \in DOMAIN out[g] : lf[1] = grp}
  /\ out' = [out EXCEPT ![g] = [x \in DOMAIN @ |-> IF x \in DOMAIN hashes THEN hashes[x] ELSE @[x]]]
  /\ fmted' = [fmted EXCEPT ![g] = @ \cup {grp}]
  /\ UNCHANGED <<built, compared>>

Compare(g, lf) ==
  /\ lf \in DOMAIN out[g] /\ lf[1] \in fmted[g]
  /\ compared' = [compared EXCEPT ![g] = [x \in (DOMAIN @) \cup {lf} |-> IF x = lf THEN out[g][lf] = CheckedIn[lf] ELSE @[x]]]
  /\ UNCHANGED <<built, out, fmted>>

---------------------------------------------------------------------------
Done == \A g \in Gens : DOMAIN compared[g] = Listed
FixedPoint == \A g \in Gens : \A lf \in DOMAIN compared[g] : compared[g][lf]
Differing == {<<g, lf>> \in Gens \X Listed : lf \in DOMAIN compared[g] /\ ~compared[g][lf]}
Uncovered == {<<g, lf>> \in Gens \X Listed : lf \notin DOMAIN compared[g]}
Gen2FromGen1 == built[2].k = "srcs" =>
                  /\ DOMAIN built[2].s = FcFiles
                  /\ \A lf \in FcFiles : built[2].s[lf] = out[1][lf]
=============================================================================
