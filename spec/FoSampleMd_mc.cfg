CONSTANTS
  MaxEntries = 2
  OutFile = "md_cases.ndjson"
SPECIFICATION Spec
INVARIANTS Complete NoPartial FailsIffUnreadable
CHECK_DEADLOCK FALSE
