CONSTANTS
  Keys = {"a", "b"}
  Vals = {1, 2}
  ND = 2
  MaxSteps = 4
  MaxPairs = 2
SPECIFICATION Spec
INVARIANTS TypeOK LastAddWins
VIEW View
CHECK_DEADLOCK FALSE
