----------------------------- MODULE FoSampleMdMC -----------------------------
(* scenario universe: model-checks the machine on every scenario and exports the scenarios *)
EXTENDS FoSampleMd, Json, SequencesExt
CONSTANTS MaxEntries, OutFile

Files == {"a.fo", "foo.fo", "leaf.fo", "x.y.fo", "nofo", "gone.fo", "p%d.fo", "dir.fo", "w.fo"}      \* gone.fo does not exist, dir.fo is a directory
Bases == [f \in Files |-> CASE f = "a.fo" -> "a" [] f = "foo.fo" -> "foo" [] f = "leaf.fo" -> "leaf"
                            [] f = "x.y.fo" -> "x.y" [] f = "nofo" -> "nofo" [] f = "gone.fo" -> "gone" [] f = "p%d.fo" -> "p%d" [] f = "dir.fo" -> "dir" [] f = "w.fo" -> "w"]
\* content ids (the bytes live in the harness): every readable file gets a different kind of content
FS == [f \in Files \ {"gone.fo", "dir.fo"} |-> CASE f = "a.fo" -> "plain" [] f = "foo.fo" -> "nonl" [] f = "leaf.fo" -> "fences"
                                       [] f = "x.y.fo" -> "hashes" [] f = "nofo" -> "empty" [] f = "p%d.fo" -> "percent"
                                       [] f = "w.fo" -> "crlf"]       \* (CR LF line ends, a lone CR: bytes are bytes)
Rests == {<<FALSE, "">>, <<TRUE, "T">>, <<TRUE, "Two  words here">>, <<TRUE, " lead">>, <<TRUE, "">>,
          <<TRUE, "100% of %d and %s">>, <<TRUE, "a {b} `c` #x *y* <z> [l](m)">>}         \* titles are text, whatever characters they contain
Blank == [blank |-> TRUE, file |-> "", sp |-> FALSE, rest |-> ""]
Ent(f, r) == [blank |-> FALSE, file |-> f, sp |-> r[1], rest |-> r[2]]

EntrySeqs == UNION {[1..n -> {Ent(f, r) : f \in Files, r \in Rests}] : n \in 0..MaxEntries}
\* blank lines: none / one before every entry / one after every entry
WithBlanks(es, mode) ==
  CASE mode = "none"   -> es
    [] mode = "before" -> FlattenSeq([i \in 1..Len(es) |-> <<Blank, es[i]>>])
    [] mode = "after"  -> FlattenSeq([i \in 1..Len(es) |-> <<es[i], Blank, Blank>>])

Interesting(es) ==   \* keep the universe small: at most one entry with an unusual title, files not all equal unless n <= 1
  Cardinality({i \in 1..Len(es) : es[i].sp /\ es[i].rest # "T"}) <= 1

Scenarios ==
  {[lines |-> WithBlanks(es, m), fs |-> FS, bases |-> Bases, old |-> o, eofnl |-> nl] :
     es \in {x \in EntrySeqs : Interesting(x)}, m \in {"none", "before", "after"}, o \in {"absent", "long"}, nl \in BOOLEAN}

\* a reduced product for the export: blank mode / old README / final newline vary with the entries instead of multiplying them
Pick(es) == LET k == Len(es) + Cardinality({i \in 1..Len(es) : es[i].sp}) IN
            [m |-> <<"none", "before", "after">>[(k % 3) + 1], o |-> <<"absent", "long">>[(k % 2) + 1], nl |-> (k % 2 = 0)]
ExportScenarios ==
  {[lines |-> WithBlanks(es, Pick(es).m), fs |-> FS, bases |-> Bases, old |-> Pick(es).o, eofnl |-> Pick(es).nl] :
     es \in {x \in EntrySeqs : Interesting(x)}}
  \cup {s \in Scenarios : Len(Entries(s.lines)) <= 1}

Init == \E s \in ExportScenarios : InitWith(s)
Spec == Init /\ [][Next]_vars

ASSUME ndJsonSerialize(OutFile, SetToSeq(ExportScenarios))
ASSUME PrintT(<<"CASES", Cardinality(ExportScenarios)>>)
=============================================================================
