----------------------------- MODULE FoTypeExpr -----------------------------
(***************************************************************************)
(* Folang type expressions (C15).                                          *)
(*                                                                         *)
(* Type terms:  <<"base", name>>  <<"unit">>  <<"slice", t>>               *)
(*              <<"tuple", <<t1, t2(, t3)>>>>                              *)
(*              <<"func", <<arg1, ..., argn>>, ret>>                       *)
(*              <<"named", name, <<type arguments>>>>                      *)
(*                                                                         *)
(* The concrete grammar (4 levels, transcribed from fc's parser):          *)
(*   TYPE = ELEM ('->' ELEM)*          A->B->C is ONE function type        *)
(*   ELEM = TERM ('*' TERM)*           T*U*V is ONE 3-tuple                *)
(*   TERM = '[' ']' TERM | ATOM        [] binds tighter than *             *)
(*   ATOM = name ['<' TYPE (',' TYPE)* '>'] | '(' ')' | '(' TYPE ')'       *)
(* Parse is that grammar as a recursive-descent machine over a token       *)
(* sequence.  Two printers produce token sequences: PrintMin (parentheses  *)
(* only where the grammar needs them) and PrintRed (every sub-term         *)
(* parenthesised).  TLC checks Parse(Print(t)) = t for both printers on    *)
(* every enumerated term: parentheses only group, and the four levels bind *)
(* as documented.  GoText is the documented Go type.                       *)
(***************************************************************************)
EXTENDS Integers, Sequences, FiniteSets, TLC

Unit == <<"unit">>
B(n) == <<"base", n>>

---------------------------------------------------------------------------
(* printers: term -> token sequence.  lvl: 0 = TYPE, 1 = ELEM, 2 = TERM (what the context can take unparenthesised) *)
RECURSIVE PMin(_, _), PRed(_), JoinToks(_, _)

JoinToks(seqs, sep) ==
  IF seqs = <<>> THEN <<>>
  ELSE IF Len(seqs) = 1 THEN seqs[1] ELSE seqs[1] \o sep \o JoinToks(Tail(seqs), sep)

Paren(toks) == <<"(">> \o toks \o <<")">>

PMin(t, lvl) ==
  CASE t[1] = "base"  -> <<t[2]>>
    [] t[1] = "unit"  -> <<"(", ")">>
    [] t[1] = "slice" -> <<"[", "]">> \o PMin(t[2], 2)
    [] t[1] = "tuple" -> LET body == JoinToks([i \in 1..Len(t[2]) |-> PMin(t[2][i], 2)], <<"*">>)
                         IN IF lvl >= 2 THEN Paren(body) ELSE body
    [] t[1] = "func"  -> LET body == JoinToks([i \in 1..Len(t[2]) |-> PMin(t[2][i], 1)], <<"->">>) \o <<"->">> \o PMin(t[3], 1)
                         IN IF lvl >= 1 THEN Paren(body) ELSE body
    [] t[1] = "named" -> IF t[3] = <<>> THEN <<t[2]>>
                         ELSE <<t[2], "<">> \o JoinToks([i \in 1..Len(t[3]) |-> PMin(t[3][i], 0)], <<",">>) \o <<">">>

\* every proper sub-term in parentheses
Wrap(t) == IF t[1] = "unit" THEN <<"(", ")">> ELSE Paren(PRed(t))
PRed(t) ==
  CASE t[1] = "base"  -> <<t[2]>>
    [] t[1] = "unit"  -> <<"(", ")">>
    [] t[1] = "slice" -> <<"[", "]">> \o Wrap(t[2])
    [] t[1] = "tuple" -> JoinToks([i \in 1..Len(t[2]) |-> Wrap(t[2][i])], <<"*">>)
    [] t[1] = "func"  -> JoinToks([i \in 1..Len(t[2]) |-> Wrap(t[2][i])], <<"->">>) \o <<"->">> \o Wrap(t[3])
    [] t[1] = "named" -> IF t[3] = <<>> THEN <<t[2]>>
                         ELSE <<t[2], "<">> \o JoinToks([i \in 1..Len(t[3]) |-> Wrap(t[3][i])], <<",">>) \o <<">">>

---------------------------------------------------------------------------
(* the parser: functions from (tokens, position) to <<term, next position>> *)
BaseNames == {"int", "string", "bool", "any", "float"}
Tok(toks, p) == IF p <= Len(toks) THEN toks[p] ELSE "<eof>"

RECURSIVE ParseType(_, _), ParseArrows(_, _), ParseElem(_, _), ParseStars(_, _), ParseTerm(_, _), ParseAtom(_, _), ParseTArgs(_, _)

\* TYPE = ELEM ('->' ELEM)* : one element -> itself, several -> func(all but last) last
ParseType(toks, p) ==
  LET r == ParseArrows(toks, p)
      ts == r[1]
  IN IF Len(ts) = 1 THEN <<ts[1], r[2]>>
     ELSE <<<<"func", SubSeq(ts, 1, Len(ts) - 1), ts[Len(ts)]>>, r[2]>>

ParseArrows(toks, p) ==
  LET one == ParseElem(toks, p)
  IN IF Tok(toks, one[2]) = "->"
     THEN LET rest == ParseArrows(toks, one[2] + 1) IN <<<<one[1]>> \o rest[1], rest[2]>>
     ELSE <<<<one[1]>>, one[2]>>

\* ELEM = TERM ('*' TERM)*
ParseElem(toks, p) ==
  LET r == ParseStars(toks, p)
  IN IF Len(r[1]) = 1 THEN <<r[1][1], r[2]>> ELSE <<<<"tuple", r[1]>>, r[2]>>

ParseStars(toks, p) ==
  LET one == ParseTerm(toks, p)
  IN IF Tok(toks, one[2]) = "*"
     THEN LET rest == ParseStars(toks, one[2] + 1) IN <<<<one[1]>> \o rest[1], rest[2]>>
     ELSE <<<<one[1]>>, one[2]>>

\* TERM = '[' ']' TERM | ATOM
ParseTerm(toks, p) ==
  IF Tok(toks, p) = "[" /\ Tok(toks, p + 1) = "]"
  THEN LET e == ParseTerm(toks, p + 2) IN <<<<"slice", e[1]>>, e[2]>>
  ELSE ParseAtom(toks, p)

ParseTArgs(toks, p) ==      \* after '<': TYPE (',' TYPE)* '>'
  LET one == ParseType(toks, p)
  IN IF Tok(toks, one[2]) = ","
     THEN LET rest == ParseTArgs(toks, one[2] + 1) IN <<<<one[1]>> \o rest[1], rest[2]>>
     ELSE <<<<one[1]>>, one[2] + 1>>       \* skip '>'

ParseAtom(toks, p) ==
  IF Tok(toks, p) = "("
  THEN IF Tok(toks, p + 1) = ")" THEN <<Unit, p + 2>>
       ELSE LET inner == ParseType(toks, p + 1) IN <<inner[1], inner[2] + 1>>    \* skip ')'
  ELSE IF Tok(toks, p) \in BaseNames THEN <<B(Tok(toks, p)), p + 1>>
  ELSE IF Tok(toks, p + 1) = "<"
       THEN LET args == ParseTArgs(toks, p + 2) IN <<<<"named", Tok(toks, p), args[1]>>, args[2]>>
       ELSE <<<<"named", Tok(toks, p), <<>>>>, p + 1>>

Parse(toks) == ParseType(toks, 1)[1]

RoundTrips(t) ==
  /\ Parse(PMin(t, 0)) = t /\ ParseType(PMin(t, 0), 1)[2] = Len(PMin(t, 0)) + 1
  /\ Parse(PRed(t)) = t /\ ParseType(PRed(t), 1)[2] = Len(PRed(t)) + 1

---------------------------------------------------------------------------
(* the documented Go type, as text without blanks *)
RECURSIVE GoText(_), JoinStr(_, _)
JoinStr(ss, sep) == IF ss = <<>> THEN "" ELSE IF Len(ss) = 1 THEN ss[1] ELSE ss[1] \o sep \o JoinStr(Tail(ss), sep)

GoText(t) ==
  CASE t[1] = "base"  -> IF t[2] = "float" THEN "float64" ELSE t[2]
    [] t[1] = "unit"  -> ""
    [] t[1] = "slice" -> "[]" \o GoText(t[2])
    [] t[1] = "tuple" -> "frt.Tuple" \o ToString(Len(t[2])) \o "[" \o JoinStr([i \in 1..Len(t[2]) |-> GoText(t[2][i])], ",") \o "]"
    [] t[1] = "func"  -> "func(" \o JoinStr([i \in 1..Len(t[2]) |-> GoText(t[2][i])], ",") \o ")" \o GoText(t[3])
    [] t[1] = "named" -> IF t[3] = <<>> THEN t[2]
                         ELSE t[2] \o "[" \o JoinStr([i \in 1..Len(t[3]) |-> GoText(t[3][i])], ",") \o "]"

---------------------------------------------------------------------------
(* term universes *)
Bases(S) == {B(n) : n \in S}
Ctor1(S, K) ==    \* one constructor applied to terms of S; K: terms usable as dictionary keys
       {<<"slice", t>> : t \in S}
  \cup {<<"tuple", <<a, b>>>> : a \in S, b \in S}
  \cup {<<"func", <<a>>, r>> : a \in S \cup {Unit}, r \in S \cup {Unit}}
  \cup {<<"func", <<a, b>>, r>> : a \in S, b \in S, r \in S \cup {Unit}}
  \cup {<<"named", "Box", <<t>>>> : t \in S}
  \cup {<<"named", "dict.Dict", <<k, v>>>> : k \in K, v \in S}
  \cup {<<"named", "Duo", <<a, b>>>> : a \in S, b \in S}          \* a user record with two type parameters
Tuple3s(S) == {<<"tuple", <<a, b, c>>>> : a \in S, b \in S, c \in S}
=============================================================================
