------------------------------ MODULE FoLiteral ------------------------------
(***************************************************************************)
(* String, raw-string and interpolated literals (C11).                     *)
(*                                                                         *)
(* Characters are opaque names ("a", "sp", "pct" = %, "bsl" = \, "dq" = ", *)
(* "bt" = `, "lb" = {, "rb" = }, "nl", "tab", letters "n" "s" "t", any     *)
(* other name = an ordinary character such as "c233" = e-acute).           *)
(*                                                                         *)
(* An abstract literal is a form ("str" "..." | "raw" `...` | "istr"       *)
(* $"..." | "iraw" $`...`) and a sequence of segments                      *)
(*   <<"ch", c>>          the character c written as itself                *)
(*   <<"esc", e>>         one of the escapes \n \t \\ \"   (str, istr)     *)
(*   <<"bres", b>>        the brace escapes \{ \}          (istr only)     *)
(*   <<"hole", v>>        {v}                              (istr, iraw)    *)
(* Source gives its text, Denote the value the documentation prescribes.   *)
(* Pipeline is what the implementation does, stage by stage (Folang        *)
(* scanner, ParseSInterP, Go's interpreted string literal, fmt.Sprintf);   *)
(* TLC checks Pipeline(Source(l)) = Denote(l) on every enumerated literal. *)
(***************************************************************************)
EXTENDS Integers, Sequences, FiniteSets, TLC

Forms == {"str", "raw", "istr", "iraw"}
Interp(form) == form \in {"istr", "iraw"}

Legal(form, seg) ==
  CASE seg[1] = "ch"   -> (CASE form = "str"  -> seg[2] \notin {"bsl", "dq", "nl"}
                             [] form = "raw"  -> seg[2] # "bt"
                             \* (an opening brace starts a hole; a closing brace outside a hole is ordinary text, also doubled)
                             [] form = "istr" -> seg[2] \notin {"bsl", "dq", "nl", "lb"}
                             [] form = "iraw" -> seg[2] \notin {"bt", "lb"})
    [] seg[1] = "esc"  -> form \in {"str", "istr"} /\ seg[2] \in {"n", "t", "bsl", "dq"}
    [] seg[1] = "bres" -> form = "istr" /\ seg[2] \in {"lb", "rb"}
    [] seg[1] = "hole" -> Interp(form)

LegalLit(form, segs) == \A i \in 1..Len(segs) : Legal(form, segs[i])

RECURSIVE Flat(_)
Flat(ss) == IF ss = <<>> THEN <<>> ELSE ss[1] \o Flat(Tail(ss))

SrcSeg(seg) ==
  CASE seg[1] = "ch"   -> <<seg[2]>>
    [] seg[1] = "esc"  -> <<"bsl", seg[2]>>          \* "n" "t" are the letters, "bsl" "dq" the characters
    [] seg[1] = "bres" -> <<"bsl", seg[2]>>
    [] seg[1] = "hole" -> <<"lb", seg[2], "rb">>      \* hole names are one-letter variables

Source(segs) == Flat([i \in 1..Len(segs) |-> SrcSeg(segs[i])])

DenSeg(seg, env) ==
  CASE seg[1] = "ch"   -> <<seg[2]>>
    [] seg[1] = "esc"  -> (CASE seg[2] = "n" -> <<"nl">> [] seg[2] = "t" -> <<"tab">> [] OTHER -> <<seg[2]>>)
    [] seg[1] = "bres" -> <<seg[2]>>
    [] seg[1] = "hole" -> env[seg[2]]                 \* the display form of the variable's value

Denote(segs, env) == Flat([i \in 1..Len(segs) |-> DenSeg(segs[i], env)])

---------------------------------------------------------------------------
(* the implementation, stage by stage, on the source text *)
RECURSIVE ScanRaw(_), PSInterP(_, _), GoUnescape(_), Sprintf(_, _, _)

\* scanRawStringLiteralToken: make the body a Go interpreted-string body
ScanRaw(s) ==
  IF s = <<>> THEN <<>>
  ELSE (CASE s[1] = "bsl" -> <<"bsl", "bsl">>
          [] s[1] = "dq"  -> <<"bsl", "dq">>
          [] s[1] = "nl"  -> <<"bsl", "n">>
          [] OTHER        -> <<s[1]>>) \o ScanRaw(Tail(s))

\* ParseSInterP: returns <<format text, variable names>>
PSInterP(s, acc) ==
  IF s = <<>> THEN acc
  ELSE IF s[1] = "bsl" /\ Len(s) >= 2
       THEN IF s[2] \in {"lb", "rb"}
            THEN PSInterP(SubSeq(s, 3, Len(s)), <<acc[1] \o <<s[2]>>, acc[2]>>)
            ELSE PSInterP(SubSeq(s, 3, Len(s)), <<acc[1] \o <<"bsl", s[2]>>, acc[2]>>)
  ELSE IF s[1] = "pct" THEN PSInterP(Tail(s), <<acc[1] \o <<"pct", "pct">>, acc[2]>>)
  ELSE IF s[1] = "lb"
       THEN LET close == CHOOSE i \in 2..Len(s) : s[i] = "rb" /\ \A j \in 2..(i - 1) : s[j] # "rb"
            IN PSInterP(SubSeq(s, close + 1, Len(s)), <<acc[1] \o <<"pct", "s">>, Append(acc[2], s[2])>>)
  ELSE PSInterP(Tail(s), <<acc[1] \o <<s[1]>>, acc[2]>>)

\* Go's interpreted string literal
GoUnescape(s) ==
  IF s = <<>> THEN <<>>
  ELSE IF s[1] = "bsl" /\ Len(s) >= 2
       THEN (CASE s[2] = "n" -> <<"nl">> [] s[2] = "t" -> <<"tab">> [] OTHER -> <<s[2]>>) \o GoUnescape(SubSeq(s, 3, Len(s)))
       ELSE <<s[1]>> \o GoUnescape(Tail(s))

\* fmt.Sprintf with only %s verbs and %% 
Sprintf(s, args, k) ==
  IF s = <<>> THEN <<>>
  ELSE IF s[1] = "pct" /\ Len(s) >= 2 /\ s[2] = "pct" THEN <<"pct">> \o Sprintf(SubSeq(s, 3, Len(s)), args, k)
  ELSE IF s[1] = "pct" /\ Len(s) >= 2 /\ s[2] = "s" THEN args[k] \o Sprintf(SubSeq(s, 3, Len(s)), args, k + 1)
  ELSE <<s[1]>> \o Sprintf(Tail(s), args, k)

Pipeline(form, src, env) ==
  LET scanned == IF form \in {"raw", "iraw"} THEN ScanRaw(src) ELSE src
  IN IF Interp(form)
     THEN LET p == PSInterP(scanned, <<<<>>, <<>>>>)
          IN Sprintf(GoUnescape(p[1]), [i \in 1..Len(p[2]) |-> env[p[2][i]]], 1)
     ELSE GoUnescape(scanned)

\* the variables in scope of every literal and the display form of their values
\* x = 12 (int: decimal), y = "q%" (string: itself), z = true (bool: Go %v)
Env == [x |-> <<"c49", "c50">>, y |-> <<"q", "pct">>, z |-> <<"t", "r", "u", "e">>]
=============================================================================
