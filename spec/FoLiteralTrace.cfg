CONSTANTS
  TraceFile = "lit_trace.ndjson"
SPECIFICATION Spec
CHECK_DEADLOCK FALSE
