#!/usr/bin/env python3
"""seedtest.py <mutant dir> [--checks C10,C13] [--tier quick] [--skip-confirm]

Confirms a seeded change (patch.diff + demo/run.sh) in a scratch copy of /repo and runs our checks against it.
 1. copy /repo's working tree to scratch, apply patch there (never in /repo)
 2. confirm: the repository's own test suite passes with the patch; demo/run.sh fails with the patch and passes without
 3. run the requested checks with VERIF_REPO=<patched copy>; report which raise VIOLATION
Prints one JSON line with the outcome."""
import json, os, shutil, subprocess, sys, tempfile, argparse
V = os.path.dirname(os.path.dirname(os.path.abspath(__file__)))
ap = argparse.ArgumentParser()
ap.add_argument("mdir"); ap.add_argument("--checks", default=""); ap.add_argument("--tier", default="quick")
ap.add_argument("--skip-confirm", action="store_true")
a = ap.parse_args()
env = dict(os.environ, GOFLAGS="-mod=mod -trimpath", GOPROXY="off", GOSUMDB="off", GOTOOLCHAIN="local")
tmp = tempfile.mkdtemp(prefix="seedtest-")
res = {"mutant": a.mdir}
try:
    clean = os.path.join(tmp, "clean"); pat = os.path.join(tmp, "patched")
    for d in (clean, pat):
        subprocess.run(["rsync", "-a", "--exclude", ".git", "/repo/", d + "/"], check=True)
    r = subprocess.run(["patch", "-p1", "-s", "-i", os.path.join(os.path.abspath(a.mdir), "patch.diff")], cwd=pat, capture_output=True, text=True)
    res["applies"] = r.returncode == 0
    if r.returncode != 0:
        res["apply_err"] = (r.stdout + r.stderr)[-500:]
    elif not a.skip_confirm:
        r = subprocess.run([os.path.join(V, "tools", "baseline_off.sh")], env=dict(env, VERIF_REPO=pat), capture_output=True, text=True)
        res["tests_pass_with_patch"] = r.returncode == 0
        demo = os.path.join(os.path.abspath(a.mdir), "demo", "run.sh")
        if os.path.exists(demo):
            r1 = subprocess.run(["bash", demo, pat], env=env, capture_output=True, text=True, timeout=1200)
            r0 = subprocess.run(["bash", demo, clean], env=env, capture_output=True, text=True, timeout=1200)
            res["demo_fails_with_patch"] = r1.returncode != 0
            res["demo_passes_without"] = r0.returncode == 0
    if res["applies"]:
        res["checks"] = {}
        for c in [c for c in a.checks.split(",") if c]:
            r = subprocess.run(["python3", os.path.join(V, "tools", "vcheck"), c, "--tier", a.tier], env=dict(env, VERIF_REPO=pat, VERIF_NOEVIDENCE="1"),
                               capture_output=True, text=True, cwd=V)
            first = [l for l in r.stdout.splitlines() if l.startswith("VIOLATION")][:1]
            detail = ""
            if first:
                i = r.stdout.splitlines().index(first[0])
                detail = "\n".join(r.stdout.splitlines()[i:i + 2])[:600]
            res["checks"][c] = {"rc": r.returncode, "detail": detail or r.stdout[-300:]}
finally:
    shutil.rmtree(tmp, ignore_errors=True)
print(json.dumps(res, indent=1))
