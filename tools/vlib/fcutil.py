"""helpers around the fc binary and the goast extractor"""
import json
import os
import shutil

from . import core
from .core import Infra


def build_goast(ctx):
    d = ctx.mkdir("goast")
    out = os.path.join(d, "goast")
    if os.path.exists(out):
        return out
    shutil.copy(os.path.join(core.VERIF, "harness", "goast", "main.go"), os.path.join(d, "main.go"))
    with open(os.path.join(d, "go.mod"), "w") as f:
        f.write("module goast\n\ngo 1.23.4\n")
    rc, so, se = core.sh(["go", "build", "-o", "goast", "."], cwd=d, timeout=600)
    if rc != 0:
        raise Infra("goast does not build: " + (so + se)[-2000:])
    return out


def goast(ctx, mode, gofile):
    ga = build_goast(ctx)
    rc, so, se = core.sh([ga, mode, gofile], timeout=600)
    rows = [json.loads(l) for l in so.splitlines() if l.strip()]
    if rc == 3:
        return None, rows[0].get("parse_error", "parse error") if rows else "parse error"
    if rc != 0:
        raise Infra("goast failed: " + se[-2000:])
    return rows, None


def run_fc(ctx, files, cwd=None, timeout=300, env=None, foi=True, fcbin=None):
    """run fc on files (paths); returns (rc, stdout, stderr). The package info file is passed first unless foi=False."""
    fc = fcbin or ctx.build("fc")
    args = [fc]
    if foi:
        args.append(os.path.join(ctx.repo, "pkg", "pkg_all.foi"))
    args += files
    e = dict(core.GOENV)
    if env:
        e.update(env)
    return core.sh(args, cwd=cwd, timeout=timeout, env=e)


def gen_name(fo_path):
    d, b = os.path.split(fo_path)
    return os.path.join(d, "gen_" + b[:-3] + ".go")


def run_fc_many(ctx, wd, names, timeout_each=20, per_invocation_args=None, fcbin=None, env=None, foi=None):
    """Run `fc pkg_all.foi <name>.fo` for every name in wd, one process per name, 16 at a time (xargs).
    Leaves <name>.out / <name>.err / <name>.rc next to the sources. Returns dict name -> (rc, stdout, stderr)."""
    fc = fcbin or ctx.build("fc")
    foi = foi or os.path.join(ctx.repo, "pkg", "pkg_all.foi")
    script = os.path.join(wd, "_run1.sh")
    with open(script, "w") as f:
        f.write("#!/bin/sh\ncd %s\ntimeout %d %s %s \"$1.fo\" > \"$1.out\" 2> \"$1.err\"\necho $? > \"$1.rc\"\n" % (wd, timeout_each, fc, foi))
    os.chmod(script, 0o755)
    lst = os.path.join(wd, "_names.txt")
    with open(lst, "w") as f:
        f.write("\n".join(names) + "\n")
    e = dict(core.GOENV)
    if env:
        e.update(env)
    rc, so, se = core.sh(["sh", "-c", "xargs -P %d -n 1 %s < %s" % (core.NCPU, script, lst)], cwd=wd, timeout=7200, env=e)
    res = {}
    for n in names:
        try:
            r = int(open(os.path.join(wd, n + ".rc")).read().strip())
            o = open(os.path.join(wd, n + ".out"), errors="replace").read()
            er = open(os.path.join(wd, n + ".err"), errors="replace").read()
        except (OSError, ValueError):
            raise Infra("fc batch runner produced no result for " + n)
        res[n] = (r, o, er)
    return res
