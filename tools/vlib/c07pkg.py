"""Packages for C07: sets of top-level definitions with their dependency relation.

Each definition: id (also the name it defines), text (Folang source), deps (ids it refers to), decls (regex matching the
names of the Go declarations emitted for it), tva / fwd (rough number of inference variables / forward references it
allocates), istype, locals (names that are local to it: parameters, let locals, match-arm variables).
Local names deliberately coincide with the names of UNRELATED top-level definitions of the package, so that a scope leak
or a reset that is forgotten changes the translation of some history.
"""


def D(id, text, deps=(), decls=None, tva=4, fwd=0, istype=False, locals=(), after=()):
    """after: definitions that must come EARLIER than this one when both are present (an ordering constraint, not a reference)"""
    return {"id": id, "text": text.strip("\n") + "\n", "deps": list(deps), "decls": decls or ("^%s$" % id), "tva": tva, "fwd": fwd,
            "istype": istype, "locals": list(locals), "after": list(after)}


def type_decls(*names):
    return "^(" + "|".join("(New_)?%s(_[A-Za-z0-9]+)?(\\..*)?" % n for n in names) + ")$"


def shapes():
    return {"name": "shapes", "imports": ["frt", "slice", "strings"], "defs": [
        D("Pt", "type Pt = {X: int; Y: int}", decls=type_decls("Pt"), istype=True, tva=0, fwd=0),
        D("Shape", "type Shape =\n| Circle of int\n| Rect of Pt\n| Empty", deps=["Pt"], decls=type_decls("Shape"), istype=True, tva=0, fwd=0),
        D("radius", "let radius (n:int) =\n  n * 2", locals=["n"]),
        D("area", "let area (s:Shape) =\n  match s with\n  | Circle radius -> radius * radius * 3\n  | Rect p -> p.X * p.Y\n  | Empty -> 0",
          deps=["Shape", "Pt"], locals=["s", "radius", "p"]),
        D("label", "let label (n:int) =\n  if n > 10 then\n    \"big\"\n  elif n > 0 then\n    \"small\"\n  else\n    \"none\"", locals=["n"]),
        D("describe", "let describe (s:Shape) =\n  let a = area s\n  let l = label a\n  $\"area={a} label={l}\"",
          deps=["area", "label", "Shape"], locals=["s", "a", "l"]),
        D("dflt", "let dflt =\n  match Circle 2 with\n  | Circle label -> label + 1\n  | _ -> 0", deps=["Shape"], decls="^dflt$", locals=["label"]),
        D("twice", "let twice (n:int) =\n  radius (radius n)", deps=["radius"], locals=["n"]),
        D("sumAll", "let sumAll (xs:[]int) =\n  slice.Fold (fun acc x -> acc + x) 0 xs", locals=["xs", "acc", "x"], tva=8),
        D("pair", "let pair a b =\n  (a, b)", locals=["a", "b"], tva=6),
        D("usePair", "let usePair (n:int) (s:string) =\n  let p = pair n s\n  let q = pair s n\n  (frt.Fst p, frt.Snd q)",
          deps=["pair"], locals=["n", "s", "p", "q"], tva=14),
        D("names", "let names (ss:[]Shape) =\n  ss\n  |> slice.Map describe\n  |> strings.Concat \", \"", deps=["describe", "Shape"], locals=["ss"], tva=8),
        # a parse-time temporary (the parameter of _.X) inside a match that gets an emission-time temporary: which numbers the two carry
        # depends on the definitions around (they can even carry the same number, one shadowing the other) - numbering only
        D("Poly", "type Poly =\n| Pts of []Pt\n| NoPts", deps=["Pt"], decls=type_decls("Poly"), istype=True, tva=0, fwd=0),
        D("xsOf", "let xsOf (p:Poly) =\n  match p with\n  | Pts ps -> slice.Map _.X ps\n  | NoPts -> slice.New<int> ()", deps=["Poly", "Pt"], locals=["p", "ps"], tva=8),
        D("ysOf", "let ysOf (ps:[]Pt) =\n  slice.Map _.Y ps", deps=["Pt"], locals=["ps"], tva=6),
        D("x", "let x (a:int) =\n  a + 1", locals=["a"]),
        D("l", "let l =\n  \"top level l\"", decls="^l$"),
    ]}


def groups():
    return {"name": "groups", "imports": ["frt", "slice"], "defs": [
        D("Tree", "type Tree =\n| Leaf\n| Node of NodeData\nand NodeData = {L: Tree; R: Tree; V: Payload}\nand Payload = {N: int; Tag: string}",
          decls=type_decls("Tree", "NodeData", "Payload"), istype=True, tva=0, fwd=3),
        D("Expr", "type Expr =\n| Num of int\n| Add of BinOp\n| Neg of Expr\nand BinOp = {Lhs: Expr; Rhs: Expr}",
          decls=type_decls("Expr", "BinOp"), istype=True, tva=0, fwd=2),
        D("size", "let size (t:Tree) : int =\n  match t with\n  | Leaf -> 0\n  | Node d -> (size d.L) + (size d.R) + 1", deps=["Tree"], locals=["t", "d"]),
        D("eval", "let eval (e:Expr) : int =\n  match e with\n  | Num n -> n\n  | Add b -> (eval b.Lhs) + (eval b.Rhs)\n  | Neg d -> 0 - (eval d)", deps=["Expr"], locals=["e", "n", "b", "d"]),
        D("mk", "let mk (n:int) =\n  Node {L=Leaf; R=Leaf; V={N=n; Tag=\"t\"}}", deps=["Tree"], locals=["n"]),
        D("d", "let d (k:int) =\n  k - 1", locals=["k"]),
        D("n", "let n =\n  42", decls="^n$"),
        D("both", "let both (k:int) =\n  (size (mk k), eval (Neg (Num k)))", deps=["size", "mk", "eval", "Tree", "Expr"], locals=["k"]),
        D("ext", "package_info ext =\n  type Handle\n  let Open: string->Handle\n  let Count: Handle->int", decls="^$", tva=0, istype=False),
        D("useExt", "let useExt (s:string) =\n  ext.Open s |> ext.Count", deps=["ext"], locals=["s"]),
        # a user type with the SHORT name of an external type (unrelated to the package_info block), reached by a forward reference
        D("Job", "type Job = {Who: Handle; Count: int}\nand Handle = {Id: int; Tag: string}", decls=type_decls("Job", "Handle"), istype=True, tva=0, fwd=1),
        D("whoOf", "let whoOf (j:Job) =\n  j.Who.Id + j.Count", deps=["Job"], locals=["j"]),
    ]}


def collide():
    """names that collide in tables keyed by an encoding of name and type arguments: Pair_int vs Pair<int>, Opt_int vs Opt<int>"""
    return {"name": "collide", "imports": ["frt"], "defs": [
        D("Pair", "type Pair<T> = {Key: T; Val: int}", decls="^Pair$", istype=True, tva=0),
        D("Pair_int", "type Pair_int = {Key: string; N: int}", decls="^Pair_int$", istype=True, tva=0),
        D("keyOf", "let keyOf (p:Pair_int) =\n  p.Key", deps=["Pair_int"], locals=["p"]),
        D("sumOf", "let sumOf (q:Pair<int>) =\n  q.Key + q.Val", deps=["Pair"], locals=["q"]),
        D("mkPair", "let mkPair (s:string) =\n  {Key=s; Val=1}", deps=["Pair"], locals=["s"]),
        D("mkPI", "let mkPI (s:string) =\n  {Key=s; N=2}", deps=["Pair_int"], locals=["s"]),
        D("Opt", "type Opt<T> =\n| Some of T\n| None", decls="^(New_)?Opt(_(Some|None))?(\\..*)?$", istype=True, tva=0),
        D("Opt_int", "type Opt_int =\n| Full of string\n| Empty", decls="^(New_)?Opt_int(_(Full|Empty))?(\\..*)?$", istype=True, tva=0),
        D("optLen", "let optLen (o:Opt_int) =\n  match o with\n  | Full s -> s\n  | Empty -> \"\"", deps=["Opt_int"], locals=["o", "s"]),
        D("someInt", "let someInt (n:int) =\n  Some n", deps=["Opt"], locals=["n"]),
        D("pairOpt", "let pairOpt (n:int) =\n  (someInt n, mkPair \"k\")", deps=["someInt", "mkPair"], locals=["n"]),
        # two instances of one generic record whose type argument names joined by _ coincide (node_id + cost / node + id_cost): defect 33
        D("node_id", "type node_id = {I1: int}", decls="^node_id$", istype=True, tva=0),
        D("cost", "type cost = {I2: int}", decls="^cost$", istype=True, tva=0),
        D("node", "type node = {I3: string}", decls="^node$", istype=True, tva=0),
        D("id_cost", "type id_cost = {I4: string}", decls="^id_cost$", istype=True, tva=0),
        D("Edge", "type Edge<A, B> = {From: A; W: B}", decls="^Edge$", istype=True, tva=0),
        D("w1", "let w1 (e: Edge<node_id, cost>) =\n  e.W.I2", deps=["Edge", "node_id", "cost"], locals=["e"]),
        D("w2", "let w2 (e: Edge<node, id_cost>) =\n  e.W.I4", deps=["Edge", "node", "id_cost"], locals=["e"]),
    ]}


def samefields():
    """record types with the same field-name set: a literal without a type name denotes the alphabetically first of the record types
    DECLARED SO FAR that have exactly its fields (fc/parse_state.fo scLookupRecFacCur), so it refers to all of them.  origin is
    written before Cell exists (ordering constraint), mk after both; neither refers to the other, and kOf never refers to Kb"""
    return {"name": "samefields", "imports": ["frt"], "defs": [
        D("Point", "type Point = {X: int; Y: int}", decls="^Point$", istype=True, tva=0),
        D("origin", "let origin () =\n  {X=0; Y=0}", deps=["Point"]),
        D("shift", "let shift (p:Point) =\n  {X=p.X + 1; Y=p.Y}", deps=["Point"], locals=["p"]),
        D("Cell", "type Cell = {X: int; Y: int}", decls="^Cell$", istype=True, tva=0, after=["origin", "shift"]),
        D("mk", "let mk (a:int) (b:int) =\n  {X=a; Y=b}", deps=["Point", "Cell"], locals=["a", "b"]),
        D("cellSum", "let cellSum (c:Cell) =\n  c.X + c.Y", deps=["Cell"], locals=["c"]),
        D("both", "let both (n:int) =\n  (mk n n, origin ())", deps=["mk", "origin"], locals=["n"]),
        D("Ka", "type Ka = {K: string}", decls="^Ka$", istype=True, tva=0),
        D("Kb", "type Kb = {K: string}", decls="^Kb$", istype=True, tva=0),
        D("kOf", "let kOf (s:string) =\n  {K=s}", deps=["Ka"], locals=["s"]),
        D("kbLen", "let kbLen (k:Kb) =\n  k.K", deps=["Kb"], locals=["k"]),
        # different field sets whose names joined by _ coincide (a_b + c / a + b_c): a literal refers to the record with ITS field set only
        D("Aaa", "type Aaa = {a_b: int; c: int}", decls="^Aaa$", istype=True, tva=0),
        D("Zzz", "type Zzz = {a: int; b_c: int}", decls="^Zzz$", istype=True, tva=0),
        D("mkZ", "let mkZ (n:int) =\n  {a=n; b_c=n + 1}", deps=["Zzz"], locals=["n"]),
        D("mkA", "let mkA (n:int) =\n  {a_b=n; c=n + 1}", deps=["Aaa"], locals=["n"]),
    ]}


def filler_type(i, refs=9):
    """an unrelated type group with `refs` forward references"""
    names = ["F%d_%d" % (i, k) for k in range(refs + 1)]
    lines = ["type %s = {A0: %s; N: int}" % (names[0], names[1])]
    for k in range(1, refs):
        lines.append("and %s = {A%d: []%s; M: int}" % (names[k], k, names[k + 1]))
    lines.append("and %s = {Z: int}" % names[refs])
    return D("F%d" % i, "\n".join(lines), decls=type_decls(*names), istype=True, tva=0, fwd=refs)


def filler_fun(i, width=12):
    """an unrelated generic function allocating many inference variables"""
    ps = ["p%d" % k for k in range(width)]
    body = "  let t0 = (%s, %s)\n" % (ps[0], ps[1])
    for k in range(2, width):
        body += "  let t%d = (t%d, %s)\n" % (k - 1, k - 2, ps[k])
    body += "  t%d" % (width - 2)
    return D("g%d" % i, "let g%d %s =\n%s" % (i, " ".join(ps), body), tva=3 * width, locals=ps + ["t%d" % k for k in range(width)])


def with_fillers(pkg, ntypes, nfuns):
    p = dict(pkg)
    p["name"] = pkg["name"] + "+fillers"
    p["defs"] = list(pkg["defs"]) + [filler_type(i) for i in range(ntypes)] + [filler_fun(i) for i in range(nfuns)]
    return p


def packages(tier):
    ps = [shapes(), groups(), collide(), samefields()]
    ps.append(with_fillers(groups(), 13, 0))       # > 100 forward references over the run
    ps.append(with_fillers(shapes(), 0, 6))        # > 100 inference variables over the run
    return ps
