"""Shared pipeline of C01 / C17 / C03: abstract programs -> .fo -> transpiler under test -> Go build -> run -> traces ->
trace validation against spec/FoSem.tla (FoSemTrace)."""
import json
import os
import re
import shutil

from . import core, fcutil, fogen, slicecheck
from .core import Infra


def transpile_all(ctx, wd, progs, texts, transpiler="fc", foi=None):
    """one transpiler process per program; returns dict id -> (rc, diag)"""
    names = []
    for p, t in zip(progs, texts):
        n = "p%d" % p["id"]
        with open(os.path.join(wd, n + ".fo"), "w") as f:
            f.write(t)
        names.append(n)
    if transpiler == "fc":
        res = fcutil.run_fc_many(ctx, wd, names)
    else:
        res = fcutil.run_fc_many(ctx, wd, names, fcbin=ctx.build("tinyfo"), foi=foi)
    out = {}
    for p, n in zip(progs, names):
        rc, so, se = res[n]
        gen = os.path.join(wd, "gen_" + n + ".go")
        diag = (so.splitlines()[-1] if so.strip() else "") + " " + se.strip()[-300:]
        out[p["id"]] = (rc if os.path.exists(gen) or rc != 0 else 99, diag.strip()[:400])
    return out


def build_and_run(ctx, wd, ids, batch_no, extra_go=None, main_call=None, pkgs=("frt", "slice", "strings", "dict", "buf")):
    """compile the emitted programs of ids together with probe.go and run them; returns (traces, status)
    traces: id -> {"events": [[tag, shown]], "status": "ok"|"panic", "result": text}; status: id -> failure text"""
    d = ctx.go_module("sembatch%s" % batch_no, pkgs=pkgs)
    shutil.copy(os.path.join(core.VERIF, "harness", "probe", "probe.go"), os.path.join(d, "probe.go"))
    for fn, text in (extra_go or {}).items():
        with open(os.path.join(d, fn), "w") as f:
            f.write(text)
    live = list(ids)
    status = {}
    for i in live:
        shutil.copy(os.path.join(wd, "gen_p%d.go" % i), os.path.join(d, "gen_p%d.go" % i))
    for attempt in range(10):
        main = ["package main", "", "func main() {", "\tdefer probeOut.Flush()"]
        for i in live:
            main.append("\trunProgram(%d, func() any { return %s })" % (i, (main_call or (lambda k: "p%dmain()" % k))(i)))
        main.append("}")
        with open(os.path.join(d, "main.go"), "w") as f:
            f.write("\n".join(main) + "\n")
        rc, so, se = ctx.go_build(d, out="sembatch", timeout=1800, all_errors=True)
        if rc == 0:
            break
        hit = {}
        for m in re.finditer(r"gen_p(\d+)\.go:(\d+):\d+: (.*)", so + se):
            hit.setdefault(int(m.group(1)), m.group(3))
        hit = {k: v for k, v in hit.items() if k in live}
        if not hit:
            raise Infra("go build of emitted programs failed for another reason: " + (so + se)[-2500:])
        for k, msg in hit.items():
            status[k] = "emitted Go does not compile: " + msg[:300]
            live.remove(k)
            os.remove(os.path.join(d, "gen_p%d.go" % k))
    else:
        raise Infra("go build of emitted programs keeps failing")
    rc, so, se = core.sh([os.path.join(d, "sembatch")], timeout=900)
    if rc != 0:
        raise Infra("batch of emitted programs crashed outside recover (exit %d): %s" % (rc, se[-1500:]))
    traces = {}
    cur = None
    for line in so.split("\n"):
        p = line.split("\t")
        if p[0] == "BEGIN":
            cur = int(p[1])
            traces[cur] = {"events": [], "status": "", "result": ""}
        elif p[0] == "EV" and cur is not None and len(p) >= 3:
            traces[cur]["events"].append([p[1], "\t".join(p[2:])])
        elif p[0] == "END" and cur is not None:
            traces[cur]["status"] = p[2]
            traces[cur]["result"] = "\t".join(p[3:])
            cur = None
    shutil.rmtree(d, ignore_errors=True)
    return traces, status


def validate(ctx, progs, observed):
    """observed: id -> {"events", "status", "result"}; returns list of (index into progs, position, expected text)"""
    sd = ctx.spec_dir()
    core.write_ndjson(os.path.join(sd, "sem_progs.ndjson"), [fogen.to_spec(p) for p in progs])
    core.write_ndjson(os.path.join(sd, "sem_trace.ndjson"), [dict(observed[p["id"]], id=p["id"]) for p in progs])
    r = ctx.tlc("FoSemTrace", "FoSemTrace.cfg", workers=1, timeout=6000, heap_gb=8)
    m = re.search(r'<<\s*"TRACE-END",\s*(\d+),\s*<<(.*?)>>\s*>>\s*$', r["out"][r["out"].rfind("TRACE-END") - 10:].split("\n1 states")[0], re.S)
    if "TRACE-END" not in r["out"]:
        raise Infra("trace validation did not finish:\n" + r["out"][-3000:])
    bad = []
    for m in re.finditer(r'<<\s*"MISMATCH",\s*(\d+),\s*(\d+),\s*<<(.*?)>>\s*>>', r["out"], re.S):
        bad.append((int(m.group(1)) - 1, int(m.group(2)), re.sub(r"\s+", " ", m.group(3))))
    return bad
