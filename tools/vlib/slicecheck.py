"""C12 / C13: pkg/slice against SliceLib.tla / GoSliceHeap.tla."""
import json
import os
import re
import shutil

from . import core
from .core import Infra


def build_driver(ctx, name):
    d = ctx.go_module(name)
    src = os.path.join(core.VERIF, "harness", name)
    for fn in os.listdir(src):
        if fn.endswith(".go"):
            shutil.copy(os.path.join(src, fn), os.path.join(d, fn))
    rc, so, se = ctx.go_build(d, out=name)
    if rc != 0:
        # the driver only uses the public API of the package: if it does not compile the API changed
        raise Infra("driver %s does not build against the working tree:\n%s" % (name, (so + se)[-3000:]))
    return os.path.join(d, name)


def parse_trace_end(out, tag="TRACE-END"):
    m = re.search(r'<<\s*"' + tag + r'",\s*(\d+),\s*<<(.*?)>>\s*>>', out, re.S)
    if not m:
        raise Infra("trace validation did not reach the end of the trace:\n" + out[-3000:])
    n = int(m.group(1))
    body = m.group(2).strip()
    bad = [int(x) for x in re.findall(r"\d+", body)] if body else []
    return n, bad


def write_cfg(ctx, name, text):
    p = os.path.join(ctx.spec_dir(), name)
    with open(p, "w") as f:
        f.write(text)
    return name


# ------------------------------------------------------------------------------------------ C13
def run_cases(ctx, E, N, replay_case=None):
    sd = ctx.spec_dir()
    drv = build_driver(ctx, "drv_slice")
    cases_file = os.path.join(sd, "slice_cases.ndjson")
    if replay_case is None:
        write_cfg(ctx, "SliceCases_run.cfg",
                  "CONSTANTS\n  E = {%s}\n  N = %d\n  OutFile = \"slice_cases.ndjson\"\nINIT Init\nNEXT Next\n" % (
                      ", ".join(map(str, E)), N))
        r = ctx.tlc("SliceCases", "SliceCases_run.cfg", workers=1, timeout=3000, heap_gb=6)
        if not os.path.exists(cases_file):
            raise Infra("TLC did not export the case table")
        # seeded long sequences (lengths up to 80, values 0..9 with many duplicates): the post-conditions of SliceLib.tla judge them
        # like every other recorded call (size-dependent behaviour, e.g. a fast path for short inputs, is out of reach of the
        # exhaustive table)
        extra = []
        rng = ctx.rng
        def U(op, s, **kw):
            c = {"op": op, "s": s, "s2": [], "ss": [], "n": 0, "e": 0, "f": "", "acc": 0}
            c.update(kw)
            return c
        for _ in range(60 if ctx.tier != "thorough" else 400):
            n = rng.choice([9, 16, 17, 31, 32, 33, 34, 40, 64, 65, 80])
            sq = [rng.randint(0, 9) for _ in range(n)]
            if rng.random() < 0.3:
                sq = [rng.randint(0, 40) for _ in range(n)]
            k = rng.randint(0, n)
            extra += [U("Distinct", sq), U("Sort", sq), U("SortBy", sq, f=rng.choice(["neg", "mod2", "id"])), U("Take", sq, n=k), U("Skip", sq, n=k),
                      U("Filter", sq, f="isEven"), U("Map", sq, f="inc"), U("Fold", sq, f="add", acc=1), U("Fold", sq, f="sub", acc=0),
                      U("Append", sq[:k], s2=sq[k:]), U("Concat", [], ss=[sq[:k], sq[k:], sq[:3]]), U("TryFind", sq, f="gt1"), U("Last", sq),
                      U("Item", sq, n=max(0, k - 1)), U("PushLast", sq, e=7), U("PushHead", sq, e=7), U("Tail", sq), U("PopLast", sq),
                      U("Zip", sq, s2=list(reversed(sq))), U("Collect", sq[:20], f="rep"), U("Mapi", sq, f="idxPlus"), U("Forall", sq, f="isPos"),
                      U("Length", sq)]
        with open(cases_file, "a") as fh:
            for c in extra:
                fh.write(json.dumps(c, separators=(",", ":")) + "\n")
    else:
        core.write_ndjson(cases_file, [replay_case])
    lines = []
    # a third instantiation, ints that are FAR APART (elements 0..5 become multiples of 2^61: their differences overflow int64), for the
    # calls that only move or compare elements (no arithmetic on them)
    xops = ("Sort", "SortBy", "Distinct", "Take", "Skip", "Tail", "PopLast", "Append", "Concat", "Last", "Head", "Item", "Length", "Forall", "Forany", "Filter")       # (not TryFind: its not-found result is the zero value, which is an element here)
    xfile = os.path.join(sd, "slice_cases_xint.ndjson")
    with open(xfile, "w") as fx:
        for ln in open(cases_file):
            c = json.loads(ln)
            vals = list(c.get("s", [])) + list(c.get("s2", [])) + [v for q in c.get("ss", []) for v in q]
            if c["op"] in xops and all(0 <= v <= 5 for v in vals):
                fx.write(ln)
        if replay_case is None:
            # ... and every sequence of 2-4 elements over {0, 1, 2, 4, 5} (the extremes are 5 * 2^61 apart) for the ordering functions
            import itertools as _it
            for n in (2, 3, 4):
                for sq in _it.product([0, 1, 2, 4, 5], repeat=n):
                    for op, f in (("Sort", ""), ("SortBy", "id"), ("Distinct", "")):
                        fx.write(json.dumps({"op": op, "s": list(sq), "s2": [], "ss": [], "n": 0, "e": 0, "f": f, "acc": 0}, separators=(",", ":")) + "\n")
    # a fourth instantiation for Distinct: elements of a STRUCT type (pairs of strings) several of which print alike
    pfile = os.path.join(sd, "slice_cases_pair.ndjson")
    with open(pfile, "w") as fp:
        if replay_case is None:
            import itertools as _it2
            for n in (1, 2, 3, 4):
                for sq in _it2.product(range(6), repeat=n):
                    fp.write(json.dumps({"op": "Distinct", "s": list(sq), "s2": [], "ss": [], "n": 0, "e": 0, "f": "", "acc": 0}, separators=(",", ":")) + "\n")
            for sq in ([6, 7, 8, 9, 6, 8], [9, 8, 7, 6, 5, 4, 3, 2, 1, 0], [0, 1, 0, 1, 2, 3, 2, 3]):
                fp.write(json.dumps({"op": "Distinct", "s": sq, "s2": [], "ss": [], "n": 0, "e": 0, "f": "", "acc": 0}, separators=(",", ":")) + "\n")
        elif replay_case.get("op") == "Distinct" and all(0 <= v <= 9 for v in replay_case.get("s", [])):
            fp.write(json.dumps(replay_case, separators=(",", ":")) + "\n")
    for inst in ("int", "string", "xint", "pair"):
        outp = os.path.join(sd, "slice_out_%s.ndjson" % inst)
        rc, so, se = core.sh([drv, "cases", {"xint": xfile, "pair": pfile}.get(inst, cases_file), outp, inst], timeout=1800)
        if rc != 0:
            raise Infra("drv_slice failed: %s %s" % (so[-1000:], se[-2000:]))
        lines += core.read_ndjson(outp)
    core.write_ndjson(os.path.join(sd, "slice_trace.ndjson"), lines)
    r = ctx.tlc("SliceLibTrace", "SliceLibTrace.cfg", workers=1, timeout=3000, heap_gb=6)
    n, bad = parse_trace_end(r["out"])
    n2, bad_pure = parse_trace_end(r["out"], "PURE-END")
    if n != len(lines):
        raise Infra("trace length mismatch %d vs %d" % (n, len(lines)))
    return lines, bad, bad_pure


CASE_KEYS = ("op", "s", "s2", "ss", "n", "e", "f", "acc")


def c13(ctx):
    ctx.rule = ("every function of pkg/slice x every sequence over E of length <= N x every index/count in its domain x "
                "every function argument of the family (enumerated by TLC from SliceCases.tla), executed on the real "
                "package for T=int and T=string and for 3 memory shapes of the argument (exact, spare capacity, view of a "
                "live parent); distinct = distinct (op, arguments, instantiation, shape); non-trivial = at least one "
                "non-empty slice argument")
    if ctx.tier == "thorough":
        E, N = [0, 1, 2, 3], 5
    else:
        E, N = [1, 2, 3], 4
    lines, bad, _ = run_cases(ctx, E, N)
    for i, t in enumerate(lines):
        key = [t[k] for k in CASE_KEYS] + [t["inst"], t["shape"]]
        ctx.case(key, nontrivial=bool(t["s"] or t["s2"] or t["ss"]),
                 sample={k: t[k] for k in ("op", "s", "n", "f", "ret", "inst", "shape")} if i % 1999 == 7 else None)
    ctx.traces = 2
    ctx.extra["trace_lines"] = len(lines)
    ctx.extra["universe"] = {"E": E, "N": N}
    ctx.exhaustive = True
    for b in bad[:50]:
        t = lines[b - 1]
        ctx.violation("slice.%s: recorded call violates its specification: %s" % (t["op"], json.dumps(t)),
                      {"kind": "case", "case": {k: t[k] for k in CASE_KEYS}, "recorded": t})
    ctx.assumptions += ["SliceLib.tla is the intended meaning of the F#-List style functions (written from the property text and slice.foi)",
                        "the Go driver harness/drv_slice performs the calls and records results faithfully",
                        "string instantiation is exercised through an order isomorphism int -> fixed-width decimal string"]


def c13_replay(ctx, rep):
    lines, bad, _ = run_cases(ctx, None, None, replay_case=rep["case"])
    for b in bad:
        t = lines[b - 1]
        ctx.violation("slice.%s: recorded call violates its specification: %s" % (t["op"], json.dumps(t)),
                      {"kind": "case", "case": rep["case"], "recorded": t})


# ------------------------------------------------------------------------------------------ C12
DEVS = ["PushLast", "Sort", "Take", "Append", "Filter", "Collect", "CollectNE", "Concat"]


def hist_from_dump(path):
    """last state of a TLC -dumpTrace json counterexample: {"counterexample": {"state": [[n, {vars}], ...]}}"""
    with open(path) as f:
        d = json.load(f)
    states = d.get("counterexample", d).get("state") or []
    if not states:
        return None
    return states[-1][1].get("hist")


def deviation_histories(ctx):
    """TLC finds, for each named wrong implementation, the shortest history breaking Purity in the model.
    These histories are the discriminating ones: they are replayed on the real code."""
    hists = []
    sd = ctx.spec_dir()
    for dev in DEVS:
        dump = os.path.join(sd, "ce_%s.json" % dev)
        r = ctx.tlc("GoSliceHeapMC", "GoSliceHeap_dev%s.cfg" % dev, workers=4, timeout=900, allow_fail=True,
                    extra=["-dumpTrace", "json", dump])
        if "Invariant Purity is violated" not in r["out"]:
            raise Infra("self-test: deviation %s does not violate Purity in the model (vacuous invariant?)\n%s" % (dev, r["out"][-2000:]))
        hst = hist_from_dump(dump) if os.path.exists(dump) else None
        if not hst:
            raise Infra("could not read the counterexample of deviation %s" % dev)
        hists.append(hst)
    return hists


def simulate_histories(ctx, num, seed, max_steps=7):
    sd = ctx.spec_dir()
    cfg = open(os.path.join(sd, "GoSliceHeap_sim.cfg")).read()
    cfg = re.sub(r"MaxSteps = \d+", "MaxSteps = %d" % max_steps, cfg)
    write_cfg(ctx, "GoSliceHeap_sim_run.cfg", cfg)
    r = ctx.tlc("GoSliceHeapMC", "GoSliceHeap_sim_run.cfg", workers=1, simulate="num=%d" % num, depth=max_steps + 3,
                seed=seed, timeout=3000)
    hists = []
    for m in re.finditer(r'<<"HIST", "(.*)">>', r["out"]):
        s = json.loads('"' + m.group(1) + '"')
        hists.append(json.loads(s))
    if not hists:
        raise Infra("simulation exported no history:\n" + r["out"][-2000:])
    return hists


def validate_histories(ctx, hists):
    sd = ctx.spec_dir()
    drv = build_driver(ctx, "drv_slice")
    hf = os.path.join(sd, "hists.ndjson")
    core.write_ndjson(hf, hists)
    lines = []
    for inst in ("int", "string"):
        outp = os.path.join(sd, "heap_out_%s.ndjson" % inst)
        rc, so, se = core.sh([drv, "hist", hf, outp, inst], timeout=1800)
        if rc != 0:
            raise Infra("drv_slice failed: %s %s" % (so[-1000:], se[-2000:]))
        part = core.read_ndjson(outp)
        for t in part:
            t["inst"] = inst
        lines += part
    core.write_ndjson(os.path.join(sd, "heap_trace.ndjson"), lines)
    r = ctx.tlc("GoSliceHeapTrace", "GoSliceHeapTrace.cfg", workers=1, timeout=3000, heap_gb=6, allow_fail=True)
    if not r["ok"]:
        if "Invariant Purity is violated" in r["out"]:
            raise Infra("Purity violated inside the trace specification's own machine (model error):\n" + r["out"][-3000:])
        raise Infra("TLC failed on the heap trace:\n" + r["out"][-4000:])
    n, bad = parse_trace_end(r["out"])
    if n != len(lines):
        raise Infra("trace length mismatch %d vs %d" % (n, len(lines)))
    return lines, bad


def describe_bad(lines, hists, b):
    t = lines[b - 1]
    hist = hists[t["h"] - 1]
    return t, hist


def c12(ctx):
    ctx.rule = ("histories = behaviours of the heap machine GoSliceHeap (TLC simulation seeded by VERIF_SEED, initial values of "
                "every (offset, length, capacity) shape over arrays <= 3, plus the shortest Purity counterexamples TLC finds for 8 "
                "named wrong implementations), replayed on the real package for T=int and T=string; after every call the observed "
                "contents of every pool value are validated against the machine (GoSliceHeapTrace). distinct = distinct "
                "histories; non-trivial = contains a call on a value with spare capacity or an alias (Tail/PopLast result or an "
                "initial view with cap > len)")
    # R1: the design model itself
    r = ctx.tlc("GoSliceHeapMC", "GoSliceHeap_mc.cfg", workers=8, timeout=3000, heap_gb=8, allow_fail=True,
                coverage=(ctx.tier == "thorough"))
    if not r["ok"]:
        raise Infra("the heap machine (no deviation) does not satisfy its own invariants - model error:\n" + r["out"][-3000:])
    ctx.extra["model_states"] = r["distinct"]
    # (that run also checks the action property AbsRefines: every step is a step of the abstract machine GoHeapAbs)
    # unbounded: Purity of the abstract machine for pools, arrays and histories of any size (TLA+ proof system)
    ctx.extra["tlaps_obligations_proved_GoHeapAbsProof"] = ctx.tlapm("GoHeapAbsProof")
    # R2: histories
    hists = deviation_histories(ctx)
    ctx.extra["deviation_counterexamples"] = [[s["op"] for s in hh] for hh in hists]
    n_dev = len(hists)
    if ctx.tier == "thorough":
        for k in range(6):
            hists += simulate_histories(ctx, 2500, ctx.seed * 100 + k, max_steps=6 + k % 4)
    else:
        hists += simulate_histories(ctx, 1200, ctx.seed, max_steps=7)
    lines, bad = validate_histories(ctx, hists)
    # single calls of the whole C13 case table, on arguments that are views of a live parent value
    clines, _, cbad_pure = run_cases(ctx, [1, 2, 3], 4 if ctx.tier == "thorough" else 3)
    for t in clines:
        ctx.case(["case"] + [t[k] for k in CASE_KEYS] + [t["inst"], t["shape"]], nontrivial=(t["shape"] > 0 and bool(t["s"])))
    for b in cbad_pure[:20]:
        t = clines[b - 1]
        ctx.violation("slice.%s changed an existing value: argument %s -> %s, parent %s -> %s" % (
            t["op"], t["s"], t["after"], t["parent0"], t["parent1"]),
            {"kind": "case", "case": {k: t[k] for k in CASE_KEYS}, "recorded": t})
    for i, hh in enumerate(hists):
        alias = False
        shapes = {}
        idx = 0
        for s in hh:
            idx += 1
            if s["op"] == "Init":
                shapes[idx] = (s["i"] - s["j"] > s["n"])   # cap > len
            else:
                if s["op"] in ("Tail", "PopLast"):
                    shapes[idx] = True
                else:
                    shapes[idx] = False
                if shapes.get(s["i"]) or (s["j"] and shapes.get(s["j"])):
                    alias = True
        ctx.case(hh, nontrivial=alias, sample=[("%s(%s)" % (s["op"], ",".join(str(s[k]) for k in ("i", "j", "n", "e", "f") if s[k] not in (0, "")))) for s in hh] if i in (0, n_dev, n_dev + 1) else None)
    ctx.traces = 2 * len(hists)
    ctx.extra["trace_lines"] = len(lines)
    seen = set()
    for b in bad:
        t, hist = describe_bad(lines, hists, b)
        key = core.h(hist[:t["k"]])
        if key in seen:
            continue
        seen.add(key)
        ctx.violation("pkg/slice history rejected at step %d (%s, T=%s): observed pool %s%s" % (
            t["k"], t["op"], t["inst"], json.dumps(t["pool"]), (" panic: " + t["panic"]) if t["panic"] else ""),
            {"kind": "history", "history": hist[:t["k"]], "recorded": t})
    ctx.assumptions += ["a slice value is observed through its contents only (len/cap are recorded but not judged)",
                        "histories are straight-line sequences of library calls, as in the property's quantifier"]


def c12_replay(ctx, rep):
    if rep.get("kind") == "case":
        clines, _, cbad = run_cases(ctx, None, None, replay_case=rep["case"])
        for b in cbad:
            t = clines[b - 1]
            ctx.violation("slice.%s changed an existing value" % t["op"], {"kind": "case", "case": rep["case"], "recorded": t})
        return
    hists = [rep["history"]]
    lines, bad = validate_histories(ctx, hists)
    for b in bad:
        t, hist = describe_bad(lines, hists, b)
        ctx.violation("pkg/slice history rejected at step %d (%s)" % (t["k"], t["op"]), {"kind": "history", "history": hist, "recorded": t})
