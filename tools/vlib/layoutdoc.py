"""Layout documents for C06: Folang programs as trees with layout decision points.

render(doc, vec) -> text.  The decision points are visited in a fixed pre-order that depends on the document only (never
on earlier choices); alternative 0 of every point is the canonical layout.  Kinds of decision point (all named in the
property): indent string of a block, noise before an item (blank lines, // and /* */ comments, multi-line block comment,
comment at column 0), trailing spaces / comment after a line, if on one line or several, right-hand side of a let / body of
a function / body of a match arm on the same or the next line, arms at the match column or deeper, line break before |>.
"""

INDENTS = ["  ", " ", "   ", "    ", "        ", "\t", "\t\t"]
NOISE = 10
TRAIL = 6


class Ch:
    def __init__(self, vec=None):
        self.vec = vec
        self.i = 0
        self.arity = []

    def pick(self, n):
        self.arity.append(n)
        v = 0
        if self.vec is not None and self.i < len(self.vec):
            v = self.vec[self.i] % n
        self.i += 1
        return v


def noise(ch, ind):
    k = ch.pick(NOISE)
    return {0: [], 1: [""], 2: ["", "   "], 3: [ind + "// a line comment"], 4: [ind + "/* a block comment */"],
            5: ["/* a block comment", "   over several lines", "*/"], 6: ["// comment at column 0"],
            7: [ind + "/** starred comment **/"], 8: [ind + "/***/", ind + "/**** banner * with / stars ****/"],
            9: [ind + "// comment with /* inside", ind + "/* and // inside */"]}[k]


def trail(ch):
    return ["", "  ", " // trailing comment", " /* trailing */", " /** starred **/", "\t/**/"][ch.pick(TRAIL)]


# ---------------------------------------------------------------- nodes
class Expr:
    def __init__(self, text):
        self.text = text

    def single(self):
        return True

    def lines(self, ch, ind):
        return [ind + self.text + trail(ch)]

    def inline(self, ch):
        """render as the rest of a line (consumes the same decision points as lines())"""
        t = trail(ch)
        return self.text + t


class Pipe:
    def __init__(self, head, stages):
        self.head, self.stages = head, stages

    def single(self):
        return False

    def lines(self, ch, ind):
        mode = ch.pick(3)          # 0: one line, 1: break before every |> at the block column, 2: ... deeper
        brk = [ch.pick(2) for _ in self.stages]      # per stage, in mode 0: stay on the line
        out = [ind + self.head]
        for s, b in zip(self.stages, brk):
            if mode == 0 or (b == 1 and mode != 0 and False):
                out[-1] += " |> " + s
            else:
                if b == 1:          # keep this stage on the previous line
                    out[-1] += " |> " + s
                else:
                    # the line before a continuation line may end with a comment, and blank / comment lines may precede it
                    out[-1] += trail(ch)
                    out.extend(noise(ch, ind))
                    out.append(ind + ("" if mode == 1 else "    ") + "|> " + s)
        out[-1] += trail(ch)
        return out


class Block:
    def __init__(self, *stmts):
        self.stmts = list(stmts)

    def single(self):
        return len(self.stmts) == 1 and isinstance(self.stmts[0], Expr)

    def lines(self, ch, ind):
        out = []
        for s in self.stmts:
            out += noise(ch, ind)
            out += s.lines(ch, ind)
        return out


class Let:
    def __init__(self, name, rhs):
        self.name, self.rhs = name, rhs

    def single(self):
        return False

    def lines(self, ch, ind):
        where = ch.pick(2)                 # 0: right-hand side on the same line, 1: on the next line (deeper)
        sub = ind + INDENTS[ch.pick(len(INDENTS))]
        if isinstance(self.rhs, Expr):
            body = self.rhs.lines(ch, sub)
            if where == 0:
                return [ind + "let %s = " % self.name + body[0][len(sub):]]
            return [ind + "let %s =" % self.name + trail(ch)] + body
        # block form (if / match): same line -> the construct starts after `= `, its continuation lines use the deeper indent
        head = "let %s = " % self.name
        if where == 0:
            ls = self.rhs.lines(ch, sub, first_prefix=ind + head)
            return ls
        return [ind + "let %s =" % self.name + trail(ch)] + self.rhs.lines(ch, sub)


class If:
    def __init__(self, cond, then, els=None, elifs=(), force_one=False):
        self.cond, self.then, self.els, self.elifs = cond, then, els, list(elifs)
        self.force_one = force_one         # always on one line (an if without else that ends the then-block of an if WITH else: its
                                           # several-line form is the known finding dangling-else-inner-if-only)

    def single(self):
        return False

    def lines(self, ch, ind, first_prefix=None):
        fp = first_prefix if first_prefix is not None else ind
        oneline = ch.pick(2)               # 1: `if c then a else b` on one line (only when both branches are single expressions)
        can_one = self.then.single() and (self.els is None or self.els.single()) and not self.elifs
        tsub = ind + INDENTS[ch.pick(len(INDENTS))]
        tl = self.then.lines(ch, tsub)
        parts = []
        for c, b in self.elifs:
            esub = ind + INDENTS[ch.pick(len(INDENTS))]
            parts.append((c, b.lines(ch, esub)))
        el = None
        else_same = 0
        if self.els is not None:
            else_same = ch.pick(3)         # 1: a single-expression else branch on the `else` line; 2: an else branch of several statements
                                           #    starting on the `else` line, its other lines at the column of its first token
            esub = ind + INDENTS[ch.pick(len(INDENTS))]
            if else_same == 2 and not self.els.single():
                esub = " " * len(ind + "else ")
            el = self.els.lines(ch, esub)
            el_sub = esub
        if (oneline == 1 or self.force_one) and can_one:
            t = [x for x in tl if x.strip() and not x.strip().startswith(("//", "/*", "over", "*/"))]
            # one-line form drops the noise lines of the branches (they are layout, not content)
            tx = self.then.stmts[0].text
            s = fp + "if %s then %s" % (self.cond, tx)
            if self.els is not None:
                s += " else %s" % self.els.stmts[0].text
            return [s]
        # (a comment may follow then / else / -> / = at the end of the line that opens a block)
        out = [fp + "if %s then" % self.cond + trail(ch)] + tl
        for c, bl in parts:
            out.append(ind + "elif %s then" % c + trail(ch))
            out += bl
        if el is not None:
            if else_same == 1 and self.els.single():
                out.append(ind + "else " + self.els.stmts[0].text)
            elif else_same == 2 and not self.els.single() and el and el[0].startswith(el_sub) and el[0][len(el_sub):len(el_sub) + 1] not in ("", "/", " ", "\t"):
                out.append(ind + "else " + el[0][len(el_sub):])
                out += el[1:]
            else:
                out.append(ind + "else" + trail(ch))
                out += el
        return out


class Match:
    def __init__(self, target, arms):
        self.target, self.arms = target, arms      # arms: [(pattern, Block)]

    def single(self):
        return False

    def lines(self, ch, ind, first_prefix=None):
        fp = first_prefix if first_prefix is not None else ind
        armind = ind + ["", "  ", " "][ch.pick(3)]   # arms at the match column or deeper
        out = [fp + "match %s with" % self.target + trail(ch)]
        for pat, body in self.arms:
            out += noise(ch, armind)
            same = ch.pick(3)              # 0: body on the next line, 1: a single-expression body on the arm's line,
                                           # 2: a body of several statements (or a nested if / match) starting on the arm's line,
                                           #    its other lines at the column of its first token
            sub = armind + INDENTS[ch.pick(len(INDENTS))]
            prefix = armind + "| %s -> " % pat
            if same == 2 and not body.single():
                sub = " " * len(prefix)
            bl = body.lines(ch, sub)
            if same == 1 and body.single():
                out.append(armind + "| %s -> %s" % (pat, body.stmts[0].text))
            elif same == 2 and not body.single() and bl and bl[0].startswith(sub) and bl[0][len(sub):len(sub) + 1] not in ("", "/", " ", "\t"):
                out.append(prefix + bl[0][len(sub):])
                rest = bl[1:]
                if len(body.stmts) == 1 and isinstance(body.stmts[0], Pipe) and ch.pick(2) == 1:
                    # a pipeline as the arm's body: its continuation lines need not stand under its first token (which is mid-line), an
                    # operator at the head of a line continues the expression wherever the line starts inside the arm
                    rest = [(armind + "    " + l.lstrip()) if l.lstrip().startswith("|>") else l for l in rest]
                out += rest
            else:
                out.append(armind + "| %s ->" % pat + trail(ch))
                out += bl
        return out


class Fn:
    def __init__(self, header, body):
        self.header, self.body = header, body

    def lines(self, ch, ind=""):
        same = ch.pick(2)                  # 1: a single-expression body on the `=` line
        sub = INDENTS[ch.pick(len(INDENTS))]
        bl = self.body.lines(ch, sub)
        if same == 1 and self.body.single():
            return ["let %s = %s" % (self.header, self.body.stmts[0].text)]
        return ["let %s =%s" % (self.header, trail(ch))] + bl


class LocalFn:
    """a function defined inside a block: let g (y:int) = <block>"""

    def __init__(self, header, body):
        self.header, self.body = header, body

    def single(self):
        return False

    def lines(self, ch, ind):
        same = ch.pick(2)                  # 1: a single-expression body on the `=` line
        sub = ind + INDENTS[ch.pick(len(INDENTS))]
        bl = self.body.lines(ch, sub)
        if same == 1 and self.body.single():
            return [ind + "let %s = %s" % (self.header, self.body.stmts[0].text)]
        return [ind + "let %s =" % self.header] + bl


class LamLet:
    """let g = fun x -> <block>: the body on the same line (single expression) or as a deeper block on the next lines"""

    def __init__(self, name, params, body):
        self.name, self.params, self.body = name, params, body

    def single(self):
        return False

    def lines(self, ch, ind):
        same = ch.pick(2)
        sub = ind + INDENTS[ch.pick(len(INDENTS))]
        bl = self.body.lines(ch, sub)
        if same == 1 and self.body.single():
            return [ind + "let %s = fun %s -> %s" % (self.name, self.params, self.body.stmts[0].text)]
        return [ind + "let %s = fun %s ->" % (self.name, self.params)] + bl


class Raw:
    """top-level text rendered as is (package clause, imports, one-line declarations)"""

    def __init__(self, text):
        self.text = text

    def lines(self, ch, ind=""):
        return self.text.split("\n")


class RecordType:
    def __init__(self, name, fields):
        self.name, self.fields = name, fields

    def lines(self, ch, ind=""):
        multi = ch.pick(2)
        sub = INDENTS[ch.pick(len(INDENTS))]
        ns = [noise(ch, sub) for _ in self.fields]
        last = noise(ch, sub)          # between the last field and the closing brace
        if multi == 0:
            return ["type %s = {%s}" % (self.name, "; ".join(self.fields))]
        out = ["type %s = {" % self.name + trail(ch)]
        for f, n in zip(self.fields, ns):
            out += n
            out.append(sub + f + ";" + trail(ch))
        out += last
        out.append("}")
        return out


class UnionType:
    def __init__(self, name, cases):
        self.name, self.cases = name, cases

    def lines(self, ch, ind=""):
        cind = ["", "  ", "    "][ch.pick(3)]
        out = ["type %s =" % self.name]
        for c in self.cases:
            out += noise(ch, cind)
            out.append(cind + "| " + c + trail(ch))
        return out


class Doc:
    def __init__(self, name, items):
        self.name, self.items = name, items

    def render(self, vec=None):
        ch = Ch(vec)
        out = []
        for it in self.items:
            out += noise(ch, "")
            out += it.lines(ch, "")
            out.append("")
        return "\n".join(out) + "\n", ch.arity


E = Expr
B = Block


def docs():
    hdr = Raw("package main\n\nimport frt\nimport slice\nimport strings")
    d1 = Doc("shapes", [
        hdr,
        RecordType("Pt", ["X: int", "Y: int"]),
        UnionType("Shape", ["Circle of int", "Rect of Pt", "Empty"]),
        Fn("area (s:Shape)", B(Match("s", [("Circle r", B(E("r * r * 3"))), ("Rect p", B(E("p.X * p.Y"))), ("Empty", B(E("0")))]))),
        Fn("label (n:int)", B(If("n > 10", B(E("\"big\"")), B(E("\"none\"")), elifs=[("n > 0", B(E("\"small\"")))]))),
        Fn("describe (s:Shape)", B(Let("a", E("area s")), Let("l", E("label a")), E("$\"area={a} label={l}\""))),
        Fn("sumAll (xs:[]int)", B(E("slice.Fold (fun acc x -> acc + x) 0 xs"))),
        Fn("dbl (n:int)", B(E("n * 2"))),
        Fn("inc (n:int)", B(E("n + 1"))),
        Fn("scale (s:Shape)", B(Match("s", [("Circle r", B(Pipe("dbl r", ["inc", "dbl"]))), ("Rect p", B(Pipe("p.X", ["dbl"]))), ("Empty", B(Pipe("0", ["inc"])))]))),
        Fn("main ()", B(Let("shapes", E("[Circle 2; Rect {X=3; Y=4}; Empty]")),
                        Pipe("shapes", ["slice.Map describe", "strings.Concat \", \"", "frt.Println"]),
                        Let("n", If("sumAll [1; 2; 3] > 5", B(E("1")), B(E("2")))),
                        E("frt.Printf1 \"%d\\n\" n"))),
    ])
    d2 = Doc("nested", [
        Raw("package main\n\nimport frt"),
        UnionType("Tok", ["Num of int", "Op of string", "Eof"]),
        UnionType("Mode", ["Strict", "Loose"]),
        Fn("weight (m:Mode) (t:Tok)", B(
            Let("base", Match("m", [("Strict", B(E("10"))), ("Loose", B(E("1")))])),
            Match("t", [
                ("Num n", B(Let("k", E("n + base")), If("k > 100", B(E("100")), B(E("k"))))),
                ("Op s", B(Match("s", [("\"+\"", B(E("1"))), ("\"*\"", B(E("2"))), ("_", B(E("base")))]))),
                ("_", B(E("0")))]))),
        Fn("report (m:Mode) (t:Tok)", B(
            Let("w", E("weight m t")),
            If("w > 5", B(E("frt.Println \"heavy\""), E("frt.Println \"really\""))),
            If("w > 50", B(E("frt.Println \"very heavy\"")), B(E("frt.Println \"not so\""))),
            If("w > 7", B(E("frt.Println \"seven\""), If("w > 8", B(E("frt.Println \"eight\"")), force_one=True)), B(E("frt.Println \"low\""))),
            If("w > 9", B(E("frt.Println \"nine\"")), B(If("w > 3", B(E("frt.Println \"three\"")), force_one=True), E("frt.Println \"not nine\""))),
            E("w"))),
        Fn("main ()", B(Pipe("report Strict (Num 7)", ["frt.Printf1 \"%d\\n\""]),
                        Pipe("Op \"*\"", ["report Loose", "frt.Printf1 \"%d\\n\""]))),
    ])
    d3 = Doc("records", [
        Raw("package main\n\nimport frt\nimport slice"),
        RecordType("Item", ["Name: string", "Qty: int", "Tags: []string"]),
        RecordType("Order", ["Id: int", "Items: []Item"]),
        Fn("total (o:Order)", B(Pipe("o.Items", ["slice.Map _.Qty", "slice.Fold (fun a b -> a + b) 0"]))),
        Fn("pick (flag:bool) (a:int) (b:int)", B(If("flag", B(E("a")), B(E("b"))))),
        Fn("main ()", B(
            Let("it", E("{Name=\"n\"; Qty=2; Tags=[\"x\"]}")),
            Let("o", E("{Id=1; Items=[it; it]}")),
            Let("(a, b)", E("(total o, pick true 1 2)")),
            E("frt.Printf1 \"%d\\n\" (a + b)"))),
    ])
    d4 = Doc("machine", [
        Raw("package main\n\nimport frt\nimport slice"),
        UnionType("Cmd", ["Push of int", "Pop", "Add"]),
        RecordType("St", ["Stack: []int", "Count: int"]),
        Fn("step (s:St) (c:Cmd)", B(
            LocalFn("bump (n:int)", B(Let("range", E("n + 1")), E("range"))),
            LamLet("dbl", "x", B(Let("y", E("x * 2")), E("y"))),
            Let("next", Match("c", [
                ("Push n", B(E("slice.PushLast n s.Stack"))),
                ("Pop", B(If("slice.IsEmpty s.Stack", B(E("s.Stack")), B(E("slice.PopLast s.Stack"))))),
                ("Add", B(Let("k", E("slice.Length s.Stack")),
                          If("k > 1", B(E("[dbl k]")), B(E("s.Stack")), elifs=[("k = 1", B(E("[bump k]")))])))])),
            E("{Stack=next; Count=bump s.Count}"))),
        Fn("main ()", B(
            Let("s0", E("{Stack=[1]; Count=0}")),
            Let("r", E("slice.Fold step s0 [Push 2; Add; Pop]")),
            E("frt.Printf1 \"%d\\n\" r.Count"))),
    ])
    return [d1, d2, d3, d4]


def dedent_pairs():
    """(name, text A with a dedented last line, text B = the document that dedent denotes, text A0 = A before the dedent)"""
    h = "package main\n\nimport frt\n\n"
    ps = []
    ps.append(("if-then-block",
               h + "let f (a:int) =\n  if a > 0 then\n    frt.Println \"pos\"\n  frt.Println \"x\"\n",
               h + "let f (a:int) =\n    if a > 0 then\n        frt.Println \"pos\"\n    frt.Println \"x\"\n",
               h + "let f (a:int) =\n  if a > 0 then\n    frt.Println \"pos\"\n    frt.Println \"x\"\n"))
    ps.append(("arm-body",
               h + "type U =\n| A\n| B\n\nlet f (u:U) (n:int) =\n  let r = match u with\n          | A -> 1\n          | B ->\n            let k = n + 1\n            k\n  r + 1\n",
               h + "type U =\n| A\n| B\n\nlet f (u:U) (n:int) =\n   let r = match u with\n           | A -> 1\n           | B ->\n               let k = n + 1\n               k\n   r + 1\n",
               None))
    ps.append(("nested-match",
               h + "type U =\n| A\n| B\n\nlet f (u:U) (v:U) =\n  match u with\n  | A ->\n    match v with\n    | A -> 1\n    | B -> 2\n  | B -> 3\n",
               h + "type U =\n| A\n| B\n\nlet f (u:U) (v:U) =\n match u with\n | A ->\n      match v with\n      | A -> 1\n      | B -> 2\n | B -> 3\n",
               None))
    ps.append(("nested-match-default",
               h + "type U =\n| A\n| B\n\nlet f (u:U) (v:U) =\n  match u with\n  | A ->\n    match v with\n    | A -> 1\n    | B -> 2\n  | _ -> 3\n",
               h + "type U =\n| A\n| B\n\nlet f (u:U) (v:U) =\n match u with\n | A ->\n      match v with\n      | A -> 1\n      | B -> 2\n | _ -> 3\n",
               None))
    ps.append(("lambda-block",
               h + "let f (a:int) =\n  let g = fun x ->\n            let y = x + a\n            y * 2\n  g 1\n",
               h + "let f (a:int) =\n    let g = fun x ->\n              let y = x + a\n              y * 2\n    g 1\n",
               None))
    return ps
