"""Functions for C02 with their constraint sets (the documented syntax-directed inference rules, written once here and solved by
spec/FoInfer.tla).  Types are the terms of FoTypeExpr as JSON arrays plus ["var", name].

A generated function: name, params [names], the Folang body lines, eqs [[t1, t2], ...], ptypes [type terms of the
parameters], res (type term of the result).
"""
import copy

INT, STR, BOOL = ["base", "int"], ["base", "string"], ["base", "bool"]

PRELUDE = """package main

import frt
import slice
import strings
import dict

type IR1 = {A: int; B: string}
type IR2 = {Name: string; Vals: []int}
type IR3 = {C: int; D: string}

type IU =
| IC1 of int
| IC2 of int*string
| IC3

type IOpt<T> =
| ISome of T
| INone

type IBox<T> = {Val: T; Tag: string}
type IPair<A, B> = {Fst: A; Snd: B}
type ITagged<T, P> = {TVal: T}
type IRev<A, B> = {RSecond: B; RFirst: A}
type IEither<A, B> =
| ILeft of A
| IRight of B

let ipair a b =
  (a, b)

let iid x =
  x

let iswap p =
  (frt.Snd p, frt.Fst p)

let iconst (n:int) y =
  n

let iunbox (b:IBox<int>) =
  b.Val

let ioptlen (o:IOpt<string>) =
  1

let iwrap x =
  {Val=x; Tag="w"}

let imkint (n:int) =
  {Val=n; Tag="k"}

"""

LIT = {"int": ["lit", "int"], "str": ["lit", "string"], "bool": ["lit", "bool"]}


def V(x):
    return ["var", x]


def call(f, *args):
    return ["call", f, list(args)]



def sl(t):
    return ["slice", t]


def tup(*ts):
    return ["tuple", list(ts)]


def fn(args, r):
    return ["func", list(args), r]


def _mentions(x, name):
    if isinstance(x, list):
        if len(x) == 2 and x[0] == "var" and x[1] == name:
            return True
        return any(_mentions(y, name) for y in x)
    return False


class Fn:
    def __init__(self, rng, idx, callables=()):
        self.rng = rng
        self.callables = list(callables)      # earlier generated functions this one may call (their schemes are inferred by the specification)
        self.deps = []
        self.name = "q%d" % idx
        self.n = 0
        self.eqs = []
        self.env = {}
        self.unused = []
        self.funparams = set()
        self.applied = set()
        self.funlocals = []
        self.stmts = []
        self.forced = {}          # parameters whose type is written in the source whatever the version: name -> (Folang text, type term)
        self.selfcalls = 0

    def fresh(self, base="t"):
        self.n += 1
        return ["var", "%s%d" % (base, self.n)]

    def eq(self, a, b):
        self.eqs.append([a, b])

    def atom(self, text):
        """text as an argument / operand: identifiers, literals and fully bracketed expressions as they are, else parenthesised"""
        import re
        if re.match(r"^[A-Za-z_][\w.]*$|^\d+$|^\"[^\"]*\"$", text):
            return text
        if text[0] in "([{":
            depth = 0
            for i, c in enumerate(text):
                if c in "([{":
                    depth += 1
                elif c in ")]}":
                    depth -= 1
                    if depth == 0:
                        return text if i == len(text) - 1 else "(" + text + ")"
        return "(" + text + ")"

    def var(self, want_fun=False):
        """a variable (prefer ones not used yet)"""
        cand = [x for x in self.env if x not in self.funparams]
        if not cand:
            return None
        pool = [x for x in self.unused if x in cand] or cand
        x = self.rng.choice(pool)
        if x in self.unused:
            self.unused.remove(x)
        return x

    # what each construct yields: "int" / "str" / "bool" / "tup" / "sl" / "named" / "any" (a fresh or propagated type)
    YIELD = {"arith": "intstr", "cmp": "bool", "eq": "bool", "tuple": "tup", "slice": "sl", "strlen": "int", "length": "int", "head": "any",
             "fst": "any", "snd": "any", "map": "sl", "append": "sl", "push": "sl", "applyf": "any", "rec": "named", "ctor": "named",
             "ipair": "tup", "iid": "any", "iswap": "tup", "iconst": "int", "concat": "str", "sprintf": "str",
             "gbox": "named", "gsome": "named", "iwrap": "named", "iunbox": "int", "ioptlen": "int",
             "ifx": "any", "pipe": "any", "pappmap": "sl", "applyl": "any", "fold": "int", "filter": "sl", "selfcall": "any", "callq": "any", "dkeys": "tup", "dvalues": "tup", "dhas": "bool", "ditem": "any"}

    def generic_value(self, d, arg_want):
        """an expression of type IBox<t> / IOpt<t> (kind chosen by the caller through arg_want = ("IBox"|"IOpt", base or None))"""
        rng = self.rng
        kind, want = arg_want
        a, ta, xa = self.expr(d, want)
        if kind == "IBox":
            if rng.random() < 0.5:
                return '{Val=%s; Tag="t"}' % a, ["named", "IBox", [ta]], call("{IBox}", xa, LIT["str"])
            return "iwrap %s" % self.atom(a), ["named", "IBox", [ta]], call("iwrap", xa)
        return "ISome %s" % self.atom(a), ["named", "IOpt", [ta]], call("ISome", xa)

    def expr(self, d, want=None):
        """an expression: (text, type term, abstract syntax); want: None or a ground base type the context requires (the caller still adds
        the equation)"""
        rng = self.rng
        opts = ["var", "var", "lit"]
        if d > 0:
            opts += list(self.YIELD)
        if want is not None:
            k = {"int": ("int", "intstr", "any"), "string": ("str", "intstr", "any"), "bool": ("bool", "any")}[want[1]]
            opts = ["var", "var", "lit"] + ([o for o in self.YIELD if self.YIELD[o] in k] if d > 0 else [])
        o = rng.choice(opts)
        E = lambda w=None: self.expr(d - 1, w)
        if o == "var":
            x = self.var()
            if x is not None:
                return x, self.env[x], V(x)
            o = "lit"
        if o == "lit":
            k = rng.choice(["int", "str", "bool"]) if want is None else {"int": "int", "string": "str", "bool": "bool"}[want[1]]
            return {"int": (str(rng.randint(0, 9)), INT, LIT["int"]), "str": ('"s%d"' % rng.randint(0, 3), STR, LIT["str"]),
                    "bool": (rng.choice(["true", "false"]), BOOL, LIT["bool"])}[k]
        if o == "arith":
            isint = rng.random() < 0.7 if want is None else want == INT
            a, ta, xa = E(INT if isint else STR)
            if isint:
                self.eq(ta, INT)                          # a typed operand: an int literal
                return "%s %s %d" % (self.atom(a), rng.choice(["+", "-", "*"]), rng.randint(1, 5)), ta, call("int+", xa, LIT["int"])
            self.eq(ta, STR)
            return '%s + "x"' % self.atom(a), ta, call("str+", xa, LIT["str"])
        if o == "cmp":
            a, ta, xa = E(INT)
            self.eq(ta, INT)
            return "%s %s %d" % (self.atom(a), rng.choice(["<", ">", "<=", ">="]), rng.randint(0, 9)), BOOL, call("cmp", xa, LIT["int"])
        if o == "eq":
            a, ta, xa = E()
            b, tb, xb = E(ta if ta in (INT, STR, BOOL) else None)
            self.eq(ta, tb)
            return "%s %s %s" % (self.atom(a), rng.choice(["=", "<>"]), self.atom(b)), BOOL, call("eq", xa, xb)
        if o == "tuple":
            a, ta, xa = E()
            b, tb, xb = E()
            if rng.random() < 0.25:
                c, tc, xc = E()
                return "(%s, %s, %s)" % (a, b, c), tup(ta, tb, tc), ["tuple", [xa, xb, xc]]
            return "(%s, %s)" % (a, b), tup(ta, tb), ["tuple", [xa, xb]]
        if o == "slice":
            if d > 1 and rng.random() < 0.2:
                # two values of a generic user type in one slice literal: their type arguments are unified
                kind = rng.choice(["IBox", "IOpt"])
                a, ta, xa = self.generic_value(d - 2, (kind, None))
                b, tb, xb = self.generic_value(d - 2, (kind, ta[2][0] if ta[2][0] in (INT, STR, BOOL) else None))
            else:
                a, ta, xa = E()
                b, tb, xb = E(ta if ta in (INT, STR, BOOL) else None)
            self.eq(ta, tb)
            return "[%s; %s]" % (a, b), sl(ta), ["slice", [xa, xb]]
        if o == "strlen":
            a, ta, xa = E(STR)
            self.eq(ta, STR)
            return "strings.Length %s" % self.atom(a), INT, call("strings.Length", xa)
        if o == "concat":
            a, ta, xa = self.expr(0)
            self.eq(ta, sl(STR))
            return 'strings.Concat "," %s' % self.atom(a), STR, call("strings.Concat", LIT["str"], xa)
        if o == "sprintf":
            a, ta, xa = E()
            return 'frt.Sprintf1 "%%v" %s' % self.atom(a), STR, call("frt.Sprintf1", LIT["str"], xa)
        if o == "length":
            a, ta, xa = E()
            e = self.fresh()
            self.eq(ta, sl(e))
            return "slice.Length %s" % self.atom(a), INT, call("slice.Length", xa)
        if o == "head":
            a, ta, xa = E()
            e = self.fresh()
            self.eq(ta, sl(e))
            return "slice.Head %s" % self.atom(a), e, call("slice.Head", xa)
        if o in ("fst", "snd"):
            a, ta, xa = E()
            f1, f2 = self.fresh(), self.fresh()
            self.eq(ta, tup(f1, f2))
            return ("frt.Fst %s" if o == "fst" else "frt.Snd %s") % self.atom(a), (f1 if o == "fst" else f2), call("frt.Fst" if o == "fst" else "frt.Snd", xa)
        if o == "append":
            a, ta, xa = E()
            b, tb, xb = E()
            e = self.fresh()
            self.eq(ta, sl(e))
            self.eq(tb, sl(e))
            return "slice.Append %s %s" % (self.atom(a), self.atom(b)), sl(e), call("slice.Append", xa, xb)
        if o == "push":
            a, ta, xa = E()
            b, tb, xb = E()
            self.eq(tb, sl(ta))
            return "slice.PushLast %s %s" % (self.atom(a), self.atom(b)), sl(ta), call("slice.PushLast", xa, xb)
        if o in ("map", "applyf"):
            fs = [x for x in self.funparams if x not in self.applied]
            if (not fs or rng.random() < 0.4) and self.funparams:
                fs = sorted(self.funparams)          # applied (or passed) again: both uses constrain the same function type
            if not fs:
                return self.expr(d - 1, want)
            f = rng.choice(fs)
            self.applied.add(f)
            if f in self.unused:
                self.unused.remove(f)
            a, ta, xa = E()
            r = self.fresh()
            if o == "applyf":
                self.eq(self.env[f], fn([ta], r))
                return "%s %s" % (f, self.atom(a)), r, ["app", f, [xa]]
            e = self.fresh()
            self.eq(self.env[f], fn([e], r))
            self.eq(ta, sl(e))
            return "slice.Map %s %s" % (f, self.atom(a)), sl(r), call("slice.Map", V(f), xa)
        if o == "rec":
            if rng.random() < 0.5:
                a, ta, xa = E(INT)
                b, tb, xb = E(STR)
                self.eq(ta, INT)
                self.eq(tb, STR)
                return "{A=%s; B=%s}" % (a, b), ["named", "IR1", []], call("{IR1}", xa, xb)
            a, ta, xa = E(STR)
            b, tb, xb = self.expr(0)
            self.eq(ta, STR)
            self.eq(tb, sl(INT))
            return "{Name=%s; Vals=%s}" % (a, b), ["named", "IR2", []], call("{IR2}", xa, xb)
        if o == "ctor":
            k = rng.choice([1, 2, 3])
            if k == 1:
                a, ta, xa = E(INT)
                self.eq(ta, INT)
                return "IC1 %s" % self.atom(a), ["named", "IU", []], call("IC1", xa)
            if k == 2:
                a, ta, xa = self.expr(0)
                self.eq(ta, tup(INT, STR))
                return "IC2 %s" % self.atom(a), ["named", "IU", []], call("IC2", xa)
            return "IC3", ["named", "IU", []], call("IC3")
        if o == "ipair":
            a, ta, xa = E()
            b, tb, xb = E()
            return "ipair %s %s" % (self.atom(a), self.atom(b)), tup(ta, tb), call("ipair", xa, xb)        # a fresh instance per use
        if o == "iid":
            a, ta, xa = E()
            return "iid %s" % self.atom(a), ta, call("iid", xa)
        if o == "iswap":
            a, ta, xa = E()
            f1, f2 = self.fresh(), self.fresh()
            self.eq(ta, tup(f1, f2))
            return "iswap %s" % self.atom(a), tup(f2, f1), call("iswap", xa)
        if o == "iconst":
            a, ta, xa = E(INT)
            b, tb, xb = E()
            self.eq(ta, INT)
            return "iconst %s %s" % (self.atom(a), self.atom(b)), INT, call("iconst", xa, xb)
        if o in ("dkeys", "dvalues", "dhas", "ditem"):
            # a dictionary whose VALUE type is undetermined: an EXTERNAL generic type (dict.Dict<K, V>) whose arguments are inferred.
            # (The key type is always determined: type parameters are emitted with the constraint any, and Go wants comparable keys.)
            x = self.var()
            if x is None:
                return self.expr(0, want)
            v = self.fresh()
            kt, klit, kx = rng.choice([(INT, "1", LIT["int"]), (STR, '"k"', LIT["str"])])
            self.eq(self.env[x], ["named", "dict.Dict", [kt, v]])
            has = ("dict.ContainsKey %s %s" % (x, klit), call("dict.ContainsKey", V(x), kx))
            if o == "dhas":
                return has[0], BOOL, has[1]
            if o == "ditem":
                return "dict.Item %s %s" % (x, klit), v, call("dict.Item", V(x), kx)
            if o == "dkeys":
                return "(dict.Keys %s, %s)" % (x, has[0]), tup(sl(kt), BOOL), ["tuple", [call("dict.Keys", V(x)), has[1]]]
            return "(dict.Values %s, %s)" % (x, has[0]), tup(sl(v), BOOL), ["tuple", [call("dict.Values", V(x)), has[1]]]
        if o == "callq":
            # a call of an earlier generated function: a fresh instance of its inferred, generalised type
            cs = [c for c in self.callables if 1 <= len(c.params) <= 3]
            if not cs or len(self.deps) >= 2:
                return self.expr(d - 1, want)
            c = rng.choice(cs)
            if c not in self.deps:
                self.deps.append(c)
            texts, xs = [], []
            for _ in c.params:
                x = self.var() if rng.random() < 0.7 else None
                if x is not None:
                    a, xa = x, V(x)
                else:
                    a, _, xa = self.expr(0)
                texts.append(self.atom(a))
                xs.append(xa)
            return "%s %s" % (c.name, " ".join(texts)), self.fresh(), call(c.name, *xs)
        if o == "selfcall":
            # a recursive call: every argument has the type of the corresponding parameter, the value the type of the function's result
            if self.selfcalls >= 2 or not hasattr(self, "params"):
                return self.expr(d - 1, want)
            self.selfcalls += 1
            texts, xs = [], []
            for q, tq in zip(self.params, self.ptypes):
                if q in self.funparams or rng.random() < 0.5:
                    a, ta, xa = q, self.env[q], V(q)
                    if q in self.unused:
                        self.unused.remove(q)
                else:
                    a, ta, xa = self.expr(min(d - 1, 1), tq if tq in (INT, STR, BOOL) else None)
                self.eq(ta, tq)
                texts.append(self.atom(a))
                xs.append(xa)
            return "%s %s" % (self.name, " ".join(texts)), ["var", "ret"], ["self", xs]
        if o == "ifx":
            c, tc, xc = E(BOOL)
            a, ta, xa = E(want)
            b, tb, xb = E(ta if ta in (INT, STR, BOOL) else want)
            self.eq(tc, BOOL)
            self.eq(ta, tb)
            return "if %s then %s else %s" % (c, self.atom(a), self.atom(b)), ta, ["if", xc, xa, xb]
        if o == "pipe":
            a, ta, xa = E()
            k = rng.choice(["length", "fst", "iid", "append", "head"])
            if k == "length":
                e = self.fresh()
                self.eq(ta, sl(e))
                return "%s |> slice.Length" % self.atom(a), INT, ["pipe", xa, "slice.Length", []]
            if k == "head":
                e = self.fresh()
                self.eq(ta, sl(e))
                return "%s |> slice.Head" % self.atom(a), e, ["pipe", xa, "slice.Head", []]
            if k == "fst":
                f1, f2 = self.fresh(), self.fresh()
                self.eq(ta, tup(f1, f2))
                return "%s |> frt.Fst" % self.atom(a), f1, ["pipe", xa, "frt.Fst", []]
            if k == "iid":
                return "%s |> iid" % self.atom(a), ta, ["pipe", xa, "iid", []]
            b, tb, xb = E()
            e = self.fresh()
            self.eq(tb, sl(e))
            self.eq(ta, sl(e))
            return "%s |> slice.Append %s" % (self.atom(a), self.atom(b)), sl(e), ["pipe", xa, "slice.Append", [xb]]
        if o == "pappmap":
            # a partial application passed to slice.Map
            a, ta, xa = E()
            e = self.fresh()
            self.eq(ta, sl(e))
            if rng.random() < 0.5:
                return "slice.Map (iconst %d) %s" % (rng.randint(0, 9), self.atom(a)), sl(INT), call("slice.Map", ["papp", "iconst", [LIT["int"]]], xa)
            b, tb, xb = self.expr(0)
            return "slice.Map (ipair %s) %s" % (self.atom(b), self.atom(a)), sl(tup(tb, e)), call("slice.Map", ["papp", "ipair", [xb]], xa)
        if o == "applyl":
            # a local lambda is monomorphic: every application constrains the same parameter type
            if not self.funlocals:
                return self.expr(d - 1, want)
            g, tg, xg = rng.choice(self.funlocals)
            a, ta, xa = E()
            r = self.fresh()
            self.eq(tg, fn([ta], r))
            return "%s %s" % (g, self.atom(a)), r, ["app", g, [xa]]
        if o == "fold":
            a, ta, xa = E()
            self.eq(ta, sl(INT))
            return "slice.Fold (fun acc x -> acc + x) 0 %s" % self.atom(a), INT, call("slice.Fold", ["lamn", ["acc", "x"], call("int+", V("acc"), V("x"))], LIT["int"], xa)
        if o == "filter":
            a, ta, xa = E()
            self.eq(ta, sl(INT))
            return "slice.Filter (fun x -> x > 1) %s" % self.atom(a), sl(INT), call("slice.Filter", ["lam", "x", call("cmp", V("x"), LIT["int"])], xa)
        if o in ("gbox", "gsome", "iwrap"):
            return self.generic_value(d - 1, ("IOpt" if o == "gsome" else "IBox", None))
        if o in ("iunbox", "ioptlen"):
            # a generic user type meets a concrete instance of it: the type argument is determined through the user type
            kind, base, f = ("IBox", INT, "iunbox") if o == "iunbox" else ("IOpt", STR, "ioptlen")
            if rng.random() < 0.6:
                a, ta, xa = self.generic_value(d - 1, (kind, base))
            else:
                x = self.var()
                if x is None:
                    return self.expr(0, want)
                a, ta, xa = x, self.env[x], V(x)
            self.eq(ta, ["named", kind, [base]])
            return "%s %s" % (f, self.atom(a)), INT, call(f, xa)
        return self.expr(0, want)

    def build(self):
        rng = self.rng
        np_ = rng.randint(1, 4)
        self.params = ["a%d" % i for i in range(np_)]
        self.ptypes = []
        for p in self.params:
            t = ["var", "p_" + p]
            self.env[p] = t
            self.ptypes.append(t)
            self.unused.append(p)
            if rng.random() < 0.2:
                self.funparams.add(p)
        lines = []
        if rng.random() < 0.25:
            # an annotated parameter of the union type IU and a match on it (the target of a match must have a known type)
            u = rng.choice(self.params)
            if u not in self.funparams:
                self.forced[u] = ("IU", ["named", "IU", []])
                self.env[u] = ["named", "IU", []]
                self.ptypes[self.params.index(u)] = ["named", "IU", []]
                if u in self.unused:
                    self.unused.remove(u)
                self.match_stmt(u, lines)
        for _ in range(rng.randint(0, 3)):
            r = rng.random()
            if r < 0.2:
                # a local lambda with an un-annotated parameter, returned un-applied: its parameter type occurs only in the result
                g = self.fresh("g")[1]
                y = self.fresh("y")[1]
                ty = self.fresh()
                body, tb, xb = rng.choice([("[%s]" % y, sl(ty), ["slice", [V(y)]]), ("(%s, 1)" % y, tup(ty, INT), ["tuple", [V(y), LIT["int"]]]),
                                           (y, ty, V(y)), ("(%s, %s)" % (y, y), tup(ty, ty), ["tuple", [V(y), V(y)]])])
                # (written as a lambda or as an inner function: fc infers an inner function on its own when it meets it)
                lines.append(("let %s = fun %s -> %s" if rng.random() < 0.5 else "let %s %s = %s") % (g, y, body))
                self.stmts.append(["let", g, ["lam", y, xb]])
                self.funlocals.append((g, fn([ty], tb), V(g)))
            elif r < 0.4:
                # destructuring of a variable: it is a pair
                x = self.var()
                if x is None:
                    continue
                # ... or a triple; ignored components (_) have a type of their own (defect 26 of DESIGN section 6)
                n = rng.choice([2, 2, 3])
                names = [self.fresh("v")[1] if rng.random() < 0.7 else "_" for _ in range(n)]
                if all(q == "_" for q in names):
                    names[rng.randrange(n)] = self.fresh("v")[1]
                comps = [self.fresh() for _ in range(n)]
                self.eq(self.env[x], ["tuple", comps])
                lines.append("let (%s) = %s" % (", ".join(names), x))
                self.stmts.append(["destr", names, V(x)])
                for q, tq in zip(names, comps):
                    if q != "_":
                        self.env[q] = tq
                        self.unused.append(q)
            else:
                v = self.fresh("v")[1]
                e, te, xe = self.expr(2)
                lines.append("let %s = %s" % (v, e))
                self.stmts.append(["let", v, xe])
                self.env[v] = te
                self.unused.append(v)
        # the result mentions every local that is still unused (Go rejects unused locals); unused parameters stay generic
        parts = []
        parts.append(self.expr(2))
        for x in list(self.unused):
            if x not in self.params and x not in self.funparams:
                parts.append((x, self.env[x], V(x)))
                self.unused.remove(x)
        parts += self.funlocals
        # construction of generic user types as direct components of the result: two literals of the same generic record with
        # different arguments must get independent instances
        for _ in range(rng.choice([0, 0, 1, 2, 2])):
            x = self.var() or rng.choice(self.params)
            if x in self.funparams:
                continue
            if x in self.unused:
                self.unused.remove(x)
            r = rng.random()
            if r < 0.4:
                parts.append(('{Val=%s; Tag="t"}' % x, ["named", "IBox", [self.env[x]]], call("{IBox}", V(x), LIT["str"])))
            elif r < 0.7:
                parts.append(("ISome %s" % x, ["named", "IOpt", [self.env[x]]], call("ISome", V(x))))
            else:
                # two type parameters: one side a variable, the other a variable or a literal; two such values in one slice literal
                # compose their instances (defect 30)
                y = self.var() or rng.choice(self.params)
                if y in self.funparams:
                    continue
                if y in self.unused:
                    self.unused.remove(y)
                if rng.random() < 0.5:
                    parts.append(("{Fst=%s; Snd=%s}" % (x, y), ["named", "IPair", [self.env[x], self.env[y]]], call("{IPair}", V(x), V(y))))
                else:
                    self.eq(["named", "IPair", [self.env[x], STR]], ["named", "IPair", [INT, self.env[y]]])
                    parts.append(('[{Fst=%s; Snd="s"}; {Fst=1; Snd=%s}]' % (x, y), sl(["named", "IPair", [self.env[x], STR]]),
                                  ["slice", [call("{IPair}", V(x), LIT["str"]), call("{IPair}", LIT["int"], V(y))]]))
        rng.shuffle(parts)            # the order in the result is independent of the order of the local definitions
        while len(parts) > 1:
            (a, ta, xa), (b, tb, xb) = parts.pop(), parts.pop()
            parts.append(("(%s, %s)" % (b, a), tup(tb, ta), ["tuple", [xb, xa]]))
        fin, tfin, xfin = parts[0]
        self.body = lines + [fin]
        self.res = tfin
        self.fin = xfin
        return self

    def match_stmt(self, u, lines):
        """let v = match u with | IC1 n -> .. | IC2 p -> .. | IC3 -> ..  (some rules, then a default when not all cases are listed)"""
        rng = self.rng
        cases = [("IC1", INT), ("IC2", tup(INT, STR)), ("IC3", None)]
        rng.shuffle(cases)
        keep = rng.randint(1, 3)
        v = self.fresh("v")[1]
        arms, texts, t0 = [], [], None
        bodies = cases[:keep] + ([("_", None)] if keep < 3 else [])
        for cname, pt in bodies:
            bind = ""
            if pt is not None and rng.random() < 0.7:
                bind = self.fresh("w")[1]
                self.env[bind] = pt
            b, tb, xb = self.expr(1, t0 if t0 in (INT, STR, BOOL) else None)
            if bind:
                del self.env[bind]
                if bind in self.unused:
                    self.unused.remove(bind)
                if not _mentions(xb, bind):
                    bind = "_"                       # (Go rejects an unused rule variable)
            if t0 is None:
                t0 = tb
            else:
                self.eq(t0, tb)
            if cname == "_":
                texts.append("  | _ -> %s" % b)
                dflt = [xb]
            else:
                texts.append("  | %s%s -> %s" % (cname, (" " + bind) if pt is not None else "", b))
                arms.append([cname, "" if bind == "_" else bind, xb])
        if keep == 3:
            dflt = []
        lines.append("let %s =" % v)
        lines.append("  match %s with" % u)
        lines.extend(texts)
        self.stmts.append(["let", v, ["match", u, arms, dflt]])
        self.env[v] = t0
        self.unused.append(v)

    def spec(self):
        """ast: the function as abstract syntax (spec/FoInferGen.tla generates the constraints from it); eqs/params/res: the constraint
        problem as this generator derived it (double entry: TLC checks that both give the same principal type)"""
        ast = {"name": self.name, "params": self.params, "stmts": self.stmts, "fin": self.fin}
        if self.forced:
            ast["ptypes"] = [[q, self.forced[q][1]] for q in self.params if q in self.forced]
        if self.deps:
            # (no second entry: this generator does not know the inferred types of the functions it calls)
            return {"name": self.name, "ast": ast, "deps": [{"ast": c.spec()["ast"]} for c in self.deps]}
        return {"name": self.name, "eqs": self.eqs + [[["var", "ret"], self.res]], "params": self.ptypes, "res": self.res, "ast": ast}

    def text(self, annots=None):
        """annots: dict param -> Folang type text (annotated parameters)"""
        annots = dict(annots or {})
        for q, (txt, _) in getattr(self, "forced", {}).items():
            annots[q] = txt
        ps = " ".join(("(%s:%s)" % (p, annots[p])) if p in annots else p for p in self.params)
        return "let %s %s =\n%s\n\n" % (self.name, ps, "\n".join("  " + l for l in self.body))


class MergeFn(Fn):
    """directed family: equivalence classes of parameters merged pairwise in a random order through slice literals, then a concrete
    type arrives through one member (exercises class merging / propagation order in the resolver)"""

    def build(self):
        rng = self.rng
        n = rng.randint(3, 6)
        self.params = ["a%d" % i for i in range(n)]
        self.ptypes = []
        for p in self.params:
            t = ["var", "p_" + p]
            self.env[p] = t
            self.ptypes.append(t)
        lines, parts = [], []
        generic = rng.random() < 0.3             # the classes are merged through values of a generic user type
        for _ in range(rng.randint(2, n + 1)):
            x, y = rng.sample(self.params, 2)
            v = self.fresh("v")[1]
            self.eq(self.env[x], self.env[y])
            if generic:
                lines.append("let %s = [ISome %s; ISome %s]" % (v, x, y))
                self.stmts.append(["let", v, ["slice", [call("ISome", V(x)), call("ISome", V(y))]]])
                parts.append((v, sl(["named", "IOpt", [self.env[x]]]), V(v)))
            else:
                lines.append("let %s = [%s; %s]" % (v, x, y))
                self.stmts.append(["let", v, ["slice", [V(x), V(y)]]])
                parts.append((v, sl(self.env[x]), V(v)))
        for _ in range(rng.randint(0, 2)):
            x = rng.choice(self.params)
            v = self.fresh("v")[1]
            if rng.random() < 0.5:
                self.eq(self.env[x], INT)
                lines.append("let %s = %s + 1" % (v, x))
                self.stmts.append(["let", v, call("int+", V(x), LIT["int"])])
                parts.append((v, INT, V(v)))
            else:
                self.eq(self.env[x], STR)
                lines.append("let %s = strings.Length %s" % (v, x))
                self.stmts.append(["let", v, call("strings.Length", V(x))])
                parts.append((v, INT, V(v)))
        rng.shuffle(parts)
        while len(parts) > 1:
            (a, ta, xa), (b, tb, xb) = parts.pop(), parts.pop()
            parts.append(("(%s, %s)" % (b, a), tup(tb, ta), ["tuple", [xb, xa]]))
        self.body = lines + [parts[0][0]]
        self.res = parts[0][1]
        self.fin = parts[0][2]
        return self


RECS = {"IR1": [("A", INT), ("B", STR)], "IR3": [("C", INT), ("D", STR)], "IBox": [("Val", None), ("Tag", STR)]}


class FldFn(Fn):
    """directed family: field accesses on parameters whose record type becomes known through OTHER statements (a record literal in
    one slice literal with the parameter, possibly through merged parameters), the statements in random order - the order in which the
    information arrives must not matter.  Accessed values are used with a concrete type (v + 1), which determines the type argument
    of a generic record through the field."""

    def build(self):
        rng = self.rng
        n = rng.randint(2, 4)
        self.params = ["a%d" % i for i in range(n)]
        self.ptypes = []
        for p in self.params:
            t = ["var", "p_" + p]
            self.env[p] = t
            self.ptypes.append(t)
        stm = []          # (text, ast stmt, result part or None)
        parts = []
        holders = rng.sample(self.params, rng.randint(1, min(2, n)))      # parameters that are records (or slices of records)
        others = [p for p in self.params if p not in holders]
        same = rng.random() < 0.5
        rec0 = rng.choice(["IR1", "IR3", "IBox", "IBox"])
        scalar = []        # (holder, field) of the scalar holders: their fields can meet in one expression
        for h in holders:
            rec = rec0 if same else rng.choice(["IR1", "IR3", "IBox"])
            as_slice = rng.random() < 0.4
            # the access
            v = self.fresh("v")[1]
            r = self.fresh()
            fldname = {"IR1": "A", "IR3": "C", "IBox": "Val"}[rec]
            if not as_slice:
                scalar.append((h, fldname, rec))
            if as_slice:
                e = self.fresh()
                self.eq(self.env[h], sl(e))
                if rng.random() < 0.5:
                    stm.append(("let %s = slice.Map _.%s %s" % (v, fldname, h), ["let", v, call("slice.Map", ["lam", "y0", ["fld", V("y0"), fldname]], V(h))]))
                else:
                    stm.append(("let %s = slice.Map (fun y0 -> y0.%s) %s" % (v, fldname, h), ["let", v, call("slice.Map", ["lam", "y0", ["fld", V("y0"), fldname]], V(h))]))
                ty, rr = self.fresh(), self.fresh()
                # slice.Map : (e1 -> r1) -> []e1 -> []r1 ; lambda: ty -> r ; deferred: ty.F = r
                e1, r1 = self.fresh(), self.fresh()
                self.eqs.append(["fld", ty, fldname, r])
                self.eq(fn([ty], r), fn([e1], r1))
                self.eq(self.env[h], sl(e1))
                tv = sl(r1)
                elemt = e
            else:
                stm.append(("let %s = %s.%s" % (v, h, fldname), ["let", v, ["fld", V(h), fldname]]))
                self.eqs.append(["fld", self.env[h], fldname, r])
                tv = r
                elemt = self.env[h]
            parts.append((v, tv, V(v)))
            # a use of the accessed value with a concrete type (only for the scalar access of an int field)
            if not as_slice and rng.random() < 0.7:
                w = self.fresh("v")[1]
                self.eq(tv, INT)
                stm.append(("let %s = %s + 1" % (w, v), ["let", w, call("int+", V(v), LIT["int"])], ("after", v)))
                parts.append((w, tv, V(w)))
            # the witness: a record literal in one slice literal with the holder (or appended to the slice)
            l = self.fresh("v")[1]
            if rec == "IR1":
                lit, tlit, xlit = '{A=1; B="s"}', ["named", "IR1", []], call("{IR1}", LIT["int"], LIT["str"])
            elif rec == "IR3":
                lit, tlit, xlit = '{C=3; D="d"}', ["named", "IR3", []], call("{IR3}", LIT["int"], LIT["str"])
            else:
                if others and rng.random() < 0.6:
                    q = rng.choice(others)
                    if rng.random() < 0.5:
                        lit, tlit, xlit = '{Val=%s; Tag="t"}' % q, ["named", "IBox", [self.env[q]]], call("{IBox}", V(q), LIT["str"])
                    else:
                        lit, tlit, xlit = "iwrap %s" % q, ["named", "IBox", [self.env[q]]], call("iwrap", V(q))
                else:
                    lit, tlit, xlit = '{Val=2; Tag="t"}', ["named", "IBox", [INT]], call("{IBox}", LIT["int"], LIT["str"])
            if as_slice:
                stm.append(("let %s = slice.Append %s [%s]" % (l, h, lit), ["let", l, call("slice.Append", V(h), ["slice", [xlit]])]))
                e2 = self.fresh()
                self.eq(self.env[h], sl(e2))
                self.eq(sl(tlit), sl(e2))
                parts.append((l, sl(e2), V(l)))
            else:
                stm.append(("let %s = [%s; %s]" % (l, h, lit), ["let", l, ["slice", [V(h), xlit]]]))
                self.eq(self.env[h], tlit)
                parts.append((l, sl(self.env[h]), V(l)))
        # fields of two holders (possibly of different record types) meet in one expression
        if len(scalar) == 2 and rng.random() < 0.7:
            (h1, f1, k1), (h2, f2, k2) = scalar
            m = self.fresh("v")[1]
            r1, r2 = self.fresh(), self.fresh()
            self.eqs.append(["fld", self.env[h1], f1, r1])
            self.eqs.append(["fld", self.env[h2], f2, r2])
            x1, x2 = ["fld", V(h1), f1], ["fld", V(h2), f2]
            form = rng.choice(["slice", "plus", "eq"]) if "IBox" not in (k1, k2) else rng.choice(["slice", "eq"])
            self.eq(r1, r2)
            if form == "slice":
                stm.append(("let %s = [%s.%s; %s.%s]" % (m, h1, f1, h2, f2), ["let", m, ["slice", [x1, x2]]]))
                parts.append((m, sl(r1), V(m)))
            elif form == "plus":
                self.eq(r1, INT)
                stm.append(("let %s = %s.%s + %s.%s" % (m, h1, f1, h2, f2), ["let", m, call("int+", x1, x2)]))
                parts.append((m, INT, V(m)))
            else:
                stm.append(("let %s = %s.%s = %s.%s" % (m, h1, f1, h2, f2), ["let", m, call("eq", x1, x2)]))
                parts.append((m, BOOL, V(m)))
        # merges between holders / others
        for _ in range(rng.randint(0, 2)):
            x, y = rng.sample(self.params, 2)
            if (x in holders) != (y in holders):
                continue
            m = self.fresh("v")[1]
            self.eq(self.env[x], self.env[y])
            stm.append(("let %s = [%s; %s]" % (m, x, y), ["let", m, ["slice", [V(x), V(y)]]]))
            parts.append((m, sl(self.env[x]), V(m)))
        # random order, but a use comes after the definition of what it uses
        order = list(range(len(stm)))
        rng.shuffle(order)
        placed, lines, defined = [], [], set()
        pending = [stm[i] for i in order]
        while pending:
            for it in pending:
                dep = it[2][1] if len(it) > 2 else None
                if dep is None or dep in defined:
                    lines.append(it[0])
                    self.stmts.append(it[1])
                    defined.add(it[1][1])
                    pending.remove(it)
                    break
        rng.shuffle(parts)
        while len(parts) > 1:
            (a, ta, xa), (b, tb, xb) = parts.pop(), parts.pop()
            parts.append(("(%s, %s)" % (b, a), tup(tb, ta), ["tuple", [xb, xa]]))
        self.body = lines + [parts[0][0]]
        self.res = parts[0][1]
        self.fin = parts[0][2]
        return self


class MatchFn(Fn):
    """directed family: the rules of a match return parameters / literals / recursive calls in random order - every rule has the
    type of the first one; a recursive function's result type is that of its body (also when only the recursion mentions it)"""

    def build(self):
        rng = self.rng
        n = rng.randint(2, 4)
        self.params = ["a%d" % i for i in range(n)]
        self.ptypes = []
        for q in self.params:
            t = ["var", "p_" + q]
            self.env[q] = t
            self.ptypes.append(t)
        u = self.params[0]
        self.forced[u] = ("IU", ["named", "IU", []])
        self.env[u] = self.ptypes[0] = ["named", "IU", []]
        others = self.params[1:]
        recursive = rng.random() < 0.5
        cases = [("IC1", INT), ("IC2", tup(INT, STR)), ("IC3", None)]
        rng.shuffle(cases)
        keep = rng.randint(2, 3)
        rules = cases[:keep] + ([("_", None)] if keep < 3 else [])
        # what the rules return: at most one of them fixes the type (a literal / the payload), the others are parameters or recursive calls
        kinds = ["fix"] + [rng.choice(["param", "param", "self" if recursive else "param"]) for _ in rules[1:]]
        rng.shuffle(kinds)
        if recursive and "self" not in kinds:
            kinds[rng.choice([i for i, k in enumerate(kinds) if k != "fix"])] = "self"        # (one rule always fixes the type)
        base = rng.choice([INT, STR, BOOL])
        wrap = rng.choice([None, None, "slice", "tuple", "tuplelit", "box", "some"])
        arms, texts, dflt, t0 = [], [], [], None
        for (cname, pt), kind in zip(rules, kinds):
            bind = ""
            if kind == "fix":
                if cname == "IC1" and base == INT and rng.random() < 0.5:
                    bind = "w1"
                    b, tb, xb = "w1", INT, V("w1")
                else:
                    b, xb = {"int": ("7", LIT["int"]), "string": ('"s"', LIT["str"]), "bool": ("true", LIT["bool"])}[base[1]]
                    tb = base
            elif kind == "param":
                q = rng.choice(others)
                b, tb, xb = q, self.env[q], V(q)
            else:
                args = [u] + [rng.choice(others) for _ in others]
                for a, tq in zip(args, self.ptypes):
                    self.eq(self.env[a], tq)
                inner = "%s %s" % (self.name, " ".join(args))
                tb = ["var", "ret"]
                xb = ["self", [V(a) for a in args]]
                self.selfcalls += 1
                if rng.random() < 0.3:
                    # the value of the recursive call is not used: its type is the function's result type only because it IS that function
                    lit, xl = {"int": ("7", LIT["int"]), "string": ('"s"', LIT["str"]), "bool": ("true", LIT["bool"])}[base[1]]
                    b, xb, tb = "frt.Snd (%s, %s)" % (inner, lit), call("frt.Snd", ["tuple", [xb, xl]]), base
                elif base in (INT, STR) and rng.random() < 0.5:
                    # two recursive calls under + : both operands have one type (int or string, + itself does not say which), which is
                    # also the type of the sum - only the recursion mentions the result here
                    b, xb = "(%s) + (%s)" % (inner, inner), call("same+", xb, ["self", [V(a) for a in args]])
                else:
                    b = inner
            # every rule wraps its value in the same structure (or none): the parts are then related only through the match
            if wrap == "slice":
                b, tb, xb = "[%s]" % b, sl(tb), ["slice", [xb]]
            elif wrap == "tuple":
                q2 = rng.choice(others)
                b, tb, xb = "(%s, %s)" % (b, q2), tup(tb, self.env[q2]), ["tuple", [xb, V(q2)]]
            elif wrap == "tuplelit":
                b, tb, xb = "(%s, 1)" % b, tup(tb, INT), ["tuple", [xb, LIT["int"]]]
            elif wrap == "box":
                b, tb, xb = '{Val=%s; Tag="t"}' % b, ["named", "IBox", [tb]], call("{IBox}", xb, LIT["str"])
            elif wrap == "some":
                b, tb, xb = "ISome %s" % self.atom(b), ["named", "IOpt", [tb]], call("ISome", xb)
            if t0 is None:
                t0 = tb
            else:
                self.eq(t0, tb)
            pat = "_" if cname == "_" else cname + ((" " + (bind or "_")) if pt is not None else "")
            texts.append("| %s -> %s" % (pat, b))
            if cname == "_":
                dflt = [xb]
            else:
                arms.append([cname, bind, xb])
        self.body = ["match %s with" % u] + texts
        self.fin = ["match", u, arms, dflt]
        self.res = t0
        return self


class GMatchFn(Fn):
    """directed family: a match on the GENERIC union IOpt<T>.  The target is an annotated parameter (IOpt<int>, IOpt<string>, IOpt<[]int>)
    or a local bound to a constructor application (let r = ISome a1: IOpt<type of a1>, generic); the payload variable has the
    type argument's type and relates the parameters it meets; the emitted switch must name the instantiated case types"""

    def build(self):
        rng = self.rng
        n = rng.randint(2, 3)
        self.params = ["a%d" % i for i in range(n)]
        self.ptypes = []
        for q in self.params:
            t = ["var", "p_" + q]
            self.env[q] = t
            self.ptypes.append(t)
        lines = []
        if rng.random() < 0.5:
            u = self.params[0]
            txt, targ = rng.choice([("IOpt<int>", INT), ("IOpt<string>", STR), ("IOpt<[]int>", sl(INT))])
            self.forced[u] = (txt, ["named", "IOpt", [targ]])
            self.env[u] = self.ptypes[0] = ["named", "IOpt", [targ]]
            target = u
            others = self.params[1:]
        else:
            src = self.params[0]
            inst = self.fresh()
            self.eq(self.env[src], inst)
            targ = inst
            lines.append("let r = ISome %s" % src)
            self.stmts.append(["let", "r", call("ISome", V(src))])
            target = "r"
            others = self.params[1:]
        d = others[0]
        e = others[-1]
        shape = rng.choice(["sn", "ns", "sd", "nd"])          # both cases in either order / one case and a default
        kind = rng.choice(["w", "slicew", "pairw", "ignore"]) if shape != "nd" else "ignore"     # (a default rule has no payload variable)
        if kind == "w":
            some = ("w1", targ, V("w1"), "w1")
            none = (d, self.env[d], V(d))
        elif kind == "slicew":
            some = ("[w1; %s]" % d, sl(targ), ["slice", [V("w1"), V(d)]], "w1")
            self.eq(targ, self.env[d])
            none = ("[%s]" % e, sl(self.env[e]), ["slice", [V(e)]])
        elif kind == "pairw":
            some = ("(w1, %s)" % e, tup(targ, self.env[e]), ["tuple", [V("w1"), V(e)]], "w1")
            none = ("(%s, %s)" % (d, e), tup(self.env[d], self.env[e]), ["tuple", [V(d), V(e)]])
        else:
            some = ("[%s]" % d, sl(self.env[d]), ["slice", [V(d)]], "")
            none = ("[%s]" % e, sl(self.env[e]), ["slice", [V(e)]])
        self.eq(some[1], none[1])
        pat_some = "ISome %s" % (some[3] or "_")
        rules = {"sn": [("ISome", some), ("INone", none)], "ns": [("INone", none), ("ISome", some)],
                 "sd": [("ISome", some), ("_", none)], "nd": [("INone", none), ("_", some)]}[shape]
        texts, arms, dflt = [], [], []
        for cname, body in rules:
            if cname == "_":
                texts.append("| _ -> %s" % body[0])
                dflt = [body[2]]
            elif cname == "ISome":
                texts.append("| %s -> %s" % ("ISome %s" % (body[3] or "_"), body[0]))
                arms.append(["ISome", body[3], body[2]])
            else:
                texts.append("| INone -> %s" % body[0])
                arms.append(["INone", "", body[2]])
        self.body = lines + ["match %s with" % target] + texts
        self.fin = ["match", target, arms, dflt]
        self.res = rules[0][1][1]
        return self


class Callee(Fn):
    """a small generic function with a well-known shape (the callee of CallFn)"""
    TEMPLATES = [
        (["a", "b"], "(b, a)", ["tuple", [V("b"), V("a")]]),
        (["a"], "[a; a]", ["slice", [V("a"), V("a")]]),
        (["f", "a"], "f a", ["app", "f", [V("a")]]),
        (["a", "b"], "if a = b then [a] else [b]", ["if", call("eq", V("a"), V("b")), ["slice", [V("a")]], ["slice", [V("b")]]]),
        (["a"], "ISome a", call("ISome", V("a"))),
        (["a", "b"], '({Val=a; Tag="t"}, b)', ["tuple", [call("{IBox}", V("a"), LIT["str"]), V("b")]]),
        (["p"], "frt.Fst p", call("frt.Fst", V("p"))),
        (["a", "b"], "slice.PushLast a b", call("slice.PushLast", V("a"), V("b"))),
        (["a", "n"], "(a, n + 1)", ["tuple", [V("a"), call("int+", V("n"), LIT["int"])]]),
    ]

    def build(self):
        self.params, text, self.fin = self.rng.choice(self.TEMPLATES)
        self.params = list(self.params)
        self.ptypes = [["var", "p_" + q] for q in self.params]
        self.body = [text]
        self.res = ["var", "ret"]
        self.single = True
        return self

    def spec(self):
        return {"name": self.name, "ast": {"name": self.name, "params": self.params, "stmts": [], "fin": self.fin}}


class CallFn(Fn):
    """directed family: a generic function is called twice in one caller, with arguments of different (or undetermined) types - every call
    takes its own instance of the callee's generalised type"""

    def __init__(self, rng, idx, callee):
        Fn.__init__(self, rng, idx)
        self.callee = callee
        self.deps = [callee]

    def arg_for(self, q, kind):
        """an argument for the callee's parameter q; kind: which of the caller's parameter families to draw from"""
        rng = self.rng
        if q == "f":
            g = self.fresh("g")[1]
            return "(fun %s -> (%s, 1))" % (g, g), ["lam", g, ["tuple", [V(g), LIT["int"]]]]
        if q == "p":
            x = rng.choice(self.fam[kind])
            return "(%s, 2)" % x, ["tuple", [V(x), LIT["int"]]]
        if q == "n":
            return "3", LIT["int"]
        if q == "b" and self.callee.body[0].startswith("slice.PushLast"):
            x = rng.choice(self.fam[kind])
            return "[%s]" % x, ["slice", [V(x)]]
        x = rng.choice(self.fam[kind])
        return x, V(x)

    def build(self):
        rng = self.rng
        self.params = ["a0", "a1", "a2", "a3"]
        self.ptypes = [["var", "p_" + q] for q in self.params]
        self.fam = {0: ["a0", "a1"], 1: ["a2", "a3"]}
        lines, parts = [], []
        for kind in (0, 1):
            texts, xs = [], []
            for q in self.callee.params:
                t, x = self.arg_for(q, kind)
                texts.append(t)
                xs.append(x)
            v = self.fresh("v")[1]
            lines.append("let %s = %s %s" % (v, self.callee.name, " ".join(texts)))
            self.stmts.append(["let", v, call(self.callee.name, *xs)])
            parts.append((v, None, V(v)))
        # the two families get different concrete types, one of them, or none
        mode = rng.choice(["both", "first", "none", "same"])
        if mode in ("both", "first", "same"):
            w = self.fresh("v")[1]
            lines.append("let %s = a0 + 1" % w)
            self.stmts.append(["let", w, call("int+", V("a0"), LIT["int"])])
            parts.append((w, None, V(w)))
        if mode == "both":
            w = self.fresh("v")[1]
            lines.append("let %s = strings.Length a2" % w)
            self.stmts.append(["let", w, call("strings.Length", V("a2"))])
            parts.append((w, None, V(w)))
        if mode == "same":
            w = self.fresh("v")[1]
            lines.append("let %s = a2 + 2" % w)
            self.stmts.append(["let", w, call("int+", V("a2"), LIT["int"])])
            parts.append((w, None, V(w)))
        rng.shuffle(parts)
        while len(parts) > 1:
            (a, _, xa), (b, _, xb) = parts.pop(), parts.pop()
            parts.append(("(%s, %s)" % (b, a), None, ["tuple", [xb, xa]]))
        self.body = lines + [parts[0][0]]
        self.fin = parts[0][2]
        self.res = ["var", "ret"]
        return self

    def spec(self):
        return {"name": self.name, "ast": {"name": self.name, "params": self.params, "stmts": self.stmts, "fin": self.fin},
                "deps": [{"ast": self.callee.spec()["ast"]}]}


def generate(rng, n):
    out = []
    for i in range(n):
        if i % 5 == 4:
            f = MergeFn(rng, i)
        elif i % 5 == 3:
            f = FldFn(rng, i)
        elif i % 10 == 2:
            f = MatchFn(rng, i)
        elif i % 20 == 11:
            f = GMatchFn(rng, i)
        elif i % 10 == 6:
            f = Callee(rng, i)
        elif i % 10 == 7:
            f = CallFn(rng, i, out[-1])
        else:
            # the callable ones: recent functions that call nothing themselves and are not recursive
            f = Fn(rng, i, [c for c in out[-12:] if not c.deps and not c.selfcalls and not c.forced and not isinstance(c, Callee)])
        out.append(f.build())
    return out


# ------------------------------------------------------------------------------------------ abstract syntax -> Folang text
CALLFMT = {"int+": "{0} + {1}", "same+": "{0} + {1}", "str+": "{0} + {1}", "cmp": "{0} < {1}", "eq": "{0} = {1}", "{IR1}": "{{A={0}; B={1}}}", "{IR2}": "{{Name={0}; Vals={1}}}", "{IR3}": "{{C={0}; D={1}}}",
           "{IBox}": "{{Val={0}; Tag={1}}}", "{IPair}": "{{Fst={0}; Snd={1}}}",
           "{ITagged}": "{{TVal={0}}}", "{IRev}": "{{RSecond={1}; RFirst={0}}}", "ipair<int>": "ipair<int> {0} {1}",
           "ILeft<int,string>": "ILeft<int, string> {0}", "IRight<int,string>": "IRight<int, string> {0}"}


def render_ast(e):
    """Folang text of an expression of FoInferGen's abstract syntax (every compound argument parenthesised)"""
    k = e[0]
    if k == "var":
        return e[1]
    if k == "lit":
        return {"int": "1", "string": '"s"', "bool": "true"}[e[1]]
    arg = lambda x: render_ast(x) if x[0] in ("var", "lit", "slice", "tuple") or (x[0] == "call" and x[1].startswith("{")) else "(" + render_ast(x) + ")"
    if k == "call":
        if e[1] in CALLFMT:
            return CALLFMT[e[1]].format(*[arg(x) if not e[1].startswith("{") else render_ast(x) for x in e[2]])
        return " ".join([e[1]] + [arg(x) for x in e[2]])
    if k == "app":
        return " ".join([e[1]] + [arg(x) for x in e[2]])
    if k == "tuple":
        return "(" + ", ".join(render_ast(x) for x in e[1]) + ")"
    if k == "slice":
        return "[" + "; ".join(render_ast(x) for x in e[1]) + "]"
    if k == "lam":
        return "fun %s -> %s" % (e[1], render_ast(e[2]))
    if k == "fld":
        return "%s.%s" % (render_ast(e[1]), e[2])
    if k == "if":
        return "if %s then %s else %s" % (render_ast(e[1]), arg(e[2]), arg(e[3]))
    if k == "pipe":
        return "%s |> %s" % (arg(e[1]), " ".join([e[2]] + [arg(x) for x in e[3]]))
    if k == "papp":
        return " ".join([e[1]] + [arg(x) for x in e[2]])
    if k == "lamn":
        return "fun %s -> %s" % (" ".join(e[1]), render_ast(e[2]))
    raise ValueError(k)


class AstFn:
    """a function given as abstract syntax only (enumerated by TLC, spec/FoInferSmall.tla)"""

    def __init__(self, ast):
        self.ast = ast
        self.name = ast["name"]
        self.params = list(ast["params"])
        self.body = []
        for st in ast["stmts"]:
            if st[0] == "let":
                self.body.append("let %s = %s" % (st[1], render_ast(st[2])))
            else:
                self.body.append("let (%s) = %s" % (", ".join(st[1]), render_ast(st[2])))
        fin = ast["fin"]
        if fin[0] == "smatch":
            self.body.append("match %s with" % fin[1])
            for i, body in enumerate(fin[2]):
                self.body.append('| "%s" -> %s' % ("abcdefg"[i], render_ast(body)))
            self.body.append("| %s -> %s" % (fin[3][0] or "_", render_ast(fin[3][1])))
        elif fin[0] == "match":
            # (rules with a payload variable or without payload; a default rule)
            self.body.append("match %s with" % fin[1])
            for case, bind, body in fin[2]:
                self.body.append("| %s%s -> %s" % (case, (" " + bind) if bind else "", render_ast(body)))
            for body in fin[3]:
                self.body.append("| _ -> %s" % render_ast(body))
        else:
            self.body.append(render_ast(fin))

    def spec(self):
        return {"name": self.name, "ast": self.ast}

    text = Fn.text


class RannFn:
    """a function with an INFORMATIVE result annotation (let f a b : T = ...): base with the result type rtype written in the source.
    rtype is the principal result type of base with its variables instantiated (FoInfer!Principal.rinst)."""

    def __init__(self, base, rtype, rtext):
        self.base, self.name, self.params, self.rtype, self.rtext = base, base.name, base.params, rtype, rtext
        for a in ("deps", "selfcalls", "forced"):
            if hasattr(base, a):
                setattr(self, a, getattr(base, a))

    def spec(self):
        sp = copy.deepcopy(self.base.spec())
        sp["ast"]["rtype"] = self.rtype
        if "eqs" in sp:
            sp["eqs"].append([["var", "ret"], self.rtype])
        return sp

    def text(self, annots=None):
        head, rest = self.base.text(annots).split(" =\n", 1)
        return "%s : %s =\n%s" % (head, self.rtext, rest)


# ------------------------------------------------------------------------------------------ kernels (fixed functions)
def _fld(x, f):
    return ["fld", V(x), f]


def kernels():
    """functions around a value that IS a field of a record still to be known (a variable unified with x.F): abstract syntax only,
    the principal types come from FoInferGen.  k19 is the designated probe of the known finding fa-class-drops-concrete."""
    ks = []
    def K(name, params, stmts, fin):
        ks.append(AstFn({"name": name, "params": params, "stmts": stmts, "fin": fin}))
    pair = lambda a, b: ["tuple", [a, b]]
    # the accessed value and the record's type argument are the same variable: not an infinite type (defect 18), both orders
    K("k18a", ["a", "c"], [["let", "l", ["slice", [_fld("a", "Val"), V("c")]]], ["let", "w", ["slice", [V("a"), call("iwrap", V("c"))]]]], pair(V("l"), V("w")))
    K("k18b", ["a", "c"], [["let", "w", ["slice", [V("a"), call("iwrap", V("c"))]]], ["let", "l", ["slice", [_fld("a", "Val"), V("c")]]]], pair(V("l"), V("w")))
    K("k18c", ["a", "c"], [["let", "l", call("eq", _fld("a", "Val"), V("c"))], ["let", "w", ["slice", [V("a"), call("iwrap", V("c"))]]]], pair(V("l"), V("w")))
    # the variable gets its concrete type before / after the record is known
    K("k18d", ["a", "c", "d"], [["let", "l", ["slice", [_fld("a", "Val"), V("c")]]], ["let", "w", ["slice", [V("a"), call("iwrap", V("d"))]]],
                                ["let", "k", call("int+", V("c"), LIT["int"])]], pair(V("l"), pair(V("w"), V("k"))))
    K("k18e", ["a", "c", "d"], [["let", "l", ["slice", [_fld("a", "Val"), V("c")]]], ["let", "k", call("int+", V("c"), LIT["int"])],
                                ["let", "w", ["slice", [V("a"), call("iwrap", V("d"))]]]], pair(V("l"), pair(V("w"), V("k"))))
    K("k18f", ["a", "c", "d"], [["let", "k", call("int+", V("c"), LIT["int"])], ["let", "w", ["slice", [V("a"), call("iwrap", V("d"))]]],
                                ["let", "l", ["slice", [_fld("a", "Val"), V("c")]]]], pair(V("l"), pair(V("w"), V("k"))))
    # known finding: the concrete type reaches the class of c (whose type is "a.Val", a unknown) only through b's type argument
    K("k19", ["a", "b", "c"], [["let", "l1", ["slice", [_fld("a", "Val"), V("c")]]], ["let", "l2", ["slice", [V("b"), call("iwrap", V("c"))]]],
                               ["let", "l3", ["slice", [V("b"), call("imkint", LIT["int"])]]], ["let", "l4", ["slice", [V("a"), call("iwrap", V("c"))]]]],
      pair(pair(V("l1"), V("l2")), pair(V("l3"), V("l4"))))
    # a field access on a LAMBDA parameter whose record type comes from an annotated slice parameter, in ONE expression: the first
    # pass of InferLfd only resolves body-local variables (the signature gains nothing), the second pass fixes the parameter y
    def KA(name, params, forced, fin):
        f = AstFn({"name": name, "params": params, "stmts": [], "fin": fin, "ptypes": [[q, t] for q, (_, t) in forced.items()]})
        f.forced = forced
        ks.append(f)
    IR2S = ("[]IR2", ["slice", ["named", "IR2", []]])
    BOXS = ("[]IBox<string>", ["slice", ["named", "IBox", [STR]]])
    KA("k20a", ["bags", "y"], {"bags": IR2S}, call("slice.Length", call("slice.Map", ["lam", "b", ["slice", [_fld("b", "Vals"), ["slice", [V("y")]]]]], V("bags"))))
    KA("k20b", ["bs", "y"], {"bs": BOXS}, call("slice.Map", ["lam", "b", ["slice", [_fld("b", "Val"), V("y")]]], V("bs")))
    KA("k20c", ["bags", "y"], {"bags": IR2S}, call("slice.Map", ["lam", "b", call("slice.Map", ["lam", "v", ["slice", [V("v"), V("y")]]], _fld("b", "Vals"))], V("bags")))
    KA("k20d", ["y", "bags"], {"bags": IR2S}, ["tuple", [V("y"), call("slice.Map", ["lam", "b", ["tuple", [_fld("b", "Name"), ["slice", [_fld("b", "Vals"), ["slice", [V("y")]]]]]]], V("bags"))]])
    # a generic record with TWO type parameters: x gets its first type argument from p and its second one from q, so its instance
    # IPair<int, string> is composed of two partially known ones (defect 30); with a field access before / after, and in the other order
    P = lambda a, b: call("{IPair}", a, b)
    K("k22a", ["x", "a", "b"], [["let", "p", P(LIT["int"], V("a"))], ["let", "q", P(V("b"), LIT["str"])], ["let", "l", ["slice", [V("x"), V("p")]]],
                                ["let", "t", ["slice", [V("x"), V("q")]]]], pair(V("t"), V("l")))
    K("k22b", ["x", "a", "b"], [["let", "v", _fld("x", "Fst")], ["let", "p", P(LIT["int"], V("a"))], ["let", "q", P(V("b"), LIT["str"])],
                                ["let", "l", ["slice", [V("x"), V("p")]]], ["let", "t", pair(V("v"), ["slice", [V("x"), V("q")]])]], pair(V("t"), V("l")))
    K("k22c", ["x", "a", "b"], [["let", "t", ["slice", [V("x"), P(V("b"), LIT["str"])]]], ["let", "l", ["slice", [V("x"), P(LIT["int"], V("a"))]]],
                                ["let", "w", _fld("x", "Snd")]], pair(pair(V("t"), V("l")), V("w")))
    K("k22d", ["x", "y", "a", "c"], [["let", "l", ["slice", [V("x"), P(V("a"), LIT["str"])]]], ["let", "m", ["slice", [V("y"), P(LIT["int"], V("c"))]]],
                                ["let", "n", ["slice", [V("x"), V("y")]]]], pair(pair(V("l"), V("m")), V("n")))
    # a generic UNION with two type parameters: instances composed of partially known ones, and a match on an annotated one
    EI = ("IEither<int, string>", ["named", "IEither", [INT, STR]])
    # (a constructor whose payload does not mention every type parameter carries explicit type arguments: Go could not infer them)
    L = lambda x: call("ILeft<int,string>", x)
    R = lambda x: call("IRight<int,string>", x)
    K("k23a", ["x", "a", "b"], [["let", "p", ["slice", [V("x"), L(V("a"))]]], ["let", "q", ["slice", [V("x"), R(V("b"))]]]], pair(V("p"), V("q")))
    K("k23b", ["x", "y", "a", "b"], [["let", "p", ["slice", [V("x"), L(V("a"))]]], ["let", "q", ["slice", [V("y"), R(V("b"))]]],
                                     ["let", "r", ["slice", [V("x"), V("y")]]]], pair(pair(V("p"), V("q")), V("r")))
    KA("k23c", ["e", "a", "b"], {"e": EI}, ["match", "e", [["ILeft", "n", pair(V("n"), V("b"))], ["IRight", "s", pair(V("a"), V("s"))]], []])
    # a generic record with a PHANTOM type parameter (no field mentions it): it stays a type parameter of the function
    K("k24a", ["v"], [], call("{ITagged}", V("v")))
    K("k24b", ["v", "w"], [["let", "l", ["slice", [call("{ITagged}", V("v")), call("{ITagged}", V("w"))]]]], pair(V("l"), V("v")))
    # a generic record whose FIELDS are declared in another order than its type parameters: the type parameters of the function are
    # numbered by first occurrence in the signature (IRev<T0, T1>), not in field order (defect 31)
    K("k26a", ["p", "a", "b"], [["let", "l", ["slice", [V("p"), call("{IRev}", V("a"), V("b"))]]]], V("l"))
    K("k26b", ["p", "b"], [["let", "l", ["slice", [V("p"), call("{IRev}", LIT["int"], V("b"))]]]], pair(V("l"), _fld("p", "RSecond")))
    # a string match: its target is a string, and so is the variable of its last rule (defect 32)
    K("k27a", ["s"], [], ["smatch", "s", [LIT["int"]], ["", LIT["int"]]])
    K("k27b", ["s", "t"], [], ["smatch", "s", [V("t")], ["v", V("v")]])
    K("k27c", ["s", "t", "u"], [["let", "l", ["slice", [V("s"), V("u")]]]], ["smatch", "s", [pair(V("t"), V("l")), pair(LIT["int"], V("l"))], ["", pair(V("t"), V("l"))]])
    # explicit type arguments for a PREFIX of the type parameters: the others are instantiated freshly at every use
    PU = lambda a, b: call("ipair<int>", a, b)
    K("k25a", ["x", "y"], [], pair(PU(LIT["int"], V("x")), PU(LIT["int"], V("y"))))
    K("k25b", ["x"], [], pair(PU(LIT["int"], V("x")), PU(LIT["int"], LIT["str"])))
    K("k25c", ["x", "y"], [["let", "p", PU(LIT["int"], V("x"))], ["let", "q", PU(LIT["int"], V("y"))], ["let", "k", ["slice", [V("x"), LIT["str"]]]]], pair(pair(V("p"), V("q")), V("k")))
    # a lambda parameter with the name of an outer variable that is used again after the lambda: the two are different variables
    K("k21a", ["x", "ys"], [["let", "zs", call("slice.Map", ["lam", "x", call("int+", V("x"), LIT["int"])], V("ys"))]], pair(V("x"), V("zs")))
    K("k21b", ["x", "ys"], [["let", "zs", call("slice.Map", ["lam", "x", call("int+", V("x"), LIT["int"])], V("ys"))], ["let", "w", ["slice", [V("x"), LIT["str"]]]]], pair(V("w"), V("zs")))
    K("k21c", ["x", "ys"], [["let", "g", ["lam", "x", ["slice", [V("x")]]]], ["let", "zs", ["app", "g", [LIT["int"]]]]], pair(pair(V("x"), V("zs")), V("ys")))
    return ks
