"""Functions for C02 with their constraint sets (the documented syntax-directed inference rules, written once here and solved by
spec/FoInfer.tla).  Types are the terms of FoTypeExpr as JSON arrays plus ["var", name].

A generated function: name, params [names], the Folang body lines, eqs [[t1, t2], ...], ptypes [type terms of the
parameters], res (type term of the result).
"""

INT, STR, BOOL = ["base", "int"], ["base", "string"], ["base", "bool"]

PRELUDE = """package main

import frt
import slice
import strings

type IR1 = {A: int; B: string}
type IR2 = {Name: string; Vals: []int}

type IU =
| IC1 of int
| IC2 of int*string
| IC3

type IOpt<T> =
| ISome of T
| INone

type IBox<T> = {Val: T; Tag: string}

let ipair a b =
  (a, b)

let iid x =
  x

let iswap p =
  (frt.Snd p, frt.Fst p)

let iconst (n:int) y =
  n

"""


def sl(t):
    return ["slice", t]


def tup(*ts):
    return ["tuple", list(ts)]


def fn(args, r):
    return ["func", list(args), r]


class Fn:
    def __init__(self, rng, idx):
        self.rng = rng
        self.name = "q%d" % idx
        self.n = 0
        self.eqs = []
        self.env = {}
        self.unused = []
        self.funparams = set()
        self.applied = set()
        self.funlocals = []

    def fresh(self, base="t"):
        self.n += 1
        return ["var", "%s%d" % (base, self.n)]

    def eq(self, a, b):
        self.eqs.append([a, b])

    def atom(self, text):
        """text as an argument / operand: identifiers, literals and fully bracketed expressions as they are, else parenthesised"""
        import re
        if re.match(r"^[A-Za-z_][\w.]*$|^\d+$|^\"[^\"]*\"$", text):
            return text
        if text[0] in "([{":
            depth = 0
            for i, c in enumerate(text):
                if c in "([{":
                    depth += 1
                elif c in ")]}":
                    depth -= 1
                    if depth == 0:
                        return text if i == len(text) - 1 else "(" + text + ")"
        return "(" + text + ")"

    def var(self, want_fun=False):
        """a variable (prefer ones not used yet)"""
        cand = [x for x in self.env if x not in self.funparams]
        if not cand:
            return None
        pool = [x for x in self.unused if x in cand] or cand
        x = self.rng.choice(pool)
        if x in self.unused:
            self.unused.remove(x)
        return x

    # what each construct yields: "int" / "str" / "bool" / "tup" / "sl" / "named" / "any" (a fresh or propagated type)
    YIELD = {"arith": "intstr", "cmp": "bool", "eq": "bool", "tuple": "tup", "slice": "sl", "strlen": "int", "length": "int", "head": "any",
             "fst": "any", "snd": "any", "map": "sl", "append": "sl", "push": "sl", "applyf": "any", "rec": "named", "ctor": "named",
             "ipair": "tup", "iid": "any", "iswap": "tup", "iconst": "int", "concat": "str", "sprintf": "str"}

    def expr(self, d, want=None):
        """an expression; want: None or a ground base type the context requires (the caller still adds the equation)"""
        rng = self.rng
        opts = ["var", "var", "lit"]
        if d > 0:
            opts += list(self.YIELD)
        if want is not None:
            k = {"int": ("int", "intstr", "any"), "string": ("str", "intstr", "any"), "bool": ("bool", "any")}[want[1]]
            opts = ["var", "var", "lit"] + ([o for o in self.YIELD if self.YIELD[o] in k] if d > 0 else [])
        o = rng.choice(opts)
        E = lambda w=None: self.expr(d - 1, w)
        if o == "var":
            x = self.var()
            if x is not None:
                return x, self.env[x]
            o = "lit"
        if o == "lit":
            k = rng.choice(["int", "str", "bool"]) if want is None else {"int": "int", "string": "str", "bool": "bool"}[want[1]]
            return {"int": (str(rng.randint(0, 9)), INT), "str": ('"s%d"' % rng.randint(0, 3), STR), "bool": (rng.choice(["true", "false"]), BOOL)}[k]
        if o == "arith":
            isint = rng.random() < 0.7 if want is None else want == INT
            a, ta = E(INT if isint else STR)
            if isint:
                self.eq(ta, INT)                          # a typed operand: an int literal
                return "%s %s %d" % (self.atom(a), rng.choice(["+", "-", "*"]), rng.randint(1, 5)), ta
            self.eq(ta, STR)
            return '%s + "x"' % self.atom(a), ta
        if o == "cmp":
            a, ta = E(INT)
            self.eq(ta, INT)
            return "%s %s %d" % (self.atom(a), rng.choice(["<", ">", "<=", ">="]), rng.randint(0, 9)), BOOL
        if o == "eq":
            a, ta = E()
            b, tb = E(ta if ta in (INT, STR, BOOL) else None)
            self.eq(ta, tb)
            return "%s %s %s" % (self.atom(a), rng.choice(["=", "<>"]), self.atom(b)), BOOL
        if o == "tuple":
            a, ta = E()
            b, tb = E()
            if rng.random() < 0.25:
                c, tc = E()
                return "(%s, %s, %s)" % (a, b, c), tup(ta, tb, tc)
            return "(%s, %s)" % (a, b), tup(ta, tb)
        if o == "slice":
            a, ta = E()
            b, tb = E(ta if ta in (INT, STR, BOOL) else None)
            self.eq(ta, tb)
            return "[%s; %s]" % (a, b), sl(ta)
        if o == "strlen":
            a, ta = E(STR)
            self.eq(ta, STR)
            return "strings.Length %s" % self.atom(a), INT
        if o == "concat":
            a, ta = self.expr(0)
            self.eq(ta, sl(STR))
            return 'strings.Concat "," %s' % self.atom(a), STR
        if o == "sprintf":
            a, ta = E()
            return 'frt.Sprintf1 "%%v" %s' % self.atom(a), STR
        if o == "length":
            a, ta = E()
            e = self.fresh()
            self.eq(ta, sl(e))
            return "slice.Length %s" % self.atom(a), INT
        if o == "head":
            a, ta = E()
            e = self.fresh()
            self.eq(ta, sl(e))
            return "slice.Head %s" % self.atom(a), e
        if o in ("fst", "snd"):
            a, ta = E()
            f1, f2 = self.fresh(), self.fresh()
            self.eq(ta, tup(f1, f2))
            return ("frt.Fst %s" if o == "fst" else "frt.Snd %s") % self.atom(a), (f1 if o == "fst" else f2)
        if o == "append":
            a, ta = E()
            b, tb = E()
            e = self.fresh()
            self.eq(ta, sl(e))
            self.eq(tb, sl(e))
            return "slice.Append %s %s" % (self.atom(a), self.atom(b)), sl(e)
        if o == "push":
            a, ta = E()
            b, tb = E()
            self.eq(tb, sl(ta))
            return "slice.PushLast %s %s" % (self.atom(a), self.atom(b)), sl(ta)
        if o in ("map", "applyf"):
            fs = [x for x in self.funparams if x not in self.applied]
            if not fs:
                return self.expr(d - 1, want)
            f = rng.choice(fs)
            self.applied.add(f)                      # a function-typed parameter is applied (or passed) once
            if f in self.unused:
                self.unused.remove(f)
            a, ta = E()
            r = self.fresh()
            if o == "applyf":
                self.eq(self.env[f], fn([ta], r))
                return "%s %s" % (f, self.atom(a)), r
            e = self.fresh()
            self.eq(self.env[f], fn([e], r))
            self.eq(ta, sl(e))
            return "slice.Map %s %s" % (f, self.atom(a)), sl(r)
        if o == "rec":
            if rng.random() < 0.5:
                a, ta = E(INT)
                b, tb = E(STR)
                self.eq(ta, INT)
                self.eq(tb, STR)
                return "{A=%s; B=%s}" % (a, b), ["named", "IR1", []]
            a, ta = E(STR)
            b, tb = self.expr(0)
            self.eq(ta, STR)
            self.eq(tb, sl(INT))
            return "{Name=%s; Vals=%s}" % (a, b), ["named", "IR2", []]
        if o == "ctor":
            k = rng.choice([1, 2, 3])
            if k == 1:
                a, ta = E(INT)
                self.eq(ta, INT)
                return "IC1 %s" % self.atom(a), ["named", "IU", []]
            if k == 2:
                a, ta = self.expr(0)
                self.eq(ta, tup(INT, STR))
                return "IC2 %s" % self.atom(a), ["named", "IU", []]
            return "IC3", ["named", "IU", []]
        if o == "ipair":
            a, ta = E()
            b, tb = E()
            return "ipair %s %s" % (self.atom(a), self.atom(b)), tup(ta, tb)        # a fresh instance per use
        if o == "iid":
            a, ta = E()
            return "iid %s" % self.atom(a), ta
        if o == "iswap":
            a, ta = E()
            f1, f2 = self.fresh(), self.fresh()
            self.eq(ta, tup(f1, f2))
            return "iswap %s" % self.atom(a), tup(f2, f1)
        if o == "iconst":
            a, ta = E(INT)
            b, tb = E()
            self.eq(ta, INT)
            return "iconst %s %s" % (self.atom(a), self.atom(b)), INT
        return self.expr(0, want)

    def build(self):
        rng = self.rng
        np_ = rng.randint(1, 4)
        self.params = ["a%d" % i for i in range(np_)]
        self.ptypes = []
        for p in self.params:
            t = ["var", "p_" + p]
            self.env[p] = t
            self.ptypes.append(t)
            self.unused.append(p)
            if rng.random() < 0.2:
                self.funparams.add(p)
        lines = []
        for _ in range(rng.randint(0, 3)):
            r = rng.random()
            if r < 0.2:
                # a local lambda with an un-annotated parameter, returned un-applied: its parameter type occurs only in the result
                g = self.fresh("g")[1]
                y = self.fresh("y")[1]
                ty = self.fresh()
                body, tb = rng.choice([("[%s]" % y, sl(ty)), ("(%s, 1)" % y, tup(ty, INT)), (y, ty), ("(%s, %s)" % (y, y), tup(ty, ty))])
                lines.append("let %s = fun %s -> %s" % (g, y, body))
                self.funlocals.append((g, fn([ty], tb)))
            elif r < 0.4:
                # destructuring of a variable: it is a pair
                x = self.var()
                if x is None:
                    continue
                a, b = self.fresh("v")[1], self.fresh("v")[1]
                fa, fb = self.fresh(), self.fresh()
                self.eq(self.env[x], tup(fa, fb))
                lines.append("let (%s, %s) = %s" % (a, b, x))
                self.env[a], self.env[b] = fa, fb
                self.unused += [a, b]
            else:
                v = self.fresh("v")[1]
                e, te = self.expr(2)
                lines.append("let %s = %s" % (v, e))
                self.env[v] = te
                self.unused.append(v)
        # the result mentions every local that is still unused (Go rejects unused locals); unused parameters stay generic
        parts = []
        e, te = self.expr(2)
        parts.append((e, te))
        for x in list(self.unused):
            if x not in self.params and x not in self.funparams:
                parts.append((x, self.env[x]))
                self.unused.remove(x)
        for f in list(self.funparams):
            if f not in self.applied:
                # an unapplied function-typed parameter is just an unconstrained value
                pass
        parts += self.funlocals
        # construction of generic user types, only as direct components of the result (their type arguments are never unified with
        # another generic type: that corner is the candidate finding 13 of DESIGN section 6); two literals of the same generic record
        # with different arguments must get independent instances
        for _ in range(rng.choice([0, 0, 1, 2, 2])):
            x = self.var() or rng.choice(self.params)
            if x in self.funparams:
                continue
            if x in self.unused:
                self.unused.remove(x)
            if rng.random() < 0.5:
                parts.append(('{Val=%s; Tag="t"}' % x, ["named", "IBox", [self.env[x]]]))
            else:
                parts.append(("ISome %s" % x, ["named", "IOpt", [self.env[x]]]))
        rng.shuffle(parts)            # the order in the result is independent of the order of the local definitions
        while len(parts) > 1:
            (a, ta), (b, tb) = parts.pop(), parts.pop()
            parts.append(("(%s, %s)" % (b, a), tup(tb, ta)))
        fin, tfin = parts[0]
        self.body = lines + [fin]
        self.res = tfin
        return self

    def spec(self):
        return {"name": self.name, "eqs": self.eqs, "params": self.ptypes, "res": self.res}

    def text(self, annots=None):
        """annots: dict param -> Folang type text (annotated parameters)"""
        annots = annots or {}
        ps = " ".join(("(%s:%s)" % (p, annots[p])) if p in annots else p for p in self.params)
        return "let %s %s =\n%s\n\n" % (self.name, ps, "\n".join("  " + l for l in self.body))


class MergeFn(Fn):
    """directed family: equivalence classes of parameters merged pairwise in a random order through slice literals, then a concrete
    type arrives through one member (exercises class merging / propagation order in the resolver)"""

    def build(self):
        rng = self.rng
        n = rng.randint(3, 6)
        self.params = ["a%d" % i for i in range(n)]
        self.ptypes = []
        for p in self.params:
            t = ["var", "p_" + p]
            self.env[p] = t
            self.ptypes.append(t)
        lines, parts = [], []
        for _ in range(rng.randint(2, n + 1)):
            x, y = rng.sample(self.params, 2)
            v = self.fresh("v")[1]
            self.eq(self.env[x], self.env[y])
            lines.append("let %s = [%s; %s]" % (v, x, y))
            parts.append((v, sl(self.env[x])))
        for _ in range(rng.randint(0, 2)):
            x = rng.choice(self.params)
            v = self.fresh("v")[1]
            if rng.random() < 0.5:
                self.eq(self.env[x], INT)
                lines.append("let %s = %s + 1" % (v, x))
                parts.append((v, INT))
            else:
                self.eq(self.env[x], STR)
                lines.append("let %s = strings.Length %s" % (v, x))
                parts.append((v, INT))
        rng.shuffle(parts)
        while len(parts) > 1:
            (a, ta), (b, tb) = parts.pop(), parts.pop()
            parts.append(("(%s, %s)" % (b, a), tup(tb, ta)))
        self.body = lines + [parts[0][0]]
        self.res = parts[0][1]
        return self


def generate(rng, n):
    return [(MergeFn(rng, i) if i % 5 == 4 else Fn(rng, i)).build() for i in range(n)]
