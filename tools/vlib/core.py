"""Shared infrastructure for the /verif checks (python3 stdlib only).

Verdict rule (DESIGN.md section 1): a VIOLATION is only ever reported for behaviour exhibited by
the real code; every failure of our own tooling (TLC crash, build failure of a harness, timeout of
the tooling) raises Infra and ends in exit status 2.
"""
import hashlib
import json
import os
import random
import re
import shutil
import subprocess
import sys
import tempfile
import time

VERIF = os.path.dirname(os.path.dirname(os.path.dirname(os.path.abspath(__file__))))
REPO = os.environ.get("VERIF_REPO", "/repo")
TLA_JAR = "/opt/veriftools/tla/tla2tools.jar"
CM_JAR = "/opt/veriftools/tla/CommunityModules-deps.jar"
STALE = ["fc/fc", "tinyfo/tinyfo", "cmd/build_sample_md/build_sample_md"]
NCPU = os.cpu_count() or 4

GOENV = dict(os.environ)
# -trimpath: scratch copies live at a new path on every run; without it every build misses the Go build cache (and fills the disk)
GOENV.update({"GOFLAGS": "-mod=mod -trimpath", "GOPROXY": "off", "GOSUMDB": "off", "GOTOOLCHAIN": "local"})
for _k in ("FOLANG_VERIF_DICTSCHED", "FOLANG_VERIF_DICTLOG"):
    GOENV.pop(_k, None)


class Infra(Exception):
    """Our own machinery failed: exit 2, never a violation."""


def sh(cmd, cwd=None, env=None, timeout=None, input=None, check=False):
    """Run a command (list), return (rc, stdout, stderr) as text."""
    try:
        p = subprocess.run(cmd, cwd=cwd, env=env or GOENV, timeout=timeout, input=input,
                           stdout=subprocess.PIPE, stderr=subprocess.PIPE, text=True, errors="replace")
    except subprocess.TimeoutExpired as e:
        out = e.stdout.decode("utf8", "replace") if isinstance(e.stdout, bytes) else (e.stdout or "")
        err = e.stderr.decode("utf8", "replace") if isinstance(e.stderr, bytes) else (e.stderr or "")
        if check:
            raise Infra("timeout running %s" % " ".join(cmd[:4]))
        return 124, out, err
    if check and p.returncode != 0:
        raise Infra("command failed (%d): %s\n%s\n%s" % (p.returncode, " ".join(cmd[:6]), p.stdout[-3000:], p.stderr[-3000:]))
    return p.returncode, p.stdout, p.stderr


def h(obj):
    return hashlib.sha256(json.dumps(obj, sort_keys=True, default=str).encode()).hexdigest()[:16]


class Ctx:
    def __init__(self, pid, tier, seed, level="model_checking"):
        self.pid = pid
        self.tier = tier
        self.seed = seed
        self.level = level
        self.rng = random.Random(seed * 1000003 + int(pid[1:]))
        self.t0 = time.time()
        base = os.environ.get("VERIF_TMP", tempfile.gettempdir())
        self.scratch = tempfile.mkdtemp(prefix="verif-%s-" % pid, dir=base)
        # a Go build cache of its own, inside the scratch directory (removed with it): the generated programs of a run are all different, in
        # the shared default cache they pile up (100 GB after a day of runs); costs one cold build of the standard library per run (about 7 s)
        if not os.environ.get("VERIF_SHARED_GOCACHE"):
            GOENV["GOCACHE"] = os.path.join(self.scratch, "gocache")
        self.repo = None
        self.bins = {}
        self.states = 0
        self.transitions = 0
        self.traces = 0
        self.evaluations = 0
        self.distinct = set()
        self.samples = []
        self.violations = []
        self.known = []
        self.notes = []
        self.extra = {}
        self.exhaustive = None
        self.rule = ""
        self.assumptions = []
        self.tlc_runs = []
        self.findings = load_findings(pid)

    # ---------------------------------------------------------------- scratch / build
    def path(self, *p):
        d = os.path.join(self.scratch, *p)
        return d

    def mkdir(self, *p):
        d = self.path(*p)
        os.makedirs(d, exist_ok=True)
        return d

    def copy_repo(self):
        """Scratch copy of /repo's *working tree* (tracked + untracked sources, no .git, no stale binaries)."""
        if self.repo:
            return self.repo
        dst = self.path("repo")
        cmd = ["rsync", "-a", "--exclude", ".git"] + sum([["--exclude", "/" + s] for s in STALE], []) + [REPO + "/", dst + "/"]
        sh(cmd, check=True)
        self.repo = dst
        return dst

    def build(self, name, tags="verif"):
        """Build fc / tinyfo / build_sample_md from the scratch copy. Build failure of the repo itself is
        an infrastructure failure for our purposes (the change does not compile)."""
        key = (name, tags)
        if key in self.bins:
            return self.bins[key]
        repo = self.copy_repo()
        src = {"fc": "fc", "tinyfo": "tinyfo", "build_sample_md": "cmd/build_sample_md"}[name]
        out = os.path.join(self.mkdir("bin"), name + ("_" + tags if tags else ""))
        cmd = ["go", "build"] + (["-tags", tags] if tags else []) + ["-o", out, "."]
        rc, so, se = sh(cmd, cwd=os.path.join(repo, src), timeout=600)
        if rc != 0:
            raise Infra("go build of %s failed:\n%s%s" % (name, so[-2000:], se[-4000:]))
        self.bins[key] = out
        return out

    def go_module(self, name, pkgs=("frt", "slice", "dict", "strings", "buf", "sys"), extra_files=None):
        """Create a Go module in scratch that can import the folang pkg/* of the scratch repo copy."""
        repo = self.copy_repo()
        d = self.mkdir(name)
        lines = ["module %s" % name.replace("/", "_"), "", "go 1.23.4", ""]
        for p in pkgs:
            lines.append("replace github.com/karino2/folang/pkg/%s => %s/pkg/%s" % (p, repo, p))
        lines.append("")
        lines.append("require (")
        for p in pkgs:
            lines.append("\tgithub.com/karino2/folang/pkg/%s v0.0.0" % p)
        lines.append(")")
        with open(os.path.join(d, "go.mod"), "w") as f:
            f.write("\n".join(lines) + "\n")
        shutil.copy(os.path.join(repo, "fc", "go.sum"), os.path.join(d, "go.sum"))
        for fn, content in (extra_files or {}).items():
            with open(os.path.join(d, fn), "w") as f:
                f.write(content)
        return d

    def go_build(self, moddir, out="prog", tags="verif", timeout=900, all_errors=False):
        cmd = ["go", "build"] + (["-tags", tags] if tags else []) + (["-gcflags=-e"] if all_errors else []) + ["-o", out, "."]
        return sh(cmd, cwd=moddir, timeout=timeout)

    # ---------------------------------------------------------------- TLC
    def spec_dir(self):
        d = self.path("spec")
        if not os.path.isdir(d):
            shutil.copytree(os.path.join(VERIF, "spec"), d)
        return d

    def tlc(self, module, cfg, workers=None, simulate=None, depth=None, timeout=1800, heap_gb=3,
            coverage=False, extra=None, deadlock=True, dfs=False, allow_fail=False, seed=None):
        """Run TLC on spec/<module>.tla with spec/<cfg>. Returns dict(ok, out, generated, distinct, coverage)."""
        d = self.spec_dir()
        meta = tempfile.mkdtemp(prefix="meta-", dir=self.scratch)
        jtmp = self.mkdir("jtmp")
        jopts = ["-Xmx%dg" % heap_gb, "-Xss512m", "-XX:+UseParallelGC", "-Djava.io.tmpdir=" + jtmp]
        if dfs:
            jopts.append("-Dtlc2.tool.queue.IStateQueue=StateDeque")
        cmd = ["java"] + jopts + ["-cp", TLA_JAR + ":" + CM_JAR, "tlc2.TLC", "-config", cfg,
                                   "-metadir", meta, "-workers", str(workers or "auto"), "-noGenerateSpecTE"]
        if not deadlock:
            cmd.append("-deadlock")  # -deadlock = do NOT check deadlock
        if simulate:
            cmd += ["-simulate", simulate]
            if depth:
                cmd += ["-depth", str(depth)]
        if seed is not None:
            cmd += ["-seed", str(seed)]
        if coverage:
            cmd += ["-coverage", "1"]
        cmd += (extra or [])
        cmd.append(module + ".tla")
        env = dict(os.environ)
        env.pop("JAVA_TOOL_OPTIONS", None)
        t0 = time.time()
        rc, out, err = sh(cmd, cwd=d, env=env, timeout=timeout)
        wall = time.time() - t0
        shutil.rmtree(meta, ignore_errors=True)
        res = {"rc": rc, "out": out, "err": err, "wall": wall, "generated": 0, "distinct": 0, "module": module, "cfg": cfg}
        m = None
        for m in re.finditer(r"(\d+) states generated, (\d+) distinct states found", out):
            pass
        if m:
            res["generated"] = int(m.group(1))
            res["distinct"] = int(m.group(2))
        ok = (rc == 0 and "Error:" not in out)
        res["ok"] = ok
        self.tlc_runs.append({"module": module, "cfg": cfg, "rc": rc, "generated": res["generated"],
                              "distinct": res["distinct"], "wall_s": round(wall, 2)})
        self.states += res["distinct"]
        self.transitions += res["generated"]
        if not ok and not allow_fail:
            raise Infra("TLC failed on %s/%s (rc=%d):\n%s\n%s" % (module, cfg, rc, out[-6000:], err[-2000:]))
        return res

    # ---------------------------------------------------------------- accounting
    def tlapm(self, module, timeout=900):
        """check the proofs of spec/<module>.tla with the TLA+ proof system; returns the number of obligations proved (Infra if not all)"""
        d = self.spec_dir()
        rc, so, se = sh(["tlapm", "--threads", str(NCPU), "--cleanfp", module + ".tla"], cwd=d, timeout=timeout)
        out = so + se
        m = re.search(r"All (\d+) obligations? proved", out)
        if rc != 0 or not m:
            raise Infra("tlapm did not prove every obligation of %s: %s" % (module, out[-800:]))
        self.tlc_runs.append({"module": module, "cfg": "(tlapm proof)", "rc": rc, "generated": 0, "distinct": 0, "wall_s": 0})
        return int(m.group(1))

    def case(self, key, nontrivial=True, sample=None):
        """Count one explored case; key identifies it for distinctness."""
        self.evaluations += 1
        if nontrivial:
            self.distinct.add(h(key))
        if sample is not None and len(self.samples) < 6:
            self.samples.append(sample)

    def violation(self, what, replay):
        """Record a violation exhibited by real code. replay: JSON-serialisable object reproducing it."""
        rdir = os.path.join(VERIF, "replays") if not os.environ.get("VERIF_NOEVIDENCE") else os.path.join(tempfile.gettempdir(), "verif-seedtest-replays")
        os.makedirs(rdir, exist_ok=True)
        obj = {"property": self.pid, "what": what, "seed": self.seed, "tier": self.tier}
        obj.update(replay)
        name = "%s-%s.json" % (self.pid, h(obj))
        path = os.path.join(rdir, name)
        with open(path, "w") as f:
            json.dump(obj, f, indent=1, default=str)
        if len(self.violations) < 25:
            print("VIOLATION property=%s replay=%s" % (self.pid, path))
            print("  " + what[:600].replace("\n", "\n  "))
        self.violations.append(path)

    def known_finding(self, key, what):
        print("KNOWN-FINDING: property=%s key=%s %s" % (self.pid, key, what))
        self.known.append(key)

    def is_known(self, key):
        return key in self.findings

    def note(self, s):
        self.notes.append(s)
        print("note: " + s)

    # ---------------------------------------------------------------- evidence
    def finish(self):
        wall = time.time() - self.t0
        cov = {
            "evaluations": self.evaluations,
            "distinct_nontrivial": len(self.distinct),
            "rule": self.rule,
            "samples": self.samples[:6] or ["(none)"],
            "states": self.states,
            "transitions": self.transitions,
            "traces_validated_against_impl": self.traces,
            "tlc_runs": self.tlc_runs,
            "notes": self.notes,
        }
        if self.exhaustive is not None:
            cov["exhaustive"] = bool(self.exhaustive)
        cov.update(self.extra)
        ev = {"property_id": self.pid, "tier": self.tier, "seed": self.seed, "level": self.level,
              "coverage": cov, "assumptions": self.assumptions, "wall_s": round(wall, 2),
              "violations": len(self.violations), "known_findings_reported": self.known}
        if not os.environ.get("VERIF_NOEVIDENCE"):      # (set only by tools/seedtest.py, which runs checks on patched copies)
            os.makedirs(os.path.join(VERIF, "evidence"), exist_ok=True)
            with open(os.path.join(VERIF, "evidence", self.pid + ".json"), "w") as f:
                json.dump(ev, f, indent=1, default=str)
        print("%s %s seed=%d: evaluations=%d distinct_nontrivial=%d tlc_states=%d traces=%d violations=%d wall=%.1fs" % (
            self.pid, self.tier, self.seed, self.evaluations, len(self.distinct), self.states, self.traces,
            len(self.violations), wall))
        return 1 if self.violations else 0

    def cleanup(self):
        if os.environ.get("VERIF_KEEP"):
            print("scratch kept: " + self.scratch)
            return
        shutil.rmtree(self.scratch, ignore_errors=True)


def load_findings(pid):
    res = {}
    p = os.path.join(VERIF, "known_findings.txt")
    if not os.path.exists(p):
        return res
    for line in open(p):
        line = line.strip()
        m = re.match(r"finding:\s+property=(\S+)\s+key=(\S+)\s+(.*)", line)
        if m and m.group(1) == pid:
            res[m.group(2)] = m.group(3)
    return res


def write_ndjson(path, rows):
    with open(path, "w") as f:
        for r in rows:
            f.write(json.dumps(r, separators=(",", ":"), ensure_ascii=True) + "\n")


def read_ndjson(path):
    res = []
    with open(path) as f:
        for line in f:
            line = line.strip()
            if line:
                res.append(json.loads(line))
    return res


def pmap(fn, items, workers=None):
    """Thread pool map (the work is done in sub-processes)."""
    from concurrent.futures import ThreadPoolExecutor
    with ThreadPoolExecutor(max_workers=workers or NCPU) as ex:
        return list(ex.map(fn, items))
