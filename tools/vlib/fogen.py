"""fogen: type-directed generator of well-typed Folang programs in the documented profile, their rendering as .fo text and
their export as abstract syntax (JSON) for spec/FoSem.tla.

The abstract syntax is the one described in spec/FoSem.tla / DESIGN.md Appendix A (dicts with a discriminator "k").
Profile rules (DESIGN.md 8a) built in: every let-bound local is used, names are unique per program, no unit-typed let,
if / match only at statement level (final expression of a block or right-hand side of a let), match targets are variables
of a known union type, application heads are names, field access only on variables, supplied arguments of a partial
application that is not a pipeline stage are effect-free (known finding), integers stay small.
"""
import json

INT, STR, BOOL = ("int",), ("str",), ("bool",)
STRS = ["a", "b", "ab", "x1", "hello", "k:v", "q r"]


def tname(t):
    return t[0]


class Gen:
    def __init__(self, rng, pid, profile="fc", size=3):
        self.rng = rng
        self.pid = pid
        self.profile = profile
        self.P = "P%d" % pid
        self.p = "p%d" % pid
        self.n = 0
        self.records = {}      # name -> [(field, type)]
        self.unions = {}       # name -> [(case, type or None)]
        self.funcs = []        # (name, [(pname, ptype)], rtype, body)
        self.size = size
        self.used = set()
        # identifiers that are keywords of Go (valid Folang names): each at most once per program
        self.kwpool = ["map", "range", "default", "func", "var", "go", "select", "struct", "switch", "case", "chan", "const", "defer", "goto",
                       "interface", "return", "break", "continue", "fallthrough", "for"]
        rng.shuffle(self.kwpool)

    # ------------------------------------------------------------ helpers
    def fresh(self, base="v"):
        self.n += 1
        if self.kwpool and self.rng.random() < 0.06:
            return self.kwpool.pop()
        return "%s%d" % (base, self.n)

    def tag(self):
        self.n += 1
        return "%st%d" % (self.p, self.n)

    def first_order_types(self, depth=1):
        if self.profile == "tinyfo":
            return [INT, STR, BOOL] + [("rec", r) for r in self.records] + [("uni", u) for u in self.unions] + ([("tup", (INT, STR))] if depth > 0 else [])
        ts = [INT, STR, BOOL]
        ts += [("rec", r) for r in self.records]
        ts += [("uni", u) for u in self.unions]
        if depth > 0:
            ts += [("sl", INT), ("sl", STR), ("tup", (INT, STR)), ("tup", (STR, INT)), ("tup", (INT, INT, BOOL))]
            if self.records:
                ts.append(("sl", ("rec", self.rng.choice(list(self.records)))))
        return ts

    def pick_type(self, depth=1):
        return self.rng.choice(self.first_order_types(depth))

    # ------------------------------------------------------------ declarations
    def declare_types(self):
        rng = self.rng
        for i in range(rng.randint(0, 2)):
            name = "%sR%d" % (self.P, i)
            nf = rng.randint(1, 3)
            upper = rng.random() < 0.7
            fields = []
            for j in range(nf):
                fn = ("R%dF%d" if upper else "r%df%d") % (i, j)      # unique per record: a literal is resolved by its field names
                ft = rng.choice(([INT, STR, BOOL, ("sl", INT)] if self.profile == "fc" else [INT, STR, BOOL]) + [("rec", r) for r in self.records])
                fields.append((fn, ft))
            self.records[name] = fields
        for i in range(rng.randint(1, 2)):
            name = "%sU%d" % (self.P, i)
            nc = rng.randint(1, 4)
            cases = []
            for j in range(nc):
                cn = "%sC%d%d" % (self.P, i, j)
                pt = rng.choice([None, INT, STR, ("tup", (INT, STR)), ("sl", INT)] + [("rec", r) for r in self.records] +
                                [("uni", u) for u in self.unions]) if self.profile == "fc" else rng.choice([None, INT, STR] + [("rec", r) for r in self.records])
                cases.append((cn, pt))
            self.unions[name] = cases
        if rng.random() < 0.6 and self.profile == "fc":
            # a record holding a union (declared after the unions)
            name = "%sR9" % self.P
            self.records[name] = [("R9F0", INT), ("R9f1", ("uni", rng.choice(list(self.unions))))] + ([("R9F2", ("sl", INT))] if rng.random() < 0.5 else [])

    # ------------------------------------------------------------ expressions
    def lit(self, t, d=2):
        rng = self.rng
        k = tname(t)
        if k == "int":
            return {"k": "int", "v": rng.randint(0, 9)}
        if k == "str":
            return {"k": "str", "v": rng.choice(STRS)}
        if k == "bool":
            return {"k": "bool", "v": rng.random() < 0.5}
        if k == "tup":
            return {"k": "tuple", "es": [self.lit(x, d - 1) for x in t[1]]}
        if k == "sl":
            return {"k": "slice", "es": [self.lit(t[1], d - 1) for _ in range(rng.randint(1, 3))]}
        if k == "rec":
            fs = list(self.records[t[1]])
            return {"k": "rec", "name": t[1], "fields": [{"n": fn, "e": self.lit(ft, d - 1)} for fn, ft in fs]}
        if k == "uni":
            cases = self.unions[t[1]]
            # avoid infinite recursion through recursive payloads
            cs = [c for c in cases if c[1] is None or d > 0] or cases
            cn, pt = rng.choice(cs)
            return {"k": "ctor", "union": t[1], "case": cn, "arg": {"k": "none"} if pt is None else self.lit(pt, d - 1)}
        raise ValueError(t)

    def vars_of(self, env, t):
        return [x for x, xt in env.items() if xt == t]

    def use(self, x):
        self.used.add(x)
        return {"k": "var", "x": x}

    def maybe_probe(self, e, pure, p=0.25, t=None):
        if not pure and self.rng.random() < p:
            if self.profile == "tinyfo":
                if t not in (INT, STR, BOOL):
                    return e
                return {"k": "probe", "tag": self.tag(), "e": e, "pt": {"int": "I", "str": "S", "bool": "B"}[t[0]]}
            return {"k": "probe", "tag": self.tag(), "e": e}
        return e

    def expr(self, t, env, d, pure=False):
        """an expression of type t without statement-level constructs"""
        return self.maybe_probe(self.expr0(t, env, d, pure), pure, 0.25, t)

    def expr0(self, t, env, d, pure):
        rng = self.rng
        k = tname(t)
        vs = self.vars_of(env, t)
        if d <= 0 or rng.random() < 0.15:
            if vs and rng.random() < 0.7:
                return self.use(rng.choice(vs))
            return self.lit(t, 1)
        opts = ["lit", "var"] if vs else ["lit"]
        # eliminations available for every type
        recs = [(x, xt) for x, xt in env.items() if tname(xt) == "rec" and any(ft == t for _, ft in self.records[xt[1]])]
        if recs:
            opts.append("field")
        tups = [(x, xt) for x, xt in env.items() if tname(xt) == "tup" and len(xt[1]) == 2 and t in xt[1]]
        if tups:
            opts.append("fstsnd")
        calls = [f for f in self.funcs if f[2] == t] if not pure else []      # user functions contain marks: not effect-free
        if calls:
            opts += ["call", "call"]
        fvars = [(x, xt) for x, xt in env.items() if tname(xt) == "fn" and xt[2] == t] if not pure else []
        if fvars:
            opts += ["callvar", "callvar"]
        pipes = [f for f in self.funcs if f[2] == t and len(f[1]) >= 1] if not pure else []
        if pipes:
            opts.append("pipecall")
        sls = [(x, xt) for x, xt in env.items() if xt == ("sl", t)]
        if sls:
            opts.append("head")
        if k == "int":
            opts += ["arith", "arith", "length", "fold", "strlen"]
        elif k == "str":
            opts += ["concat", "interp", "sprintf", "join"]
        elif k == "bool":
            opts += ["cmp", "cmp", "andor", "not", "eq", "forall", "isempty"]
        elif k == "sl":
            opts += ["map", "filter", "append", "push", "pipeline", "take"]
            if t[1] in (INT,):
                opts.append("sort")
        elif k == "tup":
            opts += ["mk"]
        elif k == "rec":
            opts += ["mk"]
        elif k == "uni":
            opts += ["mk"]
        if self.profile == "tinyfo":
            banned = {"fold", "interp", "sprintf", "forall", "map", "filter", "pipeline", "sort", "head", "append", "push", "take", "isempty"}
            if not [x for x, xt in env.items() if tname(xt) == "sl"]:
                banned |= {"length", "join"}
            opts = [x for x in opts if x not in banned] or ["lit"]
            if k == "sl":
                opts = ["var"] if vs else ["lit"]
        o = rng.choice(opts)
        E = lambda tt, dd=d - 1, pp=pure: self.expr(tt, env, dd, pp)
        if self.profile == "tinyfo":
            # a slice literal is not an atom in tinyfo: slice-typed arguments are variables
            def E(tt, dd=d - 1, pp=pure):
                if tname(tt) == "sl":
                    cand = self.vars_of(env, tt)
                    return self.use(rng.choice(cand)) if cand else self.lit(tt, 1)
                return self.expr(tt, env, dd, pp)
        if o == "lit":
            return self.lit(t, 1)
        if o == "var":
            return self.use(rng.choice(vs))
        if o == "field":
            x, xt = rng.choice(recs)
            fn = rng.choice([fn for fn, ft in self.records[xt[1]] if ft == t])
            return {"k": "field", "e": self.use(x), "n": fn}
        if o == "fstsnd":
            x, xt = rng.choice(tups)
            i = rng.choice([i for i in (0, 1) if xt[1][i] == t])
            return {"k": "app", "f": "frt.Fst" if i == 0 else "frt.Snd", "args": [self.use(x)]}
        if o == "call":
            f = rng.choice(calls)
            return {"k": "app", "f": f[0], "args": [E(pt) for _, pt in f[1]] or [{"k": "unit"}]}
        if o == "callvar":
            x, xt = rng.choice(fvars)
            return {"k": "app", "f": self.use(x)["x"], "args": [E(pt) for pt in xt[1]]}
        if o == "pipecall":
            # a |> f x y : the last parameter comes from the pipe; the stage is a partial application (effects allowed)
            f = rng.choice(pipes)
            ps = [pt for _, pt in f[1]]
            stage = {"k": "app", "f": f[0], "args": [E(pt) for pt in ps[:-1]]} if len(ps) > 1 else {"k": "var", "x": f[0]}
            return {"k": "pipe", "a": E(ps[-1]), "b": stage}
        if o == "head":
            x, xt = rng.choice(sls)
            # only on literals-derived non-empty values: guard with a literal prefix
            return {"k": "app", "f": "slice.Head", "args": [{"k": "app", "f": "slice.PushHead", "args": [E(t), self.use(x)]}]}
        if o == "arith":
            op = rng.choice(["+", "+", "-", "*"] if self.profile == "fc" else ["+", "-"])
            if op == "*":
                return {"k": "bin", "op": "*", "a": E(INT), "b": {"k": "int", "v": rng.randint(0, 3)}}
            return {"k": "bin", "op": op, "a": E(INT), "b": E(INT)}
        if o == "length":
            if self.profile == "tinyfo":
                x = rng.choice([x for x, xt in env.items() if tname(xt) == "sl"])
                return {"k": "app", "f": "slice.Length", "args": [self.use(x)]}
            return {"k": "app", "f": rng.choice(["slice.Length", "slice.Len"]), "args": [E(("sl", rng.choice([INT, STR])))]}
        if o == "strlen":
            return {"k": "app", "f": "strings.Length", "args": [E(STR)]}
        if o == "fold":
            a, x = self.fresh("a"), self.fresh("x")
            body = {"k": "bin", "op": "+", "a": {"k": "var", "x": a}, "b": self.maybe_probe({"k": "var", "x": x}, pure, 0.3)}
            return {"k": "app", "f": "slice.Fold", "args": [self.lam([a, x], body), E(INT), E(("sl", INT))]}
        if o == "concat":
            return {"k": "bin", "op": "+", "a": E(STR), "b": E(STR)}
        if o == "interp":
            holes = [x for x, xt in env.items() if xt in (INT, STR, BOOL)]
            segs = []
            for _ in range(rng.randint(1, 4)):
                if holes and rng.random() < 0.6:
                    segs.append({"k": "hole", "x": self.use(rng.choice(holes))["x"]})
                else:
                    segs.append({"k": "lit", "v": rng.choice(["a", " ", "x=", ", ", "100% ", "b:"])})
            if not any(s["k"] == "hole" for s in segs) and holes:
                segs.append({"k": "hole", "x": self.use(rng.choice(holes))["x"]})
            return {"k": "interp", "segs": segs}
        if o == "sprintf":
            return {"k": "app", "f": "frt.Sprintf1", "args": [{"k": "str", "v": "%d"}, E(INT)]}
        if o == "join" and self.profile == "tinyfo":
            cand = self.vars_of(env, ("sl", STR))
            if not cand:
                return self.lit(t, 1)
            return {"k": "app", "f": "strings.Concat", "args": [{"k": "str", "v": ","}, self.use(rng.choice(cand))]}
        if o == "join":
            return {"k": "app", "f": "strings.Concat", "args": [{"k": "str", "v": rng.choice([",", "", " "])}, E(("sl", STR))]}
        if o == "cmp":
            return {"k": "bin", "op": rng.choice(["<", ">", "<=", ">="]), "a": E(INT), "b": E(INT)}
        if o == "andor":
            return {"k": rng.choice(["and", "or"]), "a": E(BOOL), "b": E(BOOL)}
        if o == "not":
            return {"k": "not", "a": E(BOOL)}
        if o == "eq":
            tt = self.pick_type(1)
            return {"k": "bin", "op": rng.choice(["=", "<>"]), "a": E(tt), "b": E(tt)}
        if o == "forall":
            x = self.fresh("x")
            body = {"k": "bin", "op": rng.choice(["<", ">"]), "a": self.maybe_probe({"k": "var", "x": x}, pure, 0.3), "b": {"k": "int", "v": rng.randint(0, 9)}}
            return {"k": "app", "f": rng.choice(["slice.Forall", "slice.Forany"]), "args": [self.lam([x], body), E(("sl", INT))]}
        if o == "isempty":
            return {"k": "app", "f": rng.choice(["slice.IsEmpty", "slice.IsNotEmpty"]), "args": [E(("sl", rng.choice([INT, STR])))]}
        if o == "map":
            # projection of a slice of records with the shorthand property accessor  _.F  (= fun x -> x.F)
            projs = [(rn, fn) for rn, fs in self.records.items() for fn, ft in fs if ft == t[1]] if self.profile == "fc" else []
            if projs and rng.random() < 0.4:
                rn, fn = rng.choice(projs)
                x = self.fresh("x")
                lam = self.lam([x], {"k": "field", "e": {"k": "var", "x": x}, "n": fn})
                lam["us"] = fn
                lam["bare"] = rng.random() < 0.7
                srcsl = E(("sl", ("rec", rn)))
                return {"k": "pipe", "a": srcsl, "b": {"k": "app", "f": "slice.Map", "args": [lam]}} if rng.random() < 0.5 else \
                    {"k": "app", "f": "slice.Map", "args": [lam, srcsl]}
            src = rng.choice([INT, STR])
            x = self.fresh("x")
            xenv = dict(env)
            xenv[x] = src
            body = self.expr(t[1], xenv, min(d - 1, 1), pure)
            self.used.add(x)
            return {"k": "app", "f": "slice.Map", "args": [self.lam([x], body), E(("sl", src))]}
        if o == "filter":
            x = self.fresh("x")
            xenv = dict(env)
            xenv[x] = t[1]
            body = self.expr(BOOL, xenv, min(d - 1, 1), pure)
            return {"k": "app", "f": "slice.Filter", "args": [self.lam([x], body), E(t)]}
        if o == "append":
            return {"k": "app", "f": "slice.Append", "args": [E(t), E(t)]}
        if o == "push":
            return {"k": "app", "f": rng.choice(["slice.PushLast", "slice.PushHead"]), "args": [E(t[1]), E(t)]}
        if o == "take":
            return {"k": "app", "f": "slice.Skip", "args": [{"k": "int", "v": rng.randint(0, 2)}, E(t)]}
        if o == "sort":
            return {"k": "app", "f": rng.choice(["slice.Sort", "slice.Distinct"]), "args": [E(t)]}
        if o == "pipeline":
            # xs |> slice.Filter (fun ..) |> slice.Map (fun ..): stages are partial applications (effects allowed: pipeline stage)
            x, y = self.fresh("x"), self.fresh("y")
            src = t[1]
            xenv = dict(env)
            xenv[x] = src
            pred = self.expr(BOOL, xenv, 1, pure)
            yenv = dict(env)
            yenv[y] = src
            fun = self.expr(t[1], yenv, 1, pure)
            return {"k": "pipe", "a": {"k": "pipe", "a": E(("sl", src)), "b": {"k": "app", "f": "slice.Filter", "args": [self.lam([x], pred)]}},
                    "b": {"k": "app", "f": "slice.Map", "args": [self.lam([y], fun)]}}
        if o == "mk":
            if k == "tup":
                return {"k": "tuple", "es": [E(x) for x in t[1]]}
            if k == "rec":
                fs = list(self.records[t[1]])
                if rng.random() < 0.5:
                    rng.shuffle(fs)            # initialisers in an order different from the declaration
                return {"k": "rec", "name": t[1], "fields": [{"n": fn, "e": self.maybe_probe(self.expr0(ft, env, d - 1, pure), pure, 0.6, ft)} for fn, ft in fs]}
            if k == "uni":
                cn, pt = rng.choice(self.unions[t[1]])
                if pt is not None and tname(pt) == "uni" and d < 2:
                    return self.lit(t, 1)
                return {"k": "ctor", "union": t[1], "case": cn, "arg": {"k": "none"} if pt is None else E(pt)}
        return self.lit(t, 1)

    def lam(self, params, body):
        return {"k": "lam", "params": params, "body": {"stmts": [], "fin": body}}

    # ------------------------------------------------------------ statements / blocks
    def block(self, t, env, d, allow_fun=True):
        """a block whose value has type t"""
        rng = self.rng
        env = dict(env)
        stmts = []
        n = rng.randint(0, 2) if d > 0 else 0
        for _ in range(n):
            r = rng.random()
            if r < 0.15:
                stmts.append({"k": "mark", "tag": self.tag()})
            elif r < 0.30 and d > 1:
                # let with a block-form right-hand side
                vt = self.pick_type(0)
                x = self.fresh()
                stmts.append({"k": "let", "x": x, "vt": vt, "e": self.control(vt, env, d - 1, allow_fun=False)})
                env[x] = vt
            elif r < 0.42:
                tt = rng.choice([("tup", (INT, STR)), ("tup", (STR, INT)), ("tup", (INT, INT, BOOL))]) if self.profile == "fc" else ("tup", (INT, STR))
                xs = [self.fresh() for _ in tt[1]]
                stmts.append({"k": "destr", "xs": xs, "e": self.expr(tt, env, d - 1)})
                for x, xt in zip(xs, tt[1]):
                    env[x] = xt
            elif r < 0.50 and d > 1:
                # if without else: unit bodies (marks only); sometimes a unit if / else whose then-branch ends with a one-line if
                def ifonly(one):
                    return {"k": "if", "c": self.expr(BOOL, env, d - 1), "t": {"stmts": [{"k": "mark", "tag": self.tag()}], "fin": {"k": "unit"}},
                            "e": {"k": "none"}, "oneline": one}
                if rng.random() < 0.5:
                    stmts.append({"k": "expr", "e": ifonly(rng.random() < 0.5)})
                else:
                    stmts.append({"k": "expr", "e": {"k": "if", "c": self.expr(BOOL, env, d - 1),
                                                     # (the inner if is written on one line: a MULTI-line if without else directly before the outer else is the known finding
                                                     #  dangling-else-inner-if-only)
                                                     "t": {"stmts": [{"k": "mark", "tag": self.tag()}, {"k": "expr", "e": ifonly(True)}], "fin": {"k": "unit"}},
                                                     "e": {"stmts": [{"k": "mark", "tag": self.tag()}], "fin": {"k": "unit"}}}})
            elif r < 0.58 and d > 1 and self.profile == "fc" and allow_fun:
                # inner function capturing the environment
                fn = self.fresh("g")
                pn = self.fresh("y")
                pt, rt = rng.choice([INT, STR]), rng.choice([INT, STR, BOOL])
                benv = dict(env)
                benv[pn] = pt
                body = self.block(rt, benv, 1, allow_fun=False)
                stmts.append({"k": "letfun", "name": fn, "params": [pn], "ptypes": [pt], "body": body})
                x = self.fresh()
                stmts.append({"k": "let", "x": x, "e": {"k": "app", "f": fn, "args": [self.expr(pt, env, 1)]}})
                env[x] = rt
            elif r < 0.68 and [f for f in self.funcs if len(f[1]) >= 2]:
                # partial application bound to a local: the supplied arguments are effect-free (known finding C01)
                f = rng.choice([f for f in self.funcs if len(f[1]) >= 2])
                k = rng.randint(1, len(f[1]) - 1)
                h = self.fresh("h")
                stmts.append({"k": "let", "x": h, "e": {"k": "app", "f": f[0], "args": [self.expr(pt, env, 1, True) for _, pt in f[1][:k]]}})
                env[h] = ("fn", tuple(pt for _, pt in f[1][k:]), f[2])
                x = self.fresh()
                stmts.append({"k": "let", "x": x, "vt": f[2], "e": {"k": "app", "f": h, "args": [self.expr(pt, env, 1) for _, pt in f[1][k:]]}})
                env[x] = f[2]
            else:
                vt = self.pick_type(1)
                x = self.fresh()
                stmts.append({"k": "let", "x": x, "vt": vt, "e": self.expr(vt, env, d - 1)})
                env[x] = vt
        if d > 0 and rng.random() < 0.45:
            fin = self.control(t, env, d - 1, allow_fun)
        else:
            fin = self.expr(t, env, d)
        return {"stmts": stmts, "fin": fin}

    def control(self, t, env, d, allow_fun=True):
        """if / elif / else, union match or string match of type t (statement level)"""
        rng = self.rng
        r = rng.random()
        unis = [(x, xt) for x, xt in env.items() if tname(xt) == "uni"]
        strs = self.vars_of(env, STR)
        if r < 0.4 or (not unis and not strs):
            e = self.block(t, env, d, allow_fun)
            for _ in range(rng.randint(0, 2)):       # elif chain = nested if in the else branch
                e = {"stmts": [], "fin": {"k": "if", "c": self.expr(BOOL, env, d), "t": self.block(t, env, d, allow_fun), "e": e, "elif": True}}
            return {"k": "if", "c": self.expr(BOOL, env, d), "t": self.block(t, env, d, allow_fun), "e": e}
        if unis and (r < 0.8 or not strs):
            x, xt = rng.choice(unis)
            cases = list(self.unions[xt[1]])
            rng.shuffle(cases)
            full = rng.random() < 0.5
            chosen = cases if full else cases[:rng.randint(1, len(cases))]
            arms = []
            for cn, pt in chosen:
                aenv = dict(env)
                bind = ""
                if pt is not None:
                    bind = self.fresh("w")
                    aenv[bind] = pt
                before = set(self.used)
                body = self.block(t, aenv, d, allow_fun)
                if pt is not None and bind not in self.used:
                    bind = "_"
                arms.append({"case": cn, "bind": bind, "body": body})
            dflt = {"k": "none"}
            if len(chosen) < len(cases) or rng.random() < 0.2:
                dflt = self.block(t, env, d, allow_fun)
            return {"k": "umatch", "target": self.use(x), "arms": arms, "dflt": dflt}
        if self.profile == "tinyfo":
            return {"k": "if", "c": self.expr(BOOL, env, d), "t": self.block(t, env, d, allow_fun), "e": self.block(t, env, d, allow_fun)}
        x = rng.choice(strs)
        lits = rng.sample(STRS, rng.randint(1, 3))
        arms = [{"lit": l, "body": self.block(t, env, d, allow_fun)} for l in lits]
        if rng.random() < 0.5:
            v = self.fresh("s")
            venv = dict(env)
            venv[v] = STR
            body = self.block(t, venv, d, allow_fun)
            last = {"k": "var", "x": v if v in self.used else "_", "body": body}
            if last["x"] == "_":
                last = {"k": "dflt", "x": "", "body": body}
        else:
            last = {"k": "dflt", "x": "", "body": self.block(t, env, d, allow_fun)}
        return {"k": "smatch", "target": self.use(x), "arms": arms, "last": last}

    # ------------------------------------------------------------ program
    def sized_block(self, t, env, d):
        """a top-level body that stays below fc's per-definition limit of 100 inference variables (TypeVarAllocator)"""
        for attempt in range(20):
            save = (self.n, set(self.used))
            b = self.block(t, env, d)
            if weight(b) <= 45:
                return b
            d = max(1, d - 1)
        return {"stmts": [], "fin": self.lit(t, 1)}

    def program(self):
        rng = self.rng
        self.declare_types()
        for i in range(rng.randint(1, self.size)):
            name = "%sf%d" % (self.p, i)
            params = [(self.fresh("p"), self.pick_type(1)) for _ in range(rng.randint(0, 3))]
            rt = self.pick_type(1)
            env = dict(params)
            body = self.sized_block(rt, env, rng.randint(1, 3))
            if rng.random() < 0.5:
                body["stmts"].insert(0, {"k": "mark", "tag": self.tag()})
            self.funcs.append((name, params, rt, body))
        mt = self.pick_type(1) if self.profile == "fc" else rng.choice([INT, STR, BOOL])
        menv = {}
        pre = []
        if self.profile == "tinyfo":
            # slices only through variables
            for tt in (("sl", INT), ("sl", STR)):
                x = self.fresh("xs")
                pre.append({"k": "let", "x": x, "e": self.lit(tt, 1)})
                menv[x] = tt
        main = self.sized_block(mt, menv, 3)
        main["stmts"] = pre + main["stmts"]
        prog = {"id": self.pid, "profile": self.profile,
                "types": [{"k": "record", "name": n, "fields": [f for f, _ in fs], "ftypes": [ft for _, ft in fs]} for n, fs in self.records.items() if not n.endswith("R9")] +
                         [{"k": "union", "name": n, "cases": [{"n": c, "p": pt is not None} for c, pt in cs], "ptypes": [pt for _, pt in cs]} for n, cs in self.unions.items()] +
                         [{"k": "record", "name": n, "fields": [f for f, _ in fs], "ftypes": [ft for _, ft in fs]} for n, fs in self.records.items() if n.endswith("R9")],
                "funcs": [{"name": n, "params": [p for p, _ in ps], "ptypes": [pt for _, pt in ps], "rtype": rt, "body": b} for n, ps, rt, b in self.funcs],
                "main": main, "mtype": mt}
        fix_unused(prog, self)
        return prog


def weight(node):
    """rough count of the inference variables fc allocates for a definition"""
    w = 0
    if isinstance(node, dict):
        k = node.get("k")
        if k == "probe":
            w += 1
        elif k == "app":
            w += 2 if (node["f"].startswith(("slice.", "frt."))) else 1
        elif k == "lam":
            w += len(node["params"]) + 1
        elif k in ("let", "if", "umatch", "smatch", "pipe", "tuple"):
            w += 1
        elif k == "destr":
            w += len(node["xs"])
        for v in node.values():
            w += weight(v)
    elif isinstance(node, list):
        for v in node:
            w += weight(v)
    return w


# ---------------------------------------------------------------------------- unused locals
def mentions(node, acc):
    if isinstance(node, dict):
        if node.get("k") == "var":
            acc.add(node["x"])
        if node.get("k") == "hole":
            acc.add(node["x"])
        if node.get("k") == "app":
            acc.add(node["f"])
        for v in node.values():
            mentions(v, acc)
    elif isinstance(node, list):
        for v in node:
            mentions(v, acc)
    return acc


def fix_block(b, gen):
    """make every let-bound local used (Go rejects unused locals): an unused binding becomes a probed expression statement"""
    tiny = gen.profile == "tinyfo"

    def probed(e, vt):
        if not tiny:
            return {"k": "expr", "e": {"k": "probe", "tag": gen.tag(), "e": e}}
        if vt in (INT, STR, BOOL):
            return {"k": "expr", "e": {"k": "probe", "tag": gen.tag(), "e": e, "pt": {"int": "I", "str": "S", "bool": "B"}[vt[0]]}}
        return {"k": "mark", "tag": gen.tag()}        # tinyfo has no generic probe: the unused binding is dropped altogether

    for i, s in enumerate(b["stmts"]):
        rest = mentions(b["stmts"][i + 1:], set()) | mentions(b["fin"], set())
        if s["k"] == "let" and s["x"] not in rest:
            if s["e"].get("k") in ("if", "umatch", "smatch") and (not tiny or s.get("vt") in (INT, STR, BOOL)):
                # keep the binding, consume it with a trailing probe
                b["stmts"].insert(i + 1, probed({"k": "var", "x": s["x"]}, s.get("vt")))
            else:
                b["stmts"][i] = probed(s["e"], s.get("vt"))
        elif s["k"] == "destr":
            s["xs"] = [x if x in rest else "_" for x in s["xs"]]
            if all(x == "_" for x in s["xs"]):
                b["stmts"][i] = probed(s["e"], None)
        elif s["k"] == "letfun" and s["name"] not in rest:
            b["stmts"][i] = {"k": "mark", "tag": gen.tag()}


def walk_blocks(node, f):
    if isinstance(node, dict):
        if "stmts" in node and "fin" in node:
            f(node)
        for v in list(node.values()):
            walk_blocks(v, f)
    elif isinstance(node, list):
        for v in node:
            walk_blocks(v, f)


def fix_arms(node):
    """an arm variable (or string-match variable) that the arm body no longer mentions becomes `_`"""
    if isinstance(node, dict):
        if node.get("k") == "umatch":
            for a in node["arms"]:
                if a["bind"] not in ("", "_") and a["bind"] not in mentions(a["body"], set()):
                    a["bind"] = "_"
        if node.get("k") == "smatch" and node["last"]["k"] == "var" and node["last"]["x"] not in mentions(node["last"]["body"], set()):
            node["last"] = {"k": "dflt", "x": "", "body": node["last"]["body"]}
        for v in node.values():
            fix_arms(v)
    elif isinstance(node, list):
        for v in node:
            fix_arms(v)


def fix_unused(prog, gen):
    for _ in range(12):
        before = json.dumps(prog, sort_keys=True, default=str)
        walk_blocks(prog, lambda b: fix_block(b, gen))
        fix_arms(prog)
        if json.dumps(prog, sort_keys=True, default=str) == before:
            break


# ---------------------------------------------------------------------------- rendering
def rtype(t):
    k = t[0]
    if k == "int":
        return "int"
    if k == "str":
        return "string"
    if k == "bool":
        return "bool"
    if k == "sl":
        inner = rtype(t[1])
        return "[]" + (inner if t[1][0] != "tup" else "(" + inner + ")")
    if k == "tup":
        return "*".join(rtype(x) if x[0] != "tup" else "(" + rtype(x) + ")" for x in t[1])
    return t[1]


def is_atom(e):
    return e["k"] in ("int", "str", "bool", "unit", "var", "tuple", "slice", "rec", "field", "interp") or (e["k"] == "ctor" and e["arg"]["k"] == "none" and not e.get("targs")) or \
        (e["k"] == "lam" and e.get("us") and e.get("bare"))


def rx(e):
    """expression as an operand / argument: atoms as they are, everything else parenthesised"""
    s = rexpr(e)
    if e["k"] == "int" and e["v"] < 0:
        return "(0 - %d)" % -e["v"]
    return s if is_atom(e) else "(" + s + ")"


def rexpr(e):
    k = e["k"]
    if k == "int":
        if e.get("src"):
            return e["src"]
        return str(e["v"]) if e["v"] >= 0 else "0 - %d" % -e["v"]
    if k == "str":
        return '"%s"' % e.get("src", e["v"])
    if k == "bool":
        return "true" if e["v"] else "false"
    if k == "unit":
        return "()"
    if k == "var":
        return e["x"]
    if k == "bin":
        return "%s %s %s" % (rx(e["a"]), e["op"], rx(e["b"]))
    if k == "and":
        return "%s && %s" % (rx(e["a"]), rx(e["b"]))
    if k == "or":
        return "%s || %s" % (rx(e["a"]), rx(e["b"]))
    if k == "not":
        return "not %s" % rx(e["a"])
    if k == "app":
        return e["f"] + (("<" + ", ".join(e["targs"]) + ">") if e.get("targs") else "") + " " + " ".join(rx(a) for a in e["args"])
    if k == "lam":
        if e.get("us"):
            return "_." + e["us"]
        return "fun %s -> %s" % (" ".join(e["params"]) or "()", rexpr(e["body"]["fin"]))
    if k == "ctor":
        targs = ("<" + ", ".join(e["targs"]) + ">") if e.get("targs") else ""
        if e["arg"]["k"] == "none":
            return e["case"] + ((targs + " ()") if targs else "")
        return "%s%s %s" % (e["case"], targs, rx(e["arg"]))
    if k == "rec":
        return "{" + "; ".join("%s=%s" % (f["n"], rexpr(f["e"])) for f in e["fields"]) + "}"
    if k == "field":
        return "%s.%s" % (rexpr(e["e"]), e["n"])
    if k == "tuple":
        return "(" + ", ".join(rexpr(x) for x in e["es"]) + ")"
    if k == "slice":
        return "[" + "; ".join(rexpr(x) for x in e["es"]) + "]"
    if k == "pipe":
        return "%s |> %s" % (rexpr(e["a"]) if e["a"]["k"] == "pipe" else rx(e["a"]), rexpr(e["b"]))
    if k == "interp":
        return '$"' + "".join(s["v"] if s["k"] == "lit" else "{" + s["x"] + "}" for s in e["segs"]) + '"'
    if k == "probe":
        return 'Probe%s "%s" %s' % (e.get("pt", ""), e["tag"], rx(e["e"]))
    if k == "if" and not e["t"]["stmts"] and e["e"].get("k") != "none" and not e["e"]["stmts"]:
        # an if / else with plain branches in expression position, on one line
        return "if %s then %s else %s" % (rexpr(e["c"]), rx(e["t"]["fin"]), rx(e["e"]["fin"]))
    raise ValueError("statement-level construct in expression position: " + k)


def rcontrol(e, ind):
    """lines of a statement-level expression starting at indentation ind"""
    k = e["k"]
    if k == "if" and e.get("oneline") and e["e"].get("k") == "none" and len(e["t"]["stmts"]) == 1 and e["t"]["stmts"][0]["k"] == "mark":
        return [ind + 'if %s then Mark "%s"' % (rexpr(e["c"]), e["t"]["stmts"][0]["tag"])]
    if k == "if":
        out = [ind + "if %s then" % rexpr(e["c"])] + rblock(e["t"], ind + "  ")
        el = e["e"]
        while isinstance(el, dict) and el.get("k") != "none" and not el["stmts"] and el["fin"].get("k") == "if" and el["fin"].get("elif"):
            f = el["fin"]
            out += [ind + "elif %s then" % rexpr(f["c"])] + rblock(f["t"], ind + "  ")
            el = f["e"]
        if el.get("k") != "none":
            out += [ind + "else"] + rblock(el, ind + "  ")
        return out
    if k == "umatch":
        out = [ind + "match %s with" % rexpr(e["target"])]
        for a in e["arms"]:
            out.append(ind + "| %s%s ->" % (a["case"], (" " + a["bind"]) if a["bind"] else ""))
            out += rblock(a["body"], ind + "  ")
        if e["dflt"].get("k") != "none":
            out.append(ind + "| _ ->")
            out += rblock(e["dflt"], ind + "  ")
        return out
    if k == "smatch":
        out = [ind + "match %s with" % rexpr(e["target"])]
        for a in e["arms"]:
            out.append(ind + '| "%s" ->' % a["lit"])
            out += rblock(a["body"], ind + "  ")
        out.append(ind + "| %s ->" % (e["last"]["x"] if e["last"]["k"] == "var" else "_"))
        out += rblock(e["last"]["body"], ind + "  ")
        return out
    return [ind + rexpr(e)]


def rblock(b, ind):
    out = []
    for s in b["stmts"]:
        k = s["k"]
        if k == "let":
            if s["e"]["k"] in ("if", "umatch", "smatch") and TINY[0]:
                # tinyfo does not accept the right-hand side on the next line: start it after `= `, continuation lines aligned with it
                head = "let %s = " % s["x"]
                ls = rcontrol(s["e"], ind + " " * len(head))
                out.append(ind + head + ls[0].strip())
                out += ls[1:]
            elif s["e"]["k"] in ("if", "umatch", "smatch"):
                out.append(ind + "let %s =" % s["x"])
                out += rcontrol(s["e"], ind + "  ")
            else:
                out.append(ind + "let %s = %s" % (s["x"], rexpr(s["e"])))
        elif k == "destr":
            out.append(ind + "let (%s) = %s" % (", ".join(s["xs"]), rexpr(s["e"])))
        elif k == "letfun":
            out.append(ind + "let %s %s =" % (s["name"], " ".join("(%s:%s)" % (p, rtype(t)) for p, t in zip(s["params"], s["ptypes"]))))
            out += rblock(s["body"], ind + "  ")
        elif k == "mark":
            out.append(ind + 'Mark "%s"' % s["tag"])
        elif k == "expr":
            out += rcontrol(s["e"], ind)
    if not (b["fin"]["k"] == "unit" and out):
        out += rcontrol(b["fin"], ind)
    return out


HEADER = """package main

import frt
import slice
import strings

package_info _ =
  let Probe<T>: string->T->T
  let Mark: string->()

"""


TINY_HEADER = """package main

import frt
import slice
import strings

package_info _ =
  let ProbeI: string->int->int
  let ProbeS: string->string->string
  let ProbeB: string->bool->bool
  let Mark: string->()

"""


TINY = [False]


def render(prog, annotate=True):
    TINY[0] = prog.get("profile") == "tinyfo"
    p = "p%d" % prog["id"]
    out = [TINY_HEADER if prog.get("profile") == "tinyfo" else HEADER]
    for t in prog["types"]:
        if t["k"] == "record":
            out.append("type %s%s = {%s}\n" % (t["name"], ("<" + ", ".join(t["tparams"]) + ">") if t.get("tparams") else "", "; ".join("%s: %s" % (f, rtype(ft)) for f, ft in zip(t["fields"], t["ftypes"]))))
        else:
            out.append("type %s%s =\n%s\n" % (t["name"], ("<" + ", ".join(t["tparams"]) + ">") if t.get("tparams") else "", "\n".join("| %s%s" % (c["n"], (" of " + rtype(pt)) if pt is not None else "") for c, pt in zip(t["cases"], t["ptypes"]))))
    # keep every import used whatever the program does
    if prog.get("profile") == "tinyfo":
        out.append("let %sdummy () =\n  let t = (1, 2)\n  let xs = [1]\n  let a = frt.Fst t\n  let b = slice.Length xs\n  let c = strings.Length \"x\"\n  a + b + c\n" % p)
    else:
        out.append("let %sdummy () =\n  let a = frt.Fst (1, 2)\n  let b = slice.Length [1]\n  let c = strings.Length \"x\"\n  a + b + c\n" % p)
    for f in prog["funcs"]:
        ps = " ".join("(%s:%s)" % (n, rtype(t)) for n, t in zip(f["params"], f["ptypes"])) or "()"
        out.append("let %s %s =\n%s\n" % (f["name"], ps, "\n".join(rblock(f["body"], "  "))))
    out.append("let %smain () =\n%s\n" % (p, "\n".join(rblock(prog["main"], "  "))))
    return "\n".join(out)


def to_spec(prog):
    """the abstract program as spec/FoSem.tla reads it (type annotations dropped)"""
    def strip(n):
        if isinstance(n, dict):
            return {k: strip(v) for k, v in n.items() if k not in ("ptypes", "rtype", "ftypes", "mtype", "elif", "profile", "pt", "vt", "oneline", "targs", "externs", "meta", "decl", "tparams")}
        if isinstance(n, list):
            return [strip(v) for v in n]
        if isinstance(n, tuple):
            return None
        return n
    d = strip(prog)
    d["funcs"] = [{"name": f["name"], "params": f["params"], "body": f["body"]} for f in d["funcs"]]
    d["externs"] = [{"name": x["name"], "arity": x["arity"], "ret": x["ret"]} for x in prog.get("externs", [])]
    return d


def generate(rng, pid, profile="fc", size=3):
    return Gen(rng, pid, profile, size).program()


# ---------------------------------------------------------------------------- exhaustive kernels (small, systematic)
import itertools


def _prog(pid, types, funcs, main, mtype=INT):
    return {"id": pid, "profile": "fc", "types": types, "funcs": funcs, "main": main, "mtype": mtype}


def _pb(tag, v):
    return {"k": "probe", "tag": tag, "e": {"k": "bool", "v": v}}


def _pi(tag, v):
    return {"k": "probe", "tag": tag, "e": {"k": "int", "v": v}}


def eq_kernels(start_id):
    """= and <> end to end (C10): every type x {equal, unequal} pair x operand forms (literal / variable / call result) on either side.
    A comparison may not depend on HOW an operand is written (a literal on the left, a variable on the right, ...)"""
    progs = []
    pid = [start_id]

    def T(i):
        return "p%dk%d" % (pid[0], i)
    def lit_int(v):
        return {"k": "int", "v": v}
    def lit_str(v):
        return {"k": "str", "v": v}
    for tyname in ("int", "str", "bool", "tup", "rec", "uni", "uni0", "sl", "recuni", "tupuni"):
        for equal in (True, False):
            for op in ("=", "<>"):
                for fl, fr in itertools.product(("lit", "var", "call"), repeat=2):
                    rn, un = "P%dEq" % pid[0], "P%dEu" % pid[0]
                    types = []
                    if tyname == "int":
                        a, b, mt = lit_int(3), lit_int(3 if equal else 4), INT
                    elif tyname == "str":
                        a, b, mt = lit_str("s"), lit_str("s" if equal else "t"), STR
                    elif tyname == "bool":
                        a, b, mt = {"k": "bool", "v": True}, {"k": "bool", "v": equal}, BOOL
                    elif tyname == "tup":
                        a = {"k": "tuple", "es": [lit_int(1), lit_str("a")]}
                        b = {"k": "tuple", "es": [lit_int(1), lit_str("a" if equal else "b")]}
                        mt = ("tup", (INT, STR))
                    elif tyname == "rec":
                        types = [{"k": "record", "name": rn, "fields": ["A", "b"], "ftypes": [INT, STR]}]
                        a = {"k": "rec", "name": rn, "fields": [{"n": "A", "e": lit_int(1)}, {"n": "b", "e": lit_str("x")}]}
                        b = {"k": "rec", "name": rn, "fields": [{"n": "A", "e": lit_int(1)}, {"n": "b", "e": lit_str("x" if equal else "y")}]}
                        mt = ("rec", rn)
                    elif tyname in ("uni", "uni0"):
                        cs = [{"n": "P%dCa" % pid[0], "p": True}, {"n": "P%dCb" % pid[0], "p": False}]
                        types = [{"k": "union", "name": un, "cases": cs, "ptypes": [("sl", INT), None]}]
                        pay = lambda v: {"k": "slice", "es": [lit_int(1), lit_int(v)]}
                        if tyname == "uni":
                            a = {"k": "ctor", "union": un, "case": cs[0]["n"], "arg": pay(2)}
                            b = {"k": "ctor", "union": un, "case": cs[0]["n"], "arg": pay(2 if equal else 3)}
                        else:
                            a = {"k": "ctor", "union": un, "case": cs[1]["n"], "arg": {"k": "none"}}
                            b = a if equal else {"k": "ctor", "union": un, "case": cs[0]["n"], "arg": pay(2)}
                        mt = ("uni", un)
                    elif tyname in ("recuni", "tupuni"):
                        # a record / tuple holding a union whose case carries a slice: not a scalar however its Go type looks
                        cs = [{"n": "P%dCa" % pid[0], "p": True}, {"n": "P%dCb" % pid[0], "p": False}]
                        types = [{"k": "union", "name": un, "cases": cs, "ptypes": [("sl", INT), None]}]
                        uv = lambda v: {"k": "ctor", "union": un, "case": cs[0]["n"], "arg": {"k": "slice", "es": [lit_int(1), lit_int(v)]}}
                        if tyname == "recuni":
                            types.append({"k": "record", "name": rn, "fields": ["A", "v"], "ftypes": [INT, ("uni", un)]})
                            mk = lambda v: {"k": "rec", "name": rn, "fields": [{"n": "A", "e": lit_int(1)}, {"n": "v", "e": uv(v)}]}
                            mt = ("rec", rn)
                        else:
                            mk = lambda v: {"k": "tuple", "es": [lit_str("x"), uv(v)]}
                            mt = ("tup", (STR, ("uni", un)))
                        a, b = mk(2), mk(2 if equal else 3)
                    else:
                        a = {"k": "slice", "es": [lit_int(1), lit_int(2)]}
                        b = {"k": "slice", "es": [lit_int(1), lit_int(2 if equal else 3)]}
                        mt = ("sl", INT)
                    stmts = []

                    def form(f, e, name, tag):
                        if f == "lit":
                            return e
                        if f == "var":
                            stmts.append({"k": "let", "x": name, "e": e, "vt": mt})
                            return {"k": "var", "x": name}
                        return {"k": "probe", "tag": tag, "e": e}
                    l = form(fl, a, "va", T(1))
                    r = form(fr, b, "vb", T(2))
                    progs.append(_prog(pid[0], types, [], {"stmts": stmts, "fin": {"k": "bin", "op": op, "a": l, "b": r}}, BOOL))
                    progs[-1]["meta"] = {"family": "eq"}        # (fc profile only: not part of the tinyfo kernels)
                    pid[0] += 1
    # two spellings of one string (an escape and the character itself): equality is about the denoted strings, not their source text
    for equal in (True, False):
        for op in ("=", "<>"):
            for fl, fr in (("lit", "lit"), ("lit", "var"), ("var", "lit")):
                a = {"k": "str", "v": "a\tb", "src": "a\\tb"}
                b = {"k": "str", "v": "a\tb" if equal else "a b"}
                stmts = []
                def form2(f, e, name):
                    if f == "lit":
                        return e
                    stmts.append({"k": "let", "x": name, "e": e, "vt": STR})
                    return {"k": "var", "x": name}
                l, r = form2(fl, a, "va"), form2(fr, b, "vb")
                progs.append(_prog(pid[0], [], [], {"stmts": stmts, "fin": {"k": "bin", "op": op, "a": l, "b": r}}, BOOL))
                progs[-1]["meta"] = {"family": "eq"}
                pid[0] += 1
    return progs


def kernels(start_id):
    """systematic small programs: short-circuit, evaluation order, if chains, match dispatch, closures / partial application"""
    progs = []
    pid = [start_id]

    def add(types, funcs, main, mtype=INT):
        progs.append(_prog(pid[0], types, funcs, main, mtype))
        pid[0] += 1

    def T(i):
        return "p%dk%d" % (pid[0], i)
    # K1 boolean trees of depth 2 over && || with probed atoms, optionally negated: which operands are evaluated, in which order
    for op1, op2, op3 in itertools.product(["and", "or"], repeat=3):
        for vals in itertools.product([True, False], repeat=4):
            for neg in (False, True):
                a = {"k": op2, "a": _pb(T(1), vals[0]), "b": _pb(T(2), vals[1])}
                b = {"k": op3, "a": _pb(T(3), vals[2]), "b": _pb(T(4), vals[3])}
                if neg:
                    a = {"k": "not", "a": a}
                add([], [], {"stmts": [], "fin": {"k": op1, "a": a, "b": b}}, BOOL)
    # K2 evaluation order of operands / arguments / elements / fields
    rec = {"k": "record", "name": None, "fields": ["A", "b", "C"], "ftypes": [INT, INT, INT]}
    for perm in itertools.permutations(["A", "b", "C"]):
        rn = "P%dRec" % pid[0]
        r = dict(rec, name=rn)
        fields = [{"n": f, "e": _pi(T(i), i)} for i, f in enumerate(perm)]
        add([r], [], {"stmts": [{"k": "let", "x": "r", "e": {"k": "rec", "name": rn, "fields": fields}}],
                      "fin": {"k": "bin", "op": "+", "a": {"k": "field", "e": {"k": "var", "x": "r"}, "n": "A"},
                              "b": {"k": "bin", "op": "+", "a": {"k": "field", "e": {"k": "var", "x": "r"}, "n": "b"}, "b": {"k": "field", "e": {"k": "var", "x": "r"}, "n": "b"}}}})
    # ... the same with a generic record (type arguments determined by the initialisers), and its field read back through a
    # generic function of the program
    for perm in itertools.permutations(["A", "b", "C"]):
        rn = "P%dGRec" % pid[0]
        r = {"k": "record", "name": rn, "tparams": ["T"], "fields": ["A", "b", "C"], "ftypes": [("raw", "T"), INT, ("raw", "T")]}
        fields = [{"n": f, "e": _pi(T(i), i)} for i, f in enumerate(perm)]
        add([r], [], {"stmts": [{"k": "let", "x": "r", "e": {"k": "rec", "name": rn, "fields": fields}}],
                      "fin": {"k": "bin", "op": "+", "a": {"k": "field", "e": {"k": "var", "x": "r"}, "n": "A"},
                              "b": {"k": "bin", "op": "+", "a": {"k": "field", "e": {"k": "var", "x": "r"}, "n": "b"}, "b": {"k": "field", "e": {"k": "var", "x": "r"}, "n": "C"}}}})
    for op in ["+", "-", "*", "<", ">", "<=", ">=", "=", "<>"]:
        add([], [], {"stmts": [], "fin": {"k": "bin", "op": op, "a": _pi(T(1), 3), "b": _pi(T(2), 4)}}, BOOL if op in ("<", ">", "<=", ">=", "=", "<>") else INT)
    # integer literals are decimal, also with leading zeros (not octal)
    add([], [], {"stmts": [], "fin": {"k": "bin", "op": "+", "a": {"k": "int", "v": 10, "src": "010"},
                                      "b": {"k": "bin", "op": "+", "a": {"k": "int", "v": 100, "src": "0100"}, "b": {"k": "int", "v": 9, "src": "09"}}}})
    add([], [], {"stmts": [], "fin": {"k": "tuple", "es": [_pi(T(1), 1), _pi(T(2), 2), _pb(T(3), True)]}}, ("tup", (INT, INT, BOOL)))
    add([], [], {"stmts": [], "fin": {"k": "slice", "es": [_pi(T(1), 1), _pi(T(2), 2), _pi(T(3), 3)]}}, ("sl", INT))
    for n in (1, 2, 3):
        f = {"name": "p%dadd" % pid[0], "params": ["a", "b", "c"][:n], "ptypes": [INT] * n, "rtype": INT,
             "body": {"stmts": [{"k": "mark", "tag": T(9)}], "fin": {"k": "var", "x": "a"}}}
        add([], [f], {"stmts": [], "fin": {"k": "app", "f": f["name"], "args": [_pi(T(i), i) for i in range(n)]}})
        # partial application with every number of missing arguments; supplied arguments effect-free, later ones probed
        for k in range(1, n):
            f2 = dict(f, name="p%dadd" % pid[0])
            add([], [f2], {"stmts": [{"k": "let", "x": "h", "e": {"k": "app", "f": f2["name"], "args": [{"k": "int", "v": i + 5} for i in range(k)]}},
                                     {"k": "mark", "tag": T(8)}],
                           "fin": {"k": "app", "f": "h", "args": [_pi(T(i), i) for i in range(k, n)]}})
            # ... and as a pipeline stage with effectful supplied arguments
            if k == n - 1:
                f3 = dict(f, name="p%dadd" % pid[0])
                add([], [f3], {"stmts": [], "fin": {"k": "pipe", "a": _pi(T(7), 7), "b": {"k": "app", "f": f3["name"], "args": [_pi(T(i), i) for i in range(k)]}}})
                # supplied arguments of different syntactic forms (a call, an operator expression around a call, a nested application,
                # a literal): all are evaluated left to right after the stage's input, whatever their form
                if n == 3:
                    forms = [lambda i: _pi(T(i), i), lambda i: {"k": "bin", "op": "+", "a": _pi(T(i), i), "b": {"k": "int", "v": 1}},
                             lambda i: {"k": "app", "f": "p%did" % pid[0], "args": [_pi(T(i), i)]}, lambda i: {"k": "int", "v": i}]
                    for fa, fb in itertools.product(range(4), repeat=2):
                        if (fa, fb) in ((0, 0), (3, 3)):
                            continue
                        f4 = dict(f, name="p%dadd" % pid[0])
                        idf = {"name": "p%did" % pid[0], "params": ["a"], "ptypes": [INT], "rtype": INT,
                               "body": {"stmts": [{"k": "mark", "tag": T(6)}], "fin": {"k": "var", "x": "a"}}}
                        add([], [idf, f4], {"stmts": [], "fin": {"k": "pipe", "a": _pi(T(7), 7), "b": {"k": "app", "f": f4["name"], "args": [forms[fa](0), forms[fb](1)]}}})
    # K3 if / elif / else chains: every truth assignment, expression and unit form, with and without else
    for n in (1, 2, 3):
        for vals in itertools.product([True, False], repeat=n):
            for has_else in (True, False):
                def chain(i):
                    if i == n:
                        return {"stmts": [{"k": "mark", "tag": T(20)}], "fin": {"k": "int", "v": 99}} if has_else else {"k": "none"}
                    node = {"k": "if", "c": _pb(T(i), vals[i]), "t": {"stmts": [{"k": "mark", "tag": T(10 + i)}], "fin": {"k": "int", "v": i}}, "e": chain(i + 1)}
                    if i > 0:
                        node["elif"] = True
                        return {"stmts": [], "fin": node}
                    return node
                if has_else:
                    add([], [], {"stmts": [{"k": "let", "x": "r", "e": chain(0)}], "fin": {"k": "var", "x": "r"}})
                elif n == 1:
                    body = {"k": "if", "c": _pb(T(0), vals[0]), "t": {"stmts": [{"k": "mark", "tag": T(10)}], "fin": {"k": "unit"}}, "e": {"k": "none"}}
                    add([], [], {"stmts": [{"k": "expr", "e": body}], "fin": {"k": "int", "v": 1}})
    # K4 union match: unions of 1..3 cases x constructor x arm order x default x payload form
    for nc in (1, 2, 3):
        for pm in itertools.product([True, False], repeat=nc):
            for built in range(nc):
                for order in itertools.permutations(range(nc)):
                    for keep in range(1, nc + 1):
                        un = "P%dU" % pid[0]
                        cases = [{"n": "P%dK%d" % (pid[0], i), "p": pm[i]} for i in range(nc)]
                        u = {"k": "union", "name": un, "cases": cases, "ptypes": [INT if pm[i] else None for i in range(nc)]}
                        arms = []
                        for j in order[:keep]:
                            bind = ("w%d" % j) if pm[j] and (j + keep) % 2 == 0 else ("_" if pm[j] else "")
                            body = {"stmts": [{"k": "mark", "tag": T(30 + j)}],
                                    "fin": {"k": "bin", "op": "+", "a": {"k": "var", "x": bind}, "b": {"k": "int", "v": 10 * j}} if bind not in ("", "_") else {"k": "int", "v": 10 * j}}
                            arms.append({"case": cases[j]["n"], "bind": bind, "body": body})
                        dflt = {"k": "none"} if keep == nc else {"stmts": [{"k": "mark", "tag": T(39)}], "fin": {"k": "int", "v": 77}}
                        ctor = {"k": "ctor", "union": un, "case": cases[built]["n"], "arg": _pi(T(1), 4) if pm[built] else {"k": "none"}}
                        add([u], [], {"stmts": [{"k": "let", "x": "u", "e": ctor}],
                                      "fin": {"k": "umatch", "target": {"k": "var", "x": "u"}, "arms": arms, "dflt": dflt}})
    # K4g the same over a GENERIC union U<T> (T = int; the no-payload constructor is written  Case<int> ()): the emitted switch names the
    # instantiated case types (defect 27 of DESIGN section 6); plus T = string with the payload returned
    for nc, pms in ((2, list(itertools.product([True, False], repeat=2))), (3, [(True, False, True), (False, True, True)])):
        for pm in pms:
            for built in range(nc):
                for order in itertools.permutations(range(nc)):
                    for keep in range(1, nc + 1):
                        un = "P%dG" % pid[0]
                        cases = [{"n": "P%dK%d" % (pid[0], i), "p": pm[i]} for i in range(nc)]
                        # the first payload is the type parameter, later ones are int
                        first = [i for i in range(nc) if pm[i]][:1]
                        u = {"k": "union", "name": un, "tparams": ["T"], "cases": cases,
                             "ptypes": [(("raw", "T") if [i] == first else INT) if pm[i] else None for i in range(nc)]}
                        arms = []
                        for j in order[:keep]:
                            bind = ("w%d" % j) if pm[j] and (j + keep) % 2 == 0 else ("_" if pm[j] else "")
                            body = {"stmts": [{"k": "mark", "tag": T(30 + j)}],
                                    "fin": {"k": "bin", "op": "+", "a": {"k": "var", "x": bind}, "b": {"k": "int", "v": 10 * j}} if bind not in ("", "_") else {"k": "int", "v": 10 * j}}
                            arms.append({"case": cases[j]["n"], "bind": bind, "body": body})
                        dflt = {"k": "none"} if keep == nc else {"stmts": [{"k": "mark", "tag": T(39)}], "fin": {"k": "int", "v": 77}}
                        ctor = {"k": "ctor", "union": un, "case": cases[built]["n"], "arg": _pi(T(1), 4) if pm[built] else {"k": "none"}}
                        if not pm[built] or [built] != first:
                            ctor["targs"] = ["int"]          # nothing determines T: written explicitly
                        add([u], [], {"stmts": [{"k": "let", "x": "u", "e": ctor}],
                                      "fin": {"k": "umatch", "target": {"k": "var", "x": "u"}, "arms": arms, "dflt": dflt}})
    for built in range(2):
        for order in itertools.permutations(range(2)):
            for keep in (1, 2):
                un = "P%dG" % pid[0]
                cases = [{"n": "P%dK0" % pid[0], "p": True}, {"n": "P%dK1" % pid[0], "p": False}]
                u = {"k": "union", "name": un, "tparams": ["T"], "cases": cases, "ptypes": [("raw", "T"), None]}
                bodies = [{"stmts": [{"k": "mark", "tag": T(30)}], "fin": {"k": "bin", "op": "+", "a": {"k": "var", "x": "w0"}, "b": {"k": "str", "v": "!"}}},
                          {"stmts": [{"k": "mark", "tag": T(31)}], "fin": {"k": "str", "v": "none"}}]
                arms = [{"case": cases[j]["n"], "bind": "w0" if j == 0 else "", "body": bodies[j]} for j in order[:keep]]
                dflt = {"k": "none"} if keep == 2 else {"stmts": [], "fin": {"k": "str", "v": "dflt"}}
                ctor = {"k": "ctor", "union": un, "case": cases[built]["n"], "arg": {"k": "probe", "tag": T(1), "e": {"k": "str", "v": "pay"}} if built == 0 else {"k": "none"}}
                if built == 1:
                    ctor["targs"] = ["string"]
                add([u], [], {"stmts": [{"k": "let", "x": "u", "e": ctor}],
                              "fin": {"k": "umatch", "target": {"k": "var", "x": "u"}, "arms": arms, "dflt": dflt}}, STR)
    # K5 string match: literal arms + variable rule / default
    for val in ("a", "b", "zz"):
        for last in ("var", "dflt"):
            lastn = {"k": "var", "x": "s", "body": {"stmts": [], "fin": {"k": "bin", "op": "+", "a": {"k": "var", "x": "s"}, "b": {"k": "str", "v": "!"}}}} if last == "var" else \
                    {"k": "dflt", "x": "", "body": {"stmts": [{"k": "mark", "tag": T(3)}], "fin": {"k": "str", "v": "other"}}}
            add([], [], {"stmts": [{"k": "let", "x": "t", "e": {"k": "probe", "tag": T(0), "e": {"k": "str", "v": val}}}],
                         "fin": {"k": "smatch", "target": {"k": "var", "x": "t"},
                                 "arms": [{"lit": "a", "body": {"stmts": [{"k": "mark", "tag": T(1)}], "fin": {"k": "str", "v": "A"}}},
                                          {"lit": "b", "body": {"stmts": [{"k": "mark", "tag": T(2)}], "fin": {"k": "str", "v": "B"}}}],
                                 "last": lastn}}, STR)
    # K6 closures: capture at creation time, nested shadow-free scopes, lambdas through library functions
    add([], [], {"stmts": [{"k": "let", "x": "a", "e": _pi(T(0), 5)},
                           {"k": "letfun", "name": "g", "params": ["y"], "ptypes": [INT], "body": {"stmts": [{"k": "mark", "tag": T(1)}], "fin": {"k": "bin", "op": "+", "a": {"k": "var", "x": "a"}, "b": {"k": "var", "x": "y"}}}},
                           {"k": "let", "x": "b", "e": {"k": "app", "f": "g", "args": [_pi(T(2), 1)]}}],
                 "fin": {"k": "app", "f": "g", "args": [{"k": "var", "x": "b"}]}})
    add([], [], {"stmts": [{"k": "let", "x": "xs", "e": {"k": "slice", "es": [{"k": "int", "v": 3}, {"k": "int", "v": 1}, {"k": "int", "v": 2}]}}],
                 "fin": {"k": "pipe", "a": {"k": "pipe", "a": {"k": "var", "x": "xs"},
                                            "b": {"k": "app", "f": "slice.Map", "args": [{"k": "lam", "params": ["x"], "body": {"stmts": [], "fin": {"k": "probe", "tag": T(0), "e": {"k": "bin", "op": "*", "a": {"k": "var", "x": "x"}, "b": {"k": "int", "v": 2}}}}}]}},
                         "b": {"k": "app", "f": "slice.Filter", "args": [{"k": "lam", "params": ["y"], "body": {"stmts": [], "fin": {"k": "bin", "op": ">", "a": {"k": "probe", "tag": T(1), "e": {"k": "var", "x": "y"}}, "b": {"k": "int", "v": 2}}}}]}}},
        ("sl", INT))
    # K6u lambdas with a unit parameter: the body runs at every call, not at the definition (defect 28 of DESIGN section 6)
    ulam = lambda tag, v: {"k": "lam", "params": [], "body": {"stmts": [], "fin": _pi(tag, v)}}
    add([], [], {"stmts": [{"k": "let", "x": "f", "e": ulam(T(0), 5)}, {"k": "mark", "tag": T(1)},
                           {"k": "let", "x": "a", "e": {"k": "app", "f": "f", "args": [{"k": "unit"}]}}, {"k": "mark", "tag": T(2)}],
                 "fin": {"k": "bin", "op": "+", "a": {"k": "var", "x": "a"}, "b": {"k": "app", "f": "f", "args": [{"k": "unit"}]}}})
    for ncalls in (0, 1, 2):
        fn = "p%dapply0" % pid[0]
        calls = [{"k": "app", "f": "g", "args": [{"k": "unit"}]} for _ in range(ncalls)]
        fin = {"k": "int", "v": 1}
        for c in calls:
            fin = {"k": "bin", "op": "+", "a": fin, "b": c}
        f = {"name": fn, "params": ["g"], "ptypes": [("raw", "()->int")], "rtype": INT, "body": {"stmts": [{"k": "mark", "tag": T(3)}], "fin": fin}}
        add([], [f], {"stmts": [{"k": "mark", "tag": T(4)}], "fin": {"k": "app", "f": fn, "args": [ulam(T(0), 7)]}})
    # K6s shadowing: an inner binder (lambda parameter, inner function parameter, arm variable, a let in a branch block) with the name of
    # an outer variable of ANOTHER type that is used again afterwards: the outer variable is untouched
    sv = lambda x: {"k": "var", "x": x}
    outer = {"k": "let", "x": "x", "e": {"k": "probe", "tag": T(0), "e": {"k": "str", "v": "outer"}}, "vt": STR}
    after = {"k": "bin", "op": "+", "a": sv("x"), "b": {"k": "str", "v": "!"}}
    ints = {"k": "slice", "es": [{"k": "int", "v": 1}, {"k": "int", "v": 2}]}
    inc = {"k": "bin", "op": "+", "a": sv("x"), "b": {"k": "int", "v": 1}}
    add([], [], {"stmts": [outer, {"k": "let", "x": "zs", "e": {"k": "app", "f": "slice.Map", "args": [{"k": "lam", "params": ["x"], "body": {"stmts": [], "fin": inc}}, ints]}, "vt": ("sl", INT)}],
                 "fin": {"k": "tuple", "es": [after, sv("zs")]}}, ("tup", (STR, ("sl", INT))))
    add([], [], {"stmts": [outer, {"k": "letfun", "name": "g", "params": ["x"], "ptypes": [INT], "body": {"stmts": [{"k": "mark", "tag": T(1)}], "fin": inc}},
                           {"k": "let", "x": "n", "e": {"k": "app", "f": "g", "args": [{"k": "int", "v": 5}]}, "vt": INT}],
                 "fin": {"k": "tuple", "es": [after, sv("n")]}}, ("tup", (STR, INT)))
    un = "P%dSh" % pid[0]
    cs = [{"n": "P%dS0" % pid[0], "p": True}, {"n": "P%dS1" % pid[0], "p": False}]
    add([{"k": "union", "name": un, "cases": cs, "ptypes": [INT, None]}], [],
        {"stmts": [outer, {"k": "let", "x": "u", "e": {"k": "ctor", "union": un, "case": cs[0]["n"], "arg": {"k": "int", "v": 4}}, "vt": ("uni", un)},
                   {"k": "let", "x": "n", "vt": INT, "e": {"k": "umatch", "target": sv("u"),
                                                        "arms": [{"case": cs[0]["n"], "bind": "x", "body": {"stmts": [], "fin": inc}},
                                                                 {"case": cs[1]["n"], "bind": "", "body": {"stmts": [], "fin": {"k": "int", "v": 0}}}], "dflt": {"k": "none"}}}],
         "fin": {"k": "tuple", "es": [after, sv("n")]}}, ("tup", (STR, INT)))
    add([], [], {"stmts": [outer, {"k": "let", "x": "n", "vt": INT, "e": {"k": "if", "c": _pb(T(2), True),
                                                                    "t": {"stmts": [{"k": "let", "x": "x", "e": {"k": "int", "v": 7}, "vt": INT}], "fin": inc},
                                                                    "e": {"stmts": [], "fin": {"k": "int", "v": 0}}}}],
                 "fin": {"k": "tuple", "es": [after, sv("n")]}}, ("tup", (STR, INT)))
    # K7 recursion: linear, double (order of the two calls), accumulator through a slice, under a match on a recursive union
    def v(x):
        return {"k": "var", "x": x}
    def num(n):
        return {"k": "int", "v": n}
    def bop(op, a, b):
        return {"k": "bin", "op": op, "a": a, "b": b}
    for n in (0, 1, 3):
        fn = "p%drsum" % pid[0]
        f = {"name": fn, "params": ["n"], "ptypes": [INT], "rtype": INT,
             "body": {"stmts": [], "fin": {"k": "if", "c": bop("<=", v("n"), num(0)),
                                           "t": {"stmts": [{"k": "mark", "tag": T(1)}], "fin": num(0)},
                                           "e": {"stmts": [], "fin": bop("+", {"k": "probe", "tag": T(2), "e": v("n")}, {"k": "app", "f": fn, "args": [bop("-", v("n"), num(1))]})}}}}
        add([], [f], {"stmts": [], "fin": {"k": "app", "f": fn, "args": [num(n)]}})
    for n in (0, 1, 2, 4):
        fn = "p%dfib" % pid[0]
        f = {"name": fn, "params": ["n"], "ptypes": [INT], "rtype": INT,
             "body": {"stmts": [], "fin": {"k": "if", "c": bop("<", v("n"), num(2)),
                                           "t": {"stmts": [], "fin": {"k": "probe", "tag": T(1), "e": v("n")}},
                                           "e": {"stmts": [{"k": "mark", "tag": T(2)}],
                                                 "fin": bop("+", {"k": "app", "f": fn, "args": [bop("-", v("n"), num(1))]}, {"k": "app", "f": fn, "args": [bop("-", v("n"), num(2))]})}}}}
        add([], [f], {"stmts": [], "fin": {"k": "app", "f": fn, "args": [num(n)]}})
    for n in (0, 2, 3):
        fn = "p%dbuild" % pid[0]
        f = {"name": fn, "params": ["n", "acc"], "ptypes": [INT, ("sl", INT)], "rtype": ("sl", INT),
             "body": {"stmts": [], "fin": {"k": "if", "c": bop("=", v("n"), num(0)),
                                           "t": {"stmts": [], "fin": v("acc")},
                                           "e": {"stmts": [], "fin": {"k": "app", "f": fn, "args": [bop("-", v("n"), num(1)),
                                                                                                 {"k": "app", "f": "slice.PushLast", "args": [{"k": "probe", "tag": T(1), "e": v("n")}, v("acc")]}]}}}}}
        add([], [f], {"stmts": [], "fin": {"k": "app", "f": fn, "args": [num(n), {"k": "slice", "es": [num(9)]}]}}, ("sl", INT))
    # a recursive union: Leaf of int | Node of (T*T); the sum visits left then right
    for shape in (0, 1, 2):
        un = "P%dT" % pid[0]
        cl, cn = "P%dLeaf" % pid[0], "P%dNode" % pid[0]
        ut = ("uni", un)
        u = {"k": "union", "name": un, "cases": [{"n": cl, "p": True}, {"n": cn, "p": True}], "ptypes": [INT, ("tup", (ut, ut))]}
        fn = "p%dsumt" % pid[0]
        f = {"name": fn, "params": ["t"], "ptypes": [ut], "rtype": INT,
             "body": {"stmts": [], "fin": {"k": "umatch", "target": v("t"),
                                           "arms": [{"case": cl, "bind": "n", "body": {"stmts": [], "fin": {"k": "probe", "tag": T(1), "e": v("n")}}},
                                                    {"case": cn, "bind": "p", "body": {"stmts": [{"k": "destr", "xs": ["l", "r"], "e": v("p")}],
                                                                                         "fin": bop("+", {"k": "app", "f": fn, "args": [v("l")]}, {"k": "app", "f": fn, "args": [v("r")]})}}],
                                           "dflt": {"k": "none"}}}}
        leaf = lambda i: {"k": "ctor", "union": un, "case": cl, "arg": num(i)}
        node = lambda a, b: {"k": "ctor", "union": un, "case": cn, "arg": {"k": "tuple", "es": [a, b]}}
        tree = [leaf(5), node(leaf(1), leaf(2)), node(node(leaf(1), leaf(2)), node(leaf(3), leaf(4)))][shape]
        add([u], [f], {"stmts": [{"k": "let", "x": "tr", "e": tree}], "fin": {"k": "app", "f": fn, "args": [v("tr")]}})
    # K9 if / else in expression position (operand, argument, element, field, piped value): only the taken branch is evaluated, at its place
    def ife(c, i):
        return {"k": "if", "c": _pb(T(10 * i), c), "t": {"stmts": [], "fin": _pi(T(10 * i + 1), 1)}, "e": {"stmts": [], "fin": _pi(T(10 * i + 2), 2)}}
    for c1 in (True, False):
        for c2 in (True, False):
            add([], [], {"stmts": [], "fin": bop("+", ife(c1, 1), ife(c2, 2))})
            add([], [], {"stmts": [], "fin": {"k": "tuple", "es": [ife(c1, 1), _pi(T(5), 5), ife(c2, 2)]}}, ("tup", (INT, INT, INT)))
            add([], [], {"stmts": [], "fin": {"k": "slice", "es": [ife(c1, 1), ife(c2, 2)]}}, ("sl", INT))
        f = {"name": "p%dinc" % pid[0], "params": ["a", "b"], "ptypes": [INT, INT], "rtype": INT,
             "body": {"stmts": [{"k": "mark", "tag": T(9)}], "fin": bop("+", v("a"), v("b"))}}
        add([], [f], {"stmts": [], "fin": {"k": "app", "f": f["name"], "args": [ife(c1, 1), _pi(T(6), 6)]}})
        rn = "P%dIfRec" % pid[0]
        r = {"k": "record", "name": rn, "fields": ["A", "B"], "ftypes": [INT, INT]}
        add([r], [], {"stmts": [{"k": "let", "x": "r", "e": {"k": "rec", "name": rn, "fields": [{"n": "A", "e": ife(c1, 1)}, {"n": "B", "e": _pi(T(7), 7)}]}}],
                      "fin": bop("+", {"k": "field", "e": v("r"), "n": "A"}, {"k": "field", "e": v("r"), "n": "B"})})
        f2 = dict(f, name="p%dinc" % pid[0])
        add([], [f2], {"stmts": [], "fin": {"k": "pipe", "a": ife(c1, 1), "b": {"k": "app", "f": f2["name"], "args": [num(3)]}}})
    # K10 nested field access and a match on a constructor expression
    rin, rout = "P%dIn" % pid[0], "P%dOut" % pid[0]
    tin = {"k": "record", "name": rin, "fields": ["V", "w"], "ftypes": [INT, STR]}
    tout = {"k": "record", "name": rout, "fields": ["I", "N"], "ftypes": [("rec", rin), INT]}
    inner = {"k": "rec", "name": rin, "fields": [{"n": "V", "e": _pi(T(1), 4)}, {"n": "w", "e": {"k": "str", "v": "x"}}]}
    add([tin, tout], [], {"stmts": [{"k": "let", "x": "o", "e": {"k": "rec", "name": rout, "fields": [{"n": "N", "e": _pi(T(2), 2)}, {"n": "I", "e": inner}]}}],
                          "fin": bop("+", {"k": "field", "e": {"k": "field", "e": v("o"), "n": "I"}, "n": "V"}, {"k": "field", "e": v("o"), "n": "N"})})
    for built in (0, 1):
        un = "P%dME" % pid[0]
        cases = [{"n": "P%dMA" % pid[0], "p": True}, {"n": "P%dMB" % pid[0], "p": False}]
        u = {"k": "union", "name": un, "cases": cases, "ptypes": [INT, None]}
        ctor = {"k": "ctor", "union": un, "case": cases[built]["n"], "arg": _pi(T(1), 4) if built == 0 else {"k": "none"}}
        add([u], [], {"stmts": [], "fin": {"k": "umatch", "target": ctor,
                                           "arms": [{"case": cases[0]["n"], "bind": "k", "body": {"stmts": [{"k": "mark", "tag": T(2)}], "fin": bop("+", v("k"), num(1))}},
                                                    {"case": cases[1]["n"], "bind": "", "body": {"stmts": [{"k": "mark", "tag": T(3)}], "fin": num(0)}}],
                                           "dflt": {"k": "none"}}})
    # K11 a match / if whose rules have a VALUE, used as a statement that is not the last one of its block: the value is dropped,
    # the statements after it run (in a function body, in a lambda, in the branch of an if, in a rule of an outer match)
    def valmatch(un, cases, built_var, base):
        return {"k": "umatch", "target": v(built_var),
                "arms": [{"case": cases[0]["n"], "bind": "k", "body": {"stmts": [{"k": "mark", "tag": T(base + 1)}], "fin": bop("+", v("k"), num(1))}},
                         {"case": cases[1]["n"], "bind": "", "body": {"stmts": [{"k": "mark", "tag": T(base + 2)}], "fin": num(0)}}],
                "dflt": {"k": "none"}}
    for built in (0, 1):
        for place in ("fn", "lam", "ifbranch", "rule", "strmatch"):
            un = "P%dVS" % pid[0]
            cases = [{"n": "P%dVA" % pid[0], "p": True}, {"n": "P%dVB" % pid[0], "p": False}]
            u = {"k": "union", "name": un, "cases": cases, "ptypes": [INT, None]}
            ctor = {"k": "ctor", "union": un, "case": cases[built]["n"], "arg": num(4) if built == 0 else {"k": "none"}}
            if place == "strmatch":
                stmt = {"k": "expr", "e": {"k": "smatch", "target": v("s"),
                                           "arms": [{"lit": "a", "body": {"stmts": [{"k": "mark", "tag": T(1)}], "fin": num(1)}}],
                                           "last": {"k": "dflt", "x": "", "body": {"stmts": [{"k": "mark", "tag": T(2)}], "fin": num(2)}}}}
                body = {"stmts": [{"k": "let", "x": "s", "e": {"k": "str", "v": "a" if built == 0 else "zz"}}, stmt, {"k": "mark", "tag": T(3)}], "fin": num(100)}
                add([], [], body)
                continue
            stmt = {"k": "expr", "e": valmatch(un, cases, "c", 0)}
            inner = {"stmts": [stmt, {"k": "mark", "tag": T(5)}], "fin": num(100)}
            if place == "fn":
                f = {"name": "p%dstep" % pid[0], "params": ["c"], "ptypes": [("uni", un)], "rtype": INT, "body": inner}
                add([u], [f], {"stmts": [], "fin": {"k": "app", "f": f["name"], "args": [ctor]}})
            elif place == "lam":
                # (an inner function: the renderer writes lambdas on one line)
                add([u], [], {"stmts": [{"k": "letfun", "name": "g", "params": ["c"], "ptypes": [("uni", un)], "body": inner}], "fin": {"k": "app", "f": "g", "args": [ctor]}})
            elif place == "ifbranch":
                add([u], [], {"stmts": [{"k": "let", "x": "c", "e": ctor},
                                        {"k": "let", "x": "r", "e": {"k": "if", "c": _pb(T(7), True), "t": inner, "e": {"stmts": [], "fin": num(400)}}}],
                              "fin": bop("+", v("r"), num(1))})
            else:
                outer = {"k": "umatch", "target": v("o"),
                         "arms": [{"case": cases[0]["n"], "bind": "", "body": inner}, {"case": cases[1]["n"], "bind": "", "body": {"stmts": [], "fin": num(7)}}],
                         "dflt": {"k": "none"}}
                outer["arms"][0]["bind"] = "_"
                add([u], [], {"stmts": [{"k": "let", "x": "c", "e": ctor}, {"k": "let", "x": "o", "e": {"k": "ctor", "union": un, "case": cases[0]["n"], "arg": num(1)}}], "fin": outer})
    progs += eq_kernels(pid[0])
    return progs
