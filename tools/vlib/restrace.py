"""White-box traces of fc's type-variable resolver (hook fc/verif_on.go, env FOLANG_VERIF_RESLOG) and their validation against
spec/FoResolver.tla (FoResolverTrace.tla)."""
import json
import os
import re

from vlib import core
from vlib.core import Infra

MARK = {"mark": True, "eid": [], "rels": []}


def _names(t, acc):
    if t[0] == "var":
        acc.add(t[1])
    for x in t[1:]:
        if isinstance(x, list):
            if x and isinstance(x[0], str):
                _names(x, acc)
            else:
                for y in x:
                    if isinstance(y, list):
                        _names(y, acc)


def prepare(ctx, logs, tag=""):
    """concatenate the per-process logs (a marker line after each), write the trace and the Go string order of all variable names"""
    sd = ctx.spec_dir()
    names = set()
    recs = {}
    n = 0
    lines_per_log = []
    with open(os.path.join(sd, "res_trace%s.ndjson" % tag), "w") as out:
        for p in logs:
            k = 0
            if os.path.exists(p):
                for line in open(p):
                    line = line.strip()
                    if not line:
                        continue
                    l = json.loads(line)
                    for e in l["eid"]:
                        names.add(e["name"])
                        names.update(e["eset"])
                        _names(e["res"], names)
                    for r in l["rels"]:
                        names.add(r["src"])
                        _names(r["dest"], names)
                    for rc in l.pop("recs", []):
                        recs.setdefault(json.dumps(rc["rt"]), rc)
                    out.write(json.dumps(l) + "\n")
                    k += 1
            out.write(json.dumps(MARK) + "\n")
            lines_per_log.append(k)
            n += k + 1
    # Go compares strings bytewise; so does Python for str of ASCII names
    with open(os.path.join(sd, "res_ord%s.ndjson" % tag), "w") as f:
        f.write(json.dumps(sorted(names)) + "\n")
    with open(os.path.join(sd, "res_recs%s.ndjson" % tag), "w") as f:
        for k in sorted(recs):
            f.write(json.dumps(recs[k]) + "\n")
    return n, lines_per_log


def validate(ctx, tag="", timeout=3000):
    """returns (lines, bad line numbers (1-based), skipped rounds)"""
    from vlib import slicecheck
    slicecheck.write_cfg(ctx, "FoResolverTrace%s.cfg" % tag,
                         "CONSTANTS\n  TraceFile = \"res_trace%s.ndjson\"\n  OrdFile = \"res_ord%s.ndjson\"\n  RecFile = \"res_recs%s.ndjson\"\n  RecField <- TraceRecField\n  Deviations = {}\nSPECIFICATION Spec\nCHECK_DEADLOCK FALSE\n" % (tag, tag, tag))
    r = ctx.tlc("FoResolverTrace", "FoResolverTrace%s.cfg" % tag, workers=1, timeout=timeout, heap_gb=8)
    m = re.search(r'<<\s*"TRACE-END",\s*(\d+),\s*<<([\d,\s]*)>>,\s*"skipped",\s*(\d+)\s*>>', r["out"])
    if not m:
        raise Infra("FoResolverTrace did not finish: " + r["out"][-600:])
    bad = [int(x) for x in m.group(2).replace(",", " ").split()]
    return int(m.group(1)), bad, int(m.group(3))
