#!/usr/bin/env python3
"""keepseed.py <mutant dir> <seed id> <checks>: confirm a seeded change with tools/seedtest.py and, if confirmed, store it as
/verif/seeded/<seed id>/ (patch.diff, demo/, meta.json with what was run and which checks raised a violation)."""
import json, os, shutil, subprocess, sys
V = os.path.dirname(os.path.dirname(os.path.abspath(__file__)))
src, sid, checks = sys.argv[1], sys.argv[2], sys.argv[3]
r = subprocess.run(["python3", os.path.join(V, "tools", "seedtest.py"), src, "--checks", checks], capture_output=True, text=True)
try:
    d = json.loads(r.stdout)
except ValueError:
    print("seedtest failed:", r.stdout[-500:], r.stderr[-500:]); sys.exit(2)
ok = d.get("applies") and d.get("tests_pass_with_patch") and d.get("demo_fails_with_patch") and d.get("demo_passes_without")
print(sid, "confirmed" if ok else "NOT CONFIRMED", {c: v["rc"] for c, v in d.get("checks", {}).items()})
if not ok:
    print({k: d.get(k) for k in ("applies", "apply_err", "tests_pass_with_patch", "demo_fails_with_patch", "demo_passes_without")}); sys.exit(1)
dst = os.path.join(V, "seeded", sid)
shutil.rmtree(dst, ignore_errors=True)
os.makedirs(dst)
shutil.copy(os.path.join(src, "patch.diff"), os.path.join(dst, "patch.diff"))
if os.path.isdir(os.path.join(src, "demo")):
    shutil.copytree(os.path.join(src, "demo"), os.path.join(dst, "demo"))
meta = json.load(open(os.path.join(src, "meta.json")))
prop = meta.get("property", "")
json.dump({"property": prop if (prop.startswith("C") and len(prop) == 3) else sid[-7:-4] if False else sid.split("-")[0].replace("R2", ""),
           "summary": meta.get("summary"), "needs": meta.get("needs"), "author_ran": meta.get("ran"),
           "confirmed_by_us": {"how": "tools/seedtest.py: patch applied to a scratch copy of /repo; repository test suite run with the patch; demo/run.sh run on the patched and on the clean copy",
                               "tests_pass_with_patch": True, "demo_fails_with_patch": True, "demo_passes_without": True},
           "checks_run": {c: ("VIOLATION" if v["rc"] == 1 else ("no alarm" if v["rc"] == 0 else "check broken (exit 2)")) for c, v in d.get("checks", {}).items()},
           "first_violation": {c: v["detail"][:400] for c, v in d.get("checks", {}).items() if v["rc"] == 1}},
          open(os.path.join(dst, "meta.json"), "w"), indent=1)
