"""C14: pkg/dict, pkg/strings, pkg/buf and the pkg/frt helpers against FoDict.tla / FoLib.tla."""
import json
import os
import re

from vlib import core, slicecheck
from vlib.core import Infra

LEVEL = "model_checking"


def lib_cases(ctx, chars, n, replay_case=None):
    sd = ctx.spec_dir()
    drv = slicecheck.build_driver(ctx, "drv_lib")
    cases_file = os.path.join(sd, "lib_cases.ndjson")
    lines = []
    if replay_case is None:
        slicecheck.write_cfg(ctx, "FoLibCases_run.cfg",
                             "CONSTANTS\n  Chars = {%s}\n  N = %d\n  OutFile = \"lib_cases.ndjson\"\nINIT Init\nNEXT Next\n" % (
                                 ", ".join(json.dumps(c) for c in chars), n))
        ctx.tlc("FoLibCases", "FoLibCases_run.cfg", workers=1, timeout=3000, heap_gb=6)
        if not os.path.exists(cases_file):
            raise Infra("TLC did not export the library case table")
        outf = os.path.join(sd, "lib_out_fmt.ndjson")
        rc, so, se = core.sh([drv, "fmt", "-", outf], timeout=600)
        if rc != 0:
            raise Infra("drv_lib fmt failed: %s %s" % (so[-1000:], se[-2000:]))
        lines += core.read_ndjson(outf)
    else:
        core.write_ndjson(cases_file, [replay_case])
    outp = os.path.join(sd, "lib_out.ndjson")
    rc, so, se = core.sh([drv, "cases", cases_file, outp], timeout=1800)
    if rc != 0:
        raise Infra("drv_lib cases failed: %s %s" % (so[-1000:], se[-2000:]))
    lines += core.read_ndjson(outp)
    core.write_ndjson(os.path.join(sd, "lib_trace.ndjson"), lines)
    r = ctx.tlc("FoLibTrace", "FoLibTrace.cfg", workers=1, timeout=3000, heap_gb=6)
    n_, bad = slicecheck.parse_trace_end(r["out"])
    if n_ != len(lines):
        raise Infra("trace length mismatch")
    return lines, bad


def dict_histories(ctx):
    hists = []
    r = ctx.tlc("FoDict", "FoDict_exh.cfg", workers=1, timeout=1800)
    for m in re.finditer(r'<<"HIST", "(.*)">>', r["out"]):
        hists.append(json.loads(json.loads('"' + m.group(1) + '"')))
    n_exh = len(hists)
    num = 3000 if ctx.tier == "thorough" else 600
    r = ctx.tlc("FoDict", "FoDict_sim.cfg", workers=1, simulate="num=%d" % num, depth=16, seed=ctx.seed, timeout=3000)
    for m in re.finditer(r'<<"HIST", "(.*)">>', r["out"]):
        hists.append(json.loads(json.loads('"' + m.group(1) + '"')))
    if n_exh == 0 or len(hists) == n_exh:
        raise Infra("no dictionary histories exported")
    return hists, n_exh


def dict_validate(ctx, hists):
    sd = ctx.spec_dir()
    drv = slicecheck.build_driver(ctx, "drv_lib")
    hf = os.path.join(sd, "dict_hists.ndjson")
    core.write_ndjson(hf, hists)
    outp = os.path.join(sd, "dict_trace.ndjson")
    rc, so, se = core.sh([drv, "dict", hf, outp], timeout=1800)
    if rc != 0:
        raise Infra("drv_lib dict failed: %s %s" % (so[-1000:], se[-2000:]))
    lines = core.read_ndjson(outp)
    r = ctx.tlc("FoDictTrace", "FoDictTrace.cfg", workers=1, timeout=3000, heap_gb=6)
    n_, bad = slicecheck.parse_trace_end(r["out"])
    if n_ != len(lines):
        raise Infra("trace length mismatch")
    return lines, bad


def run(ctx):
    ctx.rule = ("(a) call table of pkg/strings, pkg/buf, frt.Pipe/If*/tuple helpers enumerated by TLC (FoLibCases.tla) over all strings "
                "<= N over {a, b, ','} and executed on the real packages; (b) boundary values of every basic Go kind through "
                "SInterP/Sprintf1/Sprintf2; (c) dictionary histories = behaviours of the FoDict machine (all histories of depth 3 on "
                "one dictionary + seeded simulation of 2 dictionaries, depth 12), replies trace-validated. distinct = distinct "
                "cases / histories; non-trivial = a non-empty argument / a history with >= 1 Add")
    r = ctx.tlc("FoDict", "FoDict_mc.cfg", workers=4, timeout=1800)
    ctx.extra["dict_model_states"] = r["distinct"]
    chars, n = (["a", "b", ","], 4) if ctx.tier == "thorough" else (["a", "b", ","], 3)
    lines, bad = lib_cases(ctx, chars, n)
    for i, t in enumerate(lines):
        key = [t.get(k) for k in ("lib", "op", "a", "b", "c", "xs", "n", "m", "k", "cond", "f", "kind", "dec", "ref")]
        ctx.case(key, nontrivial=bool(t["a"] or t["b"] or t["xs"] or t["lib"] in ("frt", "fmt")),
                 sample={k: t[k] for k in ("lib", "op", "a", "b", "n", "ret")} if i % 1500 == 3 else None)
    for b in bad[:40]:
        t = lines[b - 1]
        ctx.violation("%s.%s: recorded call violates its specification: %s" % (t["lib"], t["op"], json.dumps(t)[:500]),
                      {"kind": "case", "case": t})
    hists, n_exh = dict_histories(ctx)
    dlines, dbad = dict_validate(ctx, hists)
    for i, hh in enumerate(hists):
        ctx.case(["dict", hh], nontrivial=any(s["op"] in ("Add", "ToDict") for s in hh),
                 sample=[(s["op"], s["d"], s["key"], s["val"]) for s in hh] if i in (5, n_exh + 1) else None)
    seen = set()
    for b in dbad:
        t = dlines[b - 1]
        hist = hists[t["h"] - 1][:t["k"]]
        k = core.h(hist)
        if k in seen:
            continue
        seen.add(k)
        ctx.violation("pkg/dict history rejected at step %d (%s): reply %s%s" % (t["k"], t["op"], json.dumps(t["ret"]),
                      (" panic: " + t["panic"]) if t["panic"] else ""), {"kind": "dict", "history": hist, "recorded": t})
    ctx.traces = len(hists) + 2
    ctx.extra["trace_lines"] = len(lines) + len(dlines)
    ctx.extra["dict_histories_exhaustive_depth3"] = n_exh
    ctx.exhaustive = False
    ctx.assumptions += ["FoLib.tla / FoDict.tla are the intended meaning (argument order from pkg_all.foi, Go's strings semantics for Split/SplitN/TrimSuffix)",
                        "strings are ASCII in the enumerated universe (Length is a byte count in Go)",
                        "Sprintf1/Sprintf2 are compared with Go's fmt on the same arguments; SInterP by kind: decimal for integer kinds (strconv), the string itself, %f for floats, %v otherwise"]


def replay(ctx, rep):
    if rep.get("kind") == "dict":
        dlines, dbad = dict_validate(ctx, [rep["history"]])
        for b in dbad:
            ctx.violation("pkg/dict history rejected", {"kind": "dict", "history": rep["history"], "recorded": dlines[b - 1]})
    else:
        c = rep["case"]
        if c["lib"] == "fmt":
            lines, bad = lib_cases(ctx, ["a", "b", ","], 1)
            for b in bad:
                if lines[b - 1]["lib"] == "fmt":
                    ctx.violation("fmt case fails", {"kind": "case", "case": lines[b - 1]})
            return
        case = {k: c[k] for k in ("lib", "op", "a", "b", "c", "xs", "n", "m", "k", "cond", "f")}
        lines, bad = lib_cases(ctx, None, None, replay_case=case)
        for b in bad:
            ctx.violation("case fails", {"kind": "case", "case": lines[b - 1]})
