"""C07: a definition's translation depends only on itself and what it references.
FoParseState.tla is the long-lived parse state as a machine (model-checked with and without named deviations); histories of
concrete packages are behaviours of that machine (TLC simulation seeded by VERIF_SEED plus directed ones), rendered into one or
several .fo/.foi files, transpiled by ONE invocation of the real fc; the Go declarations of every definition (temporaries
renumbered) are compared with the baseline history by TLC (FoParseStateTrace.tla)."""
import hashlib
import json
import os
import re
import shutil

from vlib import core, slicecheck, fcutil, c07pkg
from vlib.core import Infra

LEVEL = "model_checking"


def closure(defs, ids):
    by = {d["id"]: d for d in defs}
    out = set()
    todo = list(ids)
    while todo:
        x = todo.pop()
        if x not in out:
            out.add(x)
            todo += by[x]["deps"]
    return out


def topo(defs, subset, key=None):
    """a valid order of subset (closed under deps); key orders the ready definitions"""
    by = {d["id"]: d for d in defs}
    order = [d["id"] for d in defs]
    done = []
    rem = [x for x in order if x in subset]
    while rem:
        ready = [x for x in rem if all(y in done for y in by[x]["deps"]) and all(y in done for y in by[x].get("after", []) if y in subset)]
        if not ready:
            raise Infra("cyclic package")
        ready.sort(key=key or (lambda x: order.index(x)))
        done.append(ready[0])
        rem.remove(ready[0])
    return done


def directed(pkg, rng):
    defs = pkg["defs"]
    ids = [d["id"] for d in defs]
    hs = []
    mins = []
    # each definition with nothing but what it references (the definition itself last)
    for d in defs:
        cl = closure(defs, [d["id"]])
        mins.append([[1, x] for x in topo(defs, cl - {d["id"]})] + [[1, d["id"]]])
    # unrelated definitions as early / as late as possible, and a few random valid orders
    hs.append([[1, x] for x in topo(defs, set(ids), key=lambda x: -ids.index(x))])
    for _ in range(3):
        r = {x: rng.random() for x in ids}
        hs.append([[1, x] for x in topo(defs, set(ids), key=lambda x: r[x])])
    base = [[1, x] for x in topo(defs, set(ids))]
    n = len(base)
    for cut in sorted(set([1, n // 3, n // 2, n - 1])):
        if 0 < cut < n:
            hs.append([[1 if i < cut else 2, x] for i, (_, x) in enumerate(base)])
    if n >= 3:
        hs.append([[1 + (3 * i) // n, x] for i, (_, x) in enumerate(base)])
    return base, hs, mins


def render(pkg, hist, wd, foi_first):
    """write the files of a history; returns (argument list, wanted gen files)"""
    by = {d["id"]: d for d in pkg["defs"]}
    files = {}
    for f, d in hist:
        files.setdefault(f, []).append(d)
    args, want = [], []
    pinfo = [d for _, d in hist if by[d]["text"].startswith("package_info")]
    if foi_first and pinfo:
        p = os.path.join(wd, "ext0.foi")
        with open(p, "w") as fh:
            fh.write("\n".join(by[d]["text"] for d in pinfo) + "\n")
        args.append("ext0.foi")
    for f in sorted(files):
        body = [by[d]["text"] for d in files[f] if not (foi_first and d in pinfo)]
        name = "part%d.fo" % f
        with open(os.path.join(wd, name), "w") as fh:
            fh.write("package main\n\n" + "".join("import %s\n" % i for i in pkg["imports"]) + "\n" + "\n".join(body))
        args.append(name)
        want.append("gen_part%d.go" % f)
    return args, sorted(want)


def renumber(text):
    seen = {}

    def sub(m):
        if m.group(0) not in seen:
            seen[m.group(0)] = "_v#%d" % (len(seen) + 1)
        return seen[m.group(0)]
    return re.sub(r"_v\d+", sub, text)


def names_of(text):
    """the names a definition puts into the root scope, from its source text: v: variables / functions / union cases, t: types, r: records"""
    out = []
    lines = text.split("\n")
    m = re.match(r"package_info (\w+) =", lines[0])
    if m:
        pre = "" if m.group(1) == "_" else m.group(1) + "."
        for ln in lines[1:]:
            t = re.match(r"\s+type (\w+)", ln)
            f = re.match(r"\s+let (\w+)", ln)
            if t:
                out.append("t:" + pre + t.group(1))
            if f:
                out.append("v:" + pre + f.group(1))
        return sorted(out)
    if lines[0].startswith("let "):
        return ["v:" + re.match(r"let (\w+)", lines[0]).group(1)]
    cur = None
    for ln in lines:
        h = re.match(r"(?:type|and) (\w+)(?:<[^>]*>)? =\s*(\{)?", ln)
        if h:
            cur = h.group(1)
            out.append("t:" + cur)
            if h.group(2):
                out.append("r:" + cur)
            continue
        c = re.match(r"\s*\| (\w+)", ln)
        if c and cur:
            out.append("v:" + c.group(1))
    return sorted(out)


PRELUDE_ROOTS = {}


def prelude_roots(ctx):
    """number of root statements of pkg_all.foi (their events come first in every recorded run)"""
    if "n" not in PRELUDE_ROOTS:
        wd = ctx.mkdir("c07cal")
        log = os.path.join(wd, "ps.log")
        if os.path.exists(log):
            os.remove(log)
        rc, so, se = fcutil.run_fc(ctx, [], cwd=wd, timeout=120, env={"FOLANG_VERIF_PSLOG": log})
        evs = core.read_ndjson(log) if os.path.exists(log) else []
        if rc != 0 or not evs:
            PRELUDE_ROOTS["n"] = None          # no hook in this tree (or fc fails on the prelude): the white-box part is skipped
        else:
            PRELUDE_ROOTS["n"] = sum(1 for e in evs if e["ev"] == "root")
    return PRELUDE_ROOTS["n"]


def read_pslog(log, n0):
    """events of the history's own files (the prelude's first n0 root statements dropped), root-scope names relative to the first of them"""
    evs = core.read_ndjson(log) if os.path.exists(log) else []
    roots = 0
    start = None
    for i, e in enumerate(evs):
        if e["ev"] == "root":
            roots += 1
            if roots == n0 + 1:
                start = i
                break
    if start is None:
        return []
    base = None
    out = []
    for e in evs[start:]:
        names = set(["v:" + x for x in e["vars"]] + ["r:" + x for x in e["recs"]] + ["t:" + x for x in e["types"]])
        if base is None:
            base = names
        out.append({"ev": e["ev"], "tt": e["tt"], "depth": e["depth"], "names": sorted(names - base), "lost": sorted(base - names), "tva": e["tva"], "res": e["res"],
                    "tdtva": e["tdtva"], "tddefined": e["tddefined"], "tdalloced": e["tdalloced"], "insideTD": e["insideTD"], "offside": e["offside"], "tmp": e["tmp"]})
    return out


def run_history(ctx, pkg, hist, k, foi_first=False):
    wd = os.path.join(ctx.mkdir("c07"), "h%d" % k)
    os.makedirs(wd)
    args, want = render(pkg, hist, wd, foi_first)
    n0 = prelude_roots(ctx)
    pslog = os.path.join(wd, "ps.log")
    rc, so, se = fcutil.run_fc(ctx, args, cwd=wd, timeout=120, env={"FOLANG_VERIF_PSLOG": pslog} if n0 else None)
    psevents = read_pslog(pslog, n0) if n0 else None
    files = sorted(f for f in os.listdir(wd) if f.startswith("gen_"))
    decls = {}
    perr = ""
    for f in files:
        rows, err = fcutil.goast(ctx, "decls", os.path.join(wd, f))
        if rows is None:
            perr = err
            continue
        for r in rows:
            if r["kind"] != "import":
                decls.setdefault(r["name"], []).append(r["text"])
    emitted = []
    for _, d in hist:
        spec = next(x for x in pkg["defs"] if x["id"] == d)
        if spec["decls"] == "^$":
            emitted.append([d, "none"])           # package_info: contributes declarations only
            continue
        rx = re.compile(spec["decls"])
        names = sorted(n for n in decls if rx.match(n))
        text = renumber("\n".join("\n".join(decls[n]) for n in names))
        emitted.append([d, hashlib.sha256(text.encode()).hexdigest()[:20] if names else ""])
    shutil.rmtree(wd, ignore_errors=True)
    # the definitions in the order fc meets them: a leading .foi with the package_info blocks, then the files in order
    by = {d["id"]: d for d in pkg["defs"]}
    pinfo = [d for _, d in hist if by[d]["text"].startswith("package_info")]
    order = ([d for d in pinfo] if (foi_first and pinfo) else []) + [d for f in sorted(set(f for f, _ in hist)) for ff, d in hist if ff == f and not (foi_first and d in pinfo)]
    return {"code": rc, "files": files, "wantfiles": want, "emitted": emitted, "diag": (so.splitlines()[-1] if so.strip() else "")[:200] + perr[:100],
            "psevents": psevents, "order": order}


def run(ctx):
    ctx.rule = ("packages of 10-30 definitions (records, unions, `and` groups with forward references, generic functions, package_info, "
                "top-level variables; local names coincide with unrelated top-level names; fillers push the summed forward references / "
                "inference variables of a run above the allocator limit of 100); histories: each definition with only what it references, "
                "unrelated definitions first / last, random valid orders, cuts into 2-3 files, package_info moved to a leading .foi, and "
                "behaviours of the FoParseState machine from TLC simulation (seeded). distinct = distinct (package, history); "
                "non-trivial = not a minimal / baseline history. The reference translation of a definition is what fc emits for it with only what it references")
    for cfg in ("NoDev",):
        ctx.tlc("FoParseStateMC", "FoParseState_%s.cfg" % cfg, workers=4, timeout=1800)
    if ctx.tier == "thorough":
        for cfg in ("DevTva", "DevFwd", "DevLeak", "DevPop"):
            r = ctx.tlc("FoParseStateMC", "FoParseState_%s.cfg" % cfg, workers=4, timeout=1800, allow_fail=True)
            if "is violated" not in r["out"]:
                raise Infra("deviation %s does not violate any invariant of the model (vacuous?)" % cfg)
    # unbounded: ContextFresh and NoCapture of the machine without deviations, for every package and history (TLA+ proof system)
    ctx.extra["tlaps_obligations_proved_FoParseStateProof"] = ctx.tlapm("FoParseStateProof")
    ctx.build("fc")
    fcutil.build_goast(ctx)
    prelude_roots(ctx)             # (calibrated once, before the parallel runs)
    sd = ctx.spec_dir()
    jobs = []
    bases = {}
    nsim = 1200 if ctx.tier == "thorough" else 40
    for pi, pkg in enumerate(c07pkg.packages(ctx.tier)):
        core.write_ndjson(os.path.join(sd, "pkg.ndjson"),
                          [{"id": d["id"], "deps": d["deps"] + d.get("after", []), "tva": d["tva"], "fwd": d["fwd"], "istype": d["istype"], "locals": d["locals"]} for d in pkg["defs"]])
        r = ctx.tlc("FoParseStateHist", "FoParseStateHist.cfg", workers=1, simulate="num=%d" % nsim, depth=len(pkg["defs"]) + 6,
                    seed=ctx.seed * 10 + pi, timeout=1800)
        sims = [json.loads(json.loads('"' + m.group(1) + '"')) for m in re.finditer(r'<<"HIST", "(.*)">>', r["out"])]
        if not sims:
            raise Infra("no history exported for package " + pkg["name"])
        base, hs, mins = directed(pkg, ctx.rng)
        bases[pi] = base
        for h in mins:
            jobs.append((pi, pkg, h, False, "minimal"))
        jobs.append((pi, pkg, base, False, "baseline"))
        for h in hs:
            jobs.append((pi, pkg, h, False, "directed"))
        jobs.append((pi, pkg, base, True, "foi"))
        for h in sims:
            jobs.append((pi, pkg, h, ctx.rng.random() < 0.2, "sim"))
    res = core.pmap(lambda a: run_history(ctx, a[1][1], a[1][2], a[0], a[1][3]), list(enumerate(jobs)))
    # the reference translation of a definition: what fc emits for the MINIMAL history (the definition with only what it references)
    refmap = {}
    for (pi, pkg, h, foi, kind), r in zip(jobs, res):
        if kind == "minimal":
            d = h[-1][1]
            e = dict((x[0], x[1]) for x in r["emitted"])
            if r["code"] != 0 or not e.get(d):
                raise Infra("definition %s of package %s is not translated even alone with its references (%s): the package corpus does not fit this tree" % (d, pkg["name"], r["diag"]))
            refmap[(pi, d)] = e[d]
    lines = []
    for (pi, pkg, h, foi, kind), r in zip(jobs, res):
        base = [[d["id"], refmap[(pi, d["id"])]] for d in pkg["defs"]]
        lines.append({"pkg": pkg["name"], "kind": kind, "foi": foi, "hist": h, "code": r["code"], "files": r["files"], "wantfiles": r["wantfiles"],
                      "emitted": r["emitted"], "base": base, "diag": r["diag"]})
    core.write_ndjson(os.path.join(sd, "ps_trace.ndjson"), [{k: l[k] for k in ("hist", "code", "files", "wantfiles", "emitted", "base")} for l in lines])
    r = ctx.tlc("FoParseStateTrace", "FoParseStateTrace.cfg", workers=1, timeout=3000, heap_gb=6)
    n, bad = slicecheck.parse_trace_end(r["out"])
    if n != len(lines):
        raise Infra("trace length mismatch")
    # white-box: the recorded parse-state events of every run against the rules of FoParseStateWB.tla
    if prelude_roots(ctx):
        wb = []
        for (pi, pkg, h, foi, kind), r in zip(jobs, res):
            by = {d["id"]: d for d in pkg["defs"]}
            wb.append({"code": r["code"], "defs": [{"id": d, "names": names_of(by[d]["text"])} for d in r["order"]], "events": r["psevents"] or []})
        core.write_ndjson(os.path.join(sd, "ps_wb.ndjson"), wb)
        r2 = ctx.tlc("FoParseStateWB", "FoParseStateWB.cfg", workers=1, timeout=3000, heap_gb=6)
        n2, bad2 = slicecheck.parse_trace_end(r2["out"])
        if n2 != len(wb):
            raise Infra("white-box trace length mismatch")
        why = dict((int(m.group(1)), m.group(2)) for m in re.finditer(r'<<"WB-REJECT",\s*(\d+),\s*"([^"]*)"', r2["out"]))
        ctx.extra["parse_state_events_validated"] = sum(len(w["events"]) for w in wb)
        for b in bad2[:10]:
            l = lines[b - 1]
            ctx.violation("package %s, history %s%s: the recorded parse state breaks rule %s (spec/FoParseStateWB.tla)" % (
                l["pkg"], json.dumps(l["hist"]), " (package_info in a leading .foi)" if l["foi"] else "", why.get(b, "?")),
                {"pkg": l["pkg"], "hist": l["hist"], "foi": l["foi"], "whitebox": wb[b - 1], "rule": why.get(b)})
    else:
        ctx.note("this tree has no parse-state hook (or fc fails on the prelude): the white-box part was skipped")
    for i, l in enumerate(lines):
        ctx.case([l["pkg"], l["hist"], l["foi"]], nontrivial=l["kind"] not in ("baseline", "minimal"),
                 sample={"pkg": l["pkg"], "history": l["hist"], "files": l["files"]} if i % 61 == 9 else None)
    ctx.traces = len(lines)
    ctx.exhaustive = False
    for b in bad[:30]:
        l = lines[b - 1]
        basemap_ = dict((e[0], e[1]) for e in l["base"])
        diff = [e[0] for e in l["emitted"] if e[1] != basemap_.get(e[0])]
        ctx.violation("package %s, history %s%s: exit %d, files %s (want %s), definitions translated differently from their minimal history: %s  %s" % (
            l["pkg"], json.dumps(l["hist"]), " (package_info in a leading .foi)" if l["foi"] else "", l["code"], l["files"], l["wantfiles"], diff, l["diag"]),
            {"pkg": l["pkg"], "hist": l["hist"], "foi": l["foi"], "recorded": l})
    ctx.assumptions += ["a definition's Go declarations are found by name (types: T, T_C, New_T_C and their methods); texts are go/printer output with "
                        "_vN renumbered by first occurrence", "every file of a history repeats the package clause and the imports"]


def replay(ctx, rep):
    pkg = next((p for p in c07pkg.packages("thorough") if p["name"] == rep["pkg"]), None)
    if pkg is None:
        raise Infra("unknown package")
    ctx.build("fc")
    fcutil.build_goast(ctx)
    base, _, mins = directed(pkg, ctx.rng)
    bm = {}
    for k, h in enumerate(mins):
        b = run_history(ctx, pkg, h, 100 + k)
        bm[h[-1][1]] = dict((e[0], e[1]) for e in b["emitted"]).get(h[-1][1])
    r = run_history(ctx, pkg, rep["hist"], 1, rep.get("foi", False))
    if r["code"] != 0 or r["files"] != r["wantfiles"] or any(e[1] != bm.get(e[0]) for e in r["emitted"]):
        ctx.violation("history still translated differently", {"pkg": rep["pkg"], "hist": rep["hist"], "foi": rep.get("foi", False)})
