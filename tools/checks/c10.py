"""C10: frt.OpEqual / OpNotEqual against StructEq of FoEq.tla, on values whose Go types are emitted by fc."""
import json
import os
import shutil

from vlib import core, slicecheck
from vlib.core import Infra

LEVEL = "model_checking"

ALL_TYPES = ["int", "string", "bool", "tup2", "tup3", "Pt", "lrec", "Color", "Shape", "Wrap", "ints", "strings", "pts",
             "tups", "nested", "wraptup"]


def build_driver(ctx):
    fc = ctx.build("fc")
    d = ctx.go_module("drv_eq")
    src = os.path.join(core.VERIF, "harness", "drv_eq")
    for fn in ("main.go", "eqtypes.fo"):
        shutil.copy(os.path.join(src, fn), os.path.join(d, fn))
    rc, so, se = core.sh([fc, os.path.join(ctx.repo, "pkg", "pkg_all.foi"), os.path.join(d, "eqtypes.fo")], timeout=120)
    if rc != 0 or not os.path.exists(os.path.join(d, "gen_eqtypes.go")):
        raise Infra("fc could not transpile the type declarations used by the C10 driver:\n" + so[-2000:] + se[-2000:])
    rc, so, se = ctx.go_build(d, out="drv_eq")
    if rc != 0:
        raise Infra("drv_eq does not build against the emitted declarations:\n" + (so + se)[-3000:])
    return os.path.join(d, "drv_eq")


def run_pairs(ctx, types=None, pairs=None):
    sd = ctx.spec_dir()
    drv = build_driver(ctx)
    cases = os.path.join(sd, "eq_cases.ndjson")
    if pairs is None:
        slicecheck.write_cfg(ctx, "FoEqCases_run.cfg",
                             "CONSTANTS\n  OutFile = \"eq_cases.ndjson\"\n  Deep = %s\n  Types = {%s}\nINIT Init\nNEXT Next\n" % (
                                 "TRUE" if ctx.tier == "thorough" else "FALSE", ", ".join(json.dumps(t) for t in types)))
        ctx.tlc("FoEqCases", "FoEqCases_run.cfg", workers=1, timeout=3000, heap_gb=6)
        if not os.path.exists(cases):
            raise Infra("TLC did not export the equality pairs")
    else:
        core.write_ndjson(cases, pairs)
    outp = os.path.join(sd, "eq_trace.ndjson")
    rc, so, se = core.sh([drv, cases, outp], timeout=1800)
    if rc != 0:
        raise Infra("drv_eq failed: %s %s" % (so[-1000:], se[-2000:]))
    lines = core.read_ndjson(outp)
    r = ctx.tlc("FoEqTrace", "FoEqTrace.cfg", workers=1, timeout=3000, heap_gb=6)
    n, bad = slicecheck.parse_trace_end(r["out"])
    if n != len(lines):
        raise Infra("trace length mismatch")
    return lines, bad


def scalar(v):
    return v[0] in ("int", "str", "bool")


def run(ctx):
    ctx.rule = ("all same-typed pairs of the bounded value universe of FoEq.tla (16 Folang types: scalars, 2/3-tuples, records with "
                "upper- and lower-case fields, unions with/without payload, records and tuples containing unions containing slices, "
                "slices (length <= 2, thorough: <= 3) of ints/strings/records/tuples/slices; every slice in each library-produced representation incl. views of "
                "the other operand's array), a = b, a <> b and b = a evaluated by the real frt on Go types emitted by fc; "
                "distinct = distinct (type, a, b, shared); non-trivial = not both scalars.  Plus end to end: 372 Folang programs (10 types x equal / unequal x "
                "= / <> x operands written as literal / variable / call result on either side) transpiled by fc, run, validated against FoSem")
    lines, bad = run_pairs(ctx, types=ALL_TYPES)
    for i, t in enumerate(lines):
        ctx.case([t["ty"], t["a"], t["b"], t["shared"]], nontrivial=not (scalar(t["a"]) and scalar(t["b"])),
                 sample={k: t[k] for k in ("ty", "a", "b", "shared", "eq", "neq")} if i % 3001 == 17 else None)
    ctx.traces = 1
    ctx.extra["trace_lines"] = len(lines)
    ctx.exhaustive = True
    for b in bad[:40]:
        t = lines[b - 1]
        ctx.violation("= / <> on %s: a=%s b=%s shared=%s -> eq=%s neq=%s eqrev=%s panic=%s" % (
            t["ty"], json.dumps(t["a"]), json.dumps(t["b"]), t["shared"], t["eq"], t["neq"], t["eqrev"], t["panic"][:200]),
            {"pair": {k: t[k] for k in ("ty", "a", "b", "shared")}, "recorded": t})
    # (ii) end to end: Folang programs computing a = b / a <> b with the operands written as literals, variables and call results on either
    # side, transpiled by the real fc and run; the recorded traces are validated against FoSem (structural equality, strict, left first)
    from checks import c01
    from vlib import fogen
    progs = fogen.eq_kernels(1)
    texts, observed, pbad = c01.run_programs(ctx, progs)
    for p in progs:
        ctx.case(["e2e", fogen.to_spec(p)], nontrivial=True)
    ctx.extra["end_to_end_programs"] = len(progs)
    for idx, pos, exp in pbad[:20]:
        p = progs[idx]
        o = observed[p["id"]]
        got = o["events"][pos - 1] if pos <= len(o["events"]) else ["<end>", o["status"] + " " + o["result"]]
        ctx.violation("program p%d: at event %d the emitted program did %s, the semantics prescribes %s\n%s" % (
            p["id"], pos, json.dumps(got), exp, texts[idx][texts[idx].find("let p%dmain" % p["id"]):]),
            {"program": p, "text": texts[idx], "observed": o, "position": pos, "kind": "e2e"})
    ctx.assumptions += ["StructEq of FoEq.tla is structural equality (checked by TLC to be an equivalence that ignores representations)",
                        "values are decoded into the Go types fc emits for harness/drv_eq/eqtypes.fo; generic OpEqual is called at the static type"]


def replay(ctx, rep):
    if rep.get("kind") == "e2e":
        from checks import c01
        texts, observed, pbad = c01.run_programs(ctx, [rep["program"]])
        for idx, pos, exp in pbad:
            ctx.violation("program still behaves differently from the semantics", {"program": rep["program"], "kind": "e2e"})
        return
    lines, bad = run_pairs(ctx, pairs=[rep["pair"]])
    for b in bad:
        ctx.violation("= / <> wrong on replayed pair", {"pair": rep["pair"], "recorded": lines[b - 1]})
