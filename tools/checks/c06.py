"""C06: only relative indentation and line structure matter.
FoLayout.tla models the offside rule on indentation structure (TLC: the stack machine reconstructs every tree of <= N items under
every increment vector and noise, and a dedented last line leaves its block); FoLayoutCases.tla generates layout vectors for the
concrete layout documents (every single-point deviation from the canonical layout, plus seeded random full layouts); each layout
is rendered, transpiled by the real fc and must give the canonical layout's bytes; dedent cases must give the regrouped
document's bytes (FoLayoutTrace.tla)."""
import hashlib
import json
import os
import re

from vlib import core, slicecheck, fcutil, layoutdoc
from vlib.core import Infra

LEVEL = "model_checking"


def run_texts(ctx, items):
    """items: list of (name, text). returns dict name -> (rc, sha of gen or '', diag)"""
    wd = ctx.mkdir("c06")
    for name, text in items:
        with open(os.path.join(wd, name + ".fo"), "w") as f:
            f.write(text)
    res = fcutil.run_fc_many(ctx, wd, [n for n, _ in items])
    out = {}
    for name, _ in items:
        rc, so, se = res[name]
        g = os.path.join(wd, "gen_" + name + ".go")
        h = ""
        if os.path.exists(g):
            # the file name of the source is not part of the output; hash the bytes
            h = hashlib.sha256(open(g, "rb").read()).hexdigest()[:24]
            os.remove(g)
        out[name] = (rc, h, (so.splitlines()[-1] if so.strip() else se[-200:])[:200])
        os.remove(os.path.join(wd, name + ".fo"))
    return out


def run(ctx):
    ctx.rule = ("3 layout documents (49-115 decision points each: unions, records, functions, nested if / elif / else, let with block "
                "right-hand side, nested union and string matches, pipelines, lambdas); layouts: every single-point deviation from the "
                "canonical layout (systematic, enumerated by TLC) and seeded random full layouts (TLC simulation; 150 per document quick, "
                "6000 thorough); 4 dedent cases with their regrouped documents. distinct = distinct (document, layout vector); "
                "non-trivial = text differs from the canonical rendering")
    ctx.tlc("FoLayoutMC", "FoLayoutMC.cfg", workers=1, timeout=1800)
    docs = layoutdoc.docs()
    sd = ctx.spec_dir()
    canon = {}
    ar = {}
    for i, d in enumerate(docs):
        text, arity = d.render()
        canon[i] = text
        ar[i] = arity
    core.write_ndjson(os.path.join(sd, "layout_docs.ndjson"), [{"doc": i, "arity": ar[i]} for i in range(len(docs))])
    nrand = 6000 if ctx.tier == "thorough" else 150
    r = ctx.tlc("FoLayoutCases", "FoLayoutCases.cfg", workers=1, simulate="num=%d" % (nrand * len(docs)), depth=max(len(a) for a in ar.values()) + 4,
                seed=ctx.seed, timeout=3000)
    layouts = [(x["doc"], x["choices"]) for x in core.read_ndjson(os.path.join(sd, "layout_single.ndjson"))]
    n_single = len(layouts)
    for m in re.finditer(r'<<\s*"LAYOUT",\s*(\d+),\s*<<([^>]*)>>\s*>>', r["out"]):
        layouts.append((int(m.group(1)), [int(x) for x in re.findall(r"\d+", m.group(2))]))
    if len(layouts) == n_single:
        raise Infra("no random layout exported by the simulation")
    items = [("canon%d" % i, canon[i]) for i in range(len(docs))]
    meta = []
    seen = set()
    for k, (di, vec) in enumerate(layouts):
        if len(vec) != len(ar[di]):
            continue
        key = (di, tuple(vec))
        if key in seen:
            continue
        seen.add(key)
        text, _ = docs[di].render(vec)
        items.append(("l%d" % k, text))
        meta.append(("l%d" % k, di, vec, text))
    pairs = layoutdoc.dedent_pairs()
    for j, (name, A, B, A0) in enumerate(pairs):
        items += [("dA%d" % j, A), ("dB%d" % j, B)]
        if A0:
            items.append(("dZ%d" % j, A0))
    res = run_texts(ctx, items)
    for i in range(len(docs)):
        if res["canon%d" % i][0] != 0 or not res["canon%d" % i][1]:
            # the canonical layout is rejected.  If another layout of the same document is accepted the decision depends on the layout
            # (a verdict); if none is, the document does not fit this tree (no verdict).
            ok_alt = [(name, vec, text) for name, di, vec, text in meta if di == i and res[name][0] == 0 and res[name][1]]
            if ok_alt:
                name, vec, text = ok_alt[0]
                ctx.violation("document %s: the canonical layout is rejected (%s) while %d other layouts of the same document are accepted, e.g. vector %s" % (
                    docs[i].name, res["canon%d" % i][2], len(ok_alt), vec), {"doc": docs[i].name, "vec": vec, "text": text, "canonical": canon[i]})
                ctx.finish_early = True
            else:
                raise Infra("the canonical layout of document %s is not accepted by this tree: %s" % (docs[i].name, res["canon%d" % i][2]))
    if getattr(ctx, "finish_early", False):
        ctx.traces = len(meta)
        return
    lines = []
    for name, di, vec, text in meta:
        rc, h, diag = res[name]
        lines.append({"doc": docs[di].name, "vec": vec, "code": rc, "hash": h, "want": res["canon%d" % di][1], "diag": diag, "text": text,
                      "trivial": text == canon[di]})
    for j, (name, A, B, A0) in enumerate(pairs):
        a, b = res["dA%d" % j], res["dB%d" % j]
        # (if the re-indented reference is rejected as well, A is still judged: by the offside model the dedented line ends the inner
        #  block, so A is a valid program and must be accepted; its bytes are then compared with an empty reference and reported)
        lines.append({"doc": "dedent:" + name, "vec": [], "code": a[0], "hash": a[1], "want": b[1], "diag": a[2], "text": A, "trivial": False})
        if A0:
            z = res["dZ%d" % j]
            # the converse: before the dedent the line belonged to the inner block, i.e. the translation was a different one
            lines.append({"doc": "dedent-differs:" + name, "vec": [], "code": z[0], "hash": "differs" if (z[1] and z[1] != a[1]) else "", "want": "differs",
                          "diag": z[2], "text": A0, "trivial": False})
    core.write_ndjson(os.path.join(sd, "layout_trace.ndjson"), [{k: l[k] for k in ("code", "hash", "want")} for l in lines])
    r = ctx.tlc("FoLayoutTrace", "FoLayoutTrace.cfg", workers=1, timeout=3000, heap_gb=6)
    n, bad = slicecheck.parse_trace_end(r["out"])
    if n != len(lines):
        raise Infra("trace length mismatch")
    for i, l in enumerate(lines):
        ctx.case([l["doc"], l["vec"], l["text"] if not l["vec"] else ""], nontrivial=not l["trivial"],
                 sample={"doc": l["doc"], "layout_vector": l["vec"][:30], "first_lines": l["text"].split("\n")[:12]} if i % 173 == 50 else None)
    ctx.traces = len(lines)
    ctx.extra["decision_points"] = {docs[i].name: len(ar[i]) for i in range(len(docs))}
    ctx.extra["single_point_layouts"] = n_single
    ctx.exhaustive = False
    for b in bad[:25]:
        l = lines[b - 1]
        ctx.violation("layout of document %s changes the output (exit %d, %s): %s\n%s" % (
            l["doc"], l["code"], "different bytes" if l["hash"] else "no output", l["diag"], "\n".join(l["text"].split("\n")[:60])),
            {"doc": l["doc"], "vec": l["vec"], "text": l["text"], "want": l["want"]})
    ctx.assumptions += ["the layout grammar of tools/vlib/layoutdoc.py only makes the choices the property names; inside one block every statement uses the same indent string",
                        "tabs count as one column (fc measures columns in bytes), so a block is indented either with spaces or with tabs"]


def replay(ctx, rep):
    docs = {d.name: d for d in layoutdoc.docs()}
    items = [("r", rep["text"])]
    if rep["doc"] in docs:
        items.append(("c", docs[rep["doc"]].render()[0]))
    res = run_texts(ctx, items)
    want = res["c"][1] if "c" in res else rep["want"]
    if res["r"][0] != 0 or res["r"][1] != want:
        ctx.violation("layout still changes the output", {"doc": rep["doc"], "vec": rep.get("vec"), "text": rep["text"], "want": want})
