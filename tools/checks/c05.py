"""C05: transpilation is deterministic. The enumeration calls of a run are recorded through the dict hook (build tag verif);
TLC (FoDictOrderMC.tla) checks which consumers of an enumeration can depend on its order and enumerates the schedules with
at most B perturbed calls; every schedule is replayed on the real fc through the hook and must reproduce the canonical run
(exit status and byte-identical files); full reverse / rotate / random schedules and repeated runs of the un-hooked binary
(Go's own map randomisation) are added. Results are validated by TLC (FoDictOrderTrace.tla)."""
import hashlib
import json
import os
import shutil

from vlib import core, slicecheck, fcutil
from vlib.core import Infra

LEVEL = "model_checking"


def sha(p):
    with open(p, "rb") as f:
        return hashlib.sha256(f.read()).hexdigest()


def programs(ctx):
    progs = []
    for sub in ("c05", "c16"):
        d = os.path.join(core.VERIF, "corpus", sub)
        for fn in sorted(os.listdir(d)):
            if fn.endswith(".fo"):
                progs.append((sub + "/" + fn, [os.path.join(d, fn)]))
    sdir = os.path.join(ctx.repo, "samples")
    names = ["union_match.fo", "generic_func.fo", "type_inference.fo", "dict_sample.fo", "record.fo", "pkg_generics.fo", "shorthand_prop.fo"]
    if ctx.tier == "thorough":
        names = sorted(f for f in os.listdir(sdir) if f.endswith(".fo"))
    for fn in names:
        progs.append(("samples/" + fn, [os.path.join(sdir, fn)]))
    # the compiler's own sources: one run over the 12 files (many records / unions / package_info / inference variables)
    import re
    m = re.search(r"^\./fc\s+\$PKG_INFO\s+(.*)$", open(os.path.join(ctx.repo, "fc", "fc_all.sh")).read(), re.M)
    if m:
        progs.append(("fc/self", [os.path.join(ctx.repo, "fc", f) for f in m.group(1).split()]))
    return progs


class Runner:
    def __init__(self, ctx):
        self.ctx = ctx
        self.fc = ctx.build("fc")              # -tags verif: the hook is active
        self.fc_plain = ctx.build("fc", tags="")
        self.foi = os.path.join(ctx.repo, "pkg", "pkg_all.foi")
        self.n = 0
        import threading
        self.lock = threading.Lock()

    def run(self, files, sched=None, log=False, plain=False, stale=False):
        """copy the sources to a fresh dir, run fc there; returns dict(code, files: [[name, sha]], calls)"""
        with self.lock:
            self.n += 1
            k = self.n
        d = os.path.join(self.ctx.mkdir("c05"), "r%d" % k)
        os.makedirs(d)
        local = []
        for f in files:
            shutil.copy(f, d)
            local.append(os.path.basename(f))
        env = dict(core.GOENV)
        logf = os.path.join(d, "_calls.ndjson")
        if sched is not None:
            with open(os.path.join(d, "_sched.json"), "w") as fh:
                json.dump(sched, fh)
            env["FOLANG_VERIF_DICTSCHED"] = os.path.join(d, "_sched.json")
        if log:
            env["FOLANG_VERIF_DICTLOG"] = logf
        rc, so, se = core.sh([self.fc_plain if plain else self.fc, self.foi] + local, cwd=d, env=env, timeout=300)
        if stale:
            # the output files of that run are now damaged in place (same size, other letters) and fc runs again in the same directory:
            # what it leaves must not depend on files that were there before
            for fn in os.listdir(d):
                if fn.startswith("gen_"):
                    data = open(os.path.join(d, fn), "rb").read()
                    with open(os.path.join(d, fn), "wb") as fh:
                        fh.write(bytes((b ^ 1) if (65 <= b <= 90 or 97 <= b <= 122) else b for b in data))
            rc, so, se = core.sh([self.fc_plain if plain else self.fc, self.foi] + local, cwd=d, env=env, timeout=300)
        outs = sorted([fn, sha(os.path.join(d, fn))] for fn in os.listdir(d) if fn.startswith("gen_"))
        calls = core.read_ndjson(logf) if log and os.path.exists(logf) else []
        shutil.rmtree(d, ignore_errors=True)
        return {"code": rc, "files": outs, "calls": calls, "diag": so.splitlines()[-1][:200] if so.strip() else ""}


def to_sched(pairs, default="canon"):
    return {"default": default, "calls": {str(c): p for c, p in pairs}}


def run(ctx):
    ctx.rule = ("programs: corpus programs with several records sharing field names (plain and generic), many inference variables, a "
                "non-exhaustive match with several uncovered cases, several package_info blocks, samples, and fc's own 12 sources in one "
                "run; schedules: every schedule with at most B perturbed enumeration calls (B = 1; reverse / rotations / adjacent "
                "transpositions of the canonical order, enumerated by TLC from the recorded call sequence; sampled by seed in quick for "
                "long runs), full reverse / rotate / 5-20 random schedules, 10-40 runs of the un-hooked binary, and one run over stale output files of the same size. distinct = distinct "
                "(program, schedule); non-trivial = the schedule permutes at least one enumeration of >= 2 entries")
    R = Runner(ctx)
    progs = programs(ctx)
    sd = ctx.spec_dir()
    canon = {}
    callrows = []
    for i, (name, files) in enumerate(progs):
        c = R.run(files, sched={"default": "canon"}, log=True)
        canon[i] = c
        callrows.append({"prog": i, "calls": [r["n"] for r in c["calls"]]})
    # the self-compile makes thousands of calls: bounded schedules are enumerated for the others, it gets the global ones
    small = [r for r in callrows if len(r["calls"]) <= 400]
    core.write_ndjson(os.path.join(sd, "order_calls.ndjson"), small)
    slicecheck.write_cfg(ctx, "FoDictOrderMC_run.cfg", "CONSTANTS\n  CallsFile = \"order_calls.ndjson\"\n  OutFile = \"order_scheds.ndjson\"\n  B = 1\nINIT Init\nNEXT Next\n")
    ctx.tlc("FoDictOrderMC", "FoDictOrderMC_run.cfg", workers=1, timeout=3000, heap_gb=8)
    scheds = core.read_ndjson(os.path.join(sd, "order_scheds.ndjson"))
    jobs = []
    per_prog = {}
    for s in scheds:
        per_prog.setdefault(s["prog"], []).append(s["sched"])
    for p, lst in per_prog.items():
        if ctx.tier != "thorough" and len(lst) > 60:
            lst = ctx.rng.sample(lst, 60)
        for pairs in lst:
            jobs.append((p, "bounded", to_sched(pairs), False))
    nrand = 20 if ctx.tier == "thorough" else 5
    nplain = 40 if ctx.tier == "thorough" else 10
    for i, (name, files) in enumerate(progs):
        big = name == "fc/self"
        for d in ("rev", "rot:1", "swap:0"):
            jobs.append((i, "global", {"default": d}, False))
        for k in range(nrand if not big else 3):
            jobs.append((i, "global", {"default": "rand:%d" % (ctx.seed * 1000 + k)}, False))
        for k in range(nplain if not big else 4):
            jobs.append((i, "plain", None, True))
        jobs.append((i, "stale", None, True))

    def do(job):
        p, kind, sched, plain = job
        r = R.run(progs[p][1], sched=sched, plain=plain, stale=(kind == "stale"))
        return {"prog": p, "name": progs[p][0], "kind": kind, "sched": sched or {}, "code": r["code"], "files": r["files"],
                "canon": {"code": canon[p]["code"], "files": canon[p]["files"]}, "diag": r["diag"]}

    obs = core.pmap(do, jobs)
    core.write_ndjson(os.path.join(sd, "order_trace.ndjson"), [{k: o[k] for k in ("code", "files", "canon")} for o in obs])
    r = ctx.tlc("FoDictOrderTrace", "FoDictOrderTrace.cfg", workers=1, timeout=3000, heap_gb=6)
    n, bad = slicecheck.parse_trace_end(r["out"])
    if n != len(obs):
        raise Infra("trace length mismatch")
    for i, o in enumerate(obs):
        ctx.case([o["name"], o["kind"], o["sched"], i if o["kind"] == "plain" else 0], nontrivial=True,
                 sample={"program": o["name"], "schedule": o["sched"], "code": o["code"], "files": [f[0] for f in o["files"]]} if i % 211 == 3 else None)
    ctx.traces = len(obs)
    ctx.extra["program_names"] = [p[0] for p in progs]
    ctx.extra["enumeration_calls_per_program"] = {progs[r["prog"]][0]: len(r["calls"]) for r in callrows}
    ctx.extra["bounded_schedules_enumerated"] = len(scheds)
    ctx.exhaustive = False
    seen = set()
    for b in bad:
        o = obs[b - 1]
        key = (o["name"], o["kind"])
        if key in seen and len(seen) > 8:
            continue
        seen.add(key)
        diff = [f for f in o["files"] if f not in o["canon"]["files"]] + [f for f in o["canon"]["files"] if f not in o["files"]]
        ctx.violation("fc on %s under schedule %s (%s): exit %d vs canonical %d, differing files %s  %s" % (
            o["name"], json.dumps(o["sched"]), o["kind"], o["code"], o["canon"]["code"], sorted(set(f[0] for f in diff)), o["diag"]),
            {"program": o["name"], "sched": o["sched"], "kind": o["kind"], "recorded": o})
    ctx.assumptions += ["the hook canonicalises an enumeration by sorting on the printed key and then applies the scheduled permutation",
                        "diagnostic texts are not compared (the property fixes the files and the accept / reject decision)"]


def replay(ctx, rep):
    R = Runner(ctx)
    progs = dict(programs(ctx))
    files = progs.get(rep["program"])
    if not files:
        raise Infra("program not found: " + rep["program"])
    c = R.run(files, sched={"default": "canon"})
    for k in range(20 if rep["kind"] == "plain" else 1):
        r = R.run(files, sched=rep["sched"] or None, plain=rep["kind"] in ("plain", "stale"), stale=rep["kind"] == "stale")
        if r["code"] != c["code"] or r["files"] != c["files"]:
            ctx.violation("still differs", {"program": rep["program"], "sched": rep["sched"], "kind": rep["kind"]})
            return
