"""C11: literals. Abstract literals enumerated by TLC (FoLiteralCases.tla, which also checks the implementation pipeline model
against the denotation) plus seeded random and single-character families; each literal is a Folang function, transpiled by the
real fc, compiled by Go and run; the resulting bytes are validated by TLC against Denote (FoLiteralTrace.tla)."""
import json
import os
import re
import shutil

from vlib import core, slicecheck, fcutil
from vlib.core import Infra

LEVEL = "model_checking"

SPECIAL = {"sp": " ", "pct": "%", "bsl": "\\", "dq": '"', "bt": "`", "lb": "{", "rb": "}", "nl": "\n", "tab": "\t"}
REV = {v: k for k, v in SPECIAL.items()}
ARGS = '12, "q%", true'


def ch(name):
    if name in SPECIAL:
        return SPECIAL[name]
    if len(name) == 1:
        return name
    if name[0] == "c" and name[1:].isdigit():
        return chr(int(name[1:]))
    raise Infra("bad char name " + name)


def name_of(c):
    if c in REV:
        return REV[c]
    if "a" <= c <= "z":
        return c
    return "c%d" % ord(c)


def legal(form, seg):
    k, v = seg
    if k == "ch":
        bad = {"str": ("bsl", "dq", "nl"), "raw": ("bt",), "istr": ("bsl", "dq", "nl", "lb"), "iraw": ("bt", "lb")}[form]        # (a closing brace outside a hole is text)
        return v not in bad
    if k == "esc":
        return form in ("str", "istr")
    if k == "bres":
        return form == "istr"
    if k == "hole":
        return form in ("istr", "iraw")
    return False


def source(form, segs):
    out = []
    for k, v in segs:
        if k == "ch":
            out.append(ch(v))
        elif k in ("esc", "bres"):
            out.append("\\" + ch(v))
        elif k == "hole":
            out.append("{" + v + "}")
    body = "".join(out)
    return {"str": '"%s"', "raw": "`%s`", "istr": '$"%s"', "iraw": "$`%s`"}[form] % body


def render(k, form, segs):
    return "let l%d (x:int) (y:string) (z:bool) =\n  %s\n\n" % (k, source(form, segs))


def extra_cases(ctx):
    rng = ctx.rng
    cases = []
    singles = [chr(c) for c in range(32, 127)] + ["\n", "\t", "é", "日", "\U0001F600", " ", "Ж"]
    for form in ("str", "raw", "istr", "iraw"):
        for c in singles:
            seg = ["ch", name_of(c)]
            if legal(form, seg):
                cases.append({"form": form, "segs": [seg]})
                cases.append({"form": form, "segs": [["ch", "a"], seg, ["ch", "b"]]})
            elif form in ("str", "istr") and name_of(c) in ("bsl", "dq"):
                cases.append({"form": form, "segs": [["esc", name_of(c)]]})
            elif form == "istr" and name_of(c) in ("lb", "rb"):
                cases.append({"form": form, "segs": [["bres", name_of(c)]]})
        # holes at start / middle / end, adjacent, all three kinds
        if form in ("istr", "iraw"):
            for v in ("x", "y", "z"):
                cases.append({"form": form, "segs": [["hole", v]]})
                cases.append({"form": form, "segs": [["hole", v], ["ch", "a"]]})
                cases.append({"form": form, "segs": [["ch", "a"], ["hole", v]]})
                cases.append({"form": form, "segs": [["ch", "pct"], ["hole", v], ["ch", "pct"], ["ch", "s"]]})
                for w in ("x", "y", "z"):
                    cases.append({"form": form, "segs": [["hole", v], ["hole", w]]})
                    cases.append({"form": form, "segs": [["ch", "c49"], ["ch", "c48"], ["ch", "c48"], ["ch", "pct"], ["ch", "sp"], ["hole", v], ["ch", "sp"], ["hole", w], ["ch", "pct"], ["ch", "d"]]})
    # seeded random bodies
    alphabet = [["ch", n] for n in ("a", "b", "sp", "pct", "bsl", "dq", "bt", "lb", "rb", "nl", "tab", "c233", "c26085", "n", "s", "t", "d", "v",
                                    "c48", "c58", "c47", "c42", "c36", "c35", "c39", "c60", "c62")] + \
               [["esc", e] for e in ("n", "t", "bsl", "dq")] + [["bres", b] for b in ("lb", "rb")] + [["hole", v] for v in ("x", "y", "z")] * 2
    nrand = 20000 if ctx.tier == "thorough" else 500
    for _ in range(nrand):
        form = rng.choice(("str", "raw", "istr", "iraw"))
        ok = [s for s in alphabet if legal(form, s)]
        n = rng.randint(1, 40)
        cases.append({"form": form, "segs": [rng.choice(ok) for _ in range(n)]})
    return cases


def transpile_chunk(ctx, wd, idx, items):
    """items: (k, text). Writes lit<idx>.fo; returns (list of accepted (k), dict k -> rejection msg, gen path or None)"""
    fo = os.path.join(wd, "lit%d.fo" % idx)
    with open(fo, "w") as f:
        f.write("package main\n\nimport frt\n\nlet dummy%d (x:int) =\n  $\"{x}\"\n\n" % idx + "".join(t for _, t in items))
    gen = fcutil.gen_name(fo)
    if os.path.exists(gen):
        os.remove(gen)
    rc, so, se = fcutil.run_fc(ctx, [fo], timeout=300)
    if rc == 0 and os.path.exists(gen):
        return [([k for k, _ in items], gen)], {}
    msg = "fc exit %d: %s" % (rc, (so.splitlines()[-1] if so.strip() else se[-300:])[:300])
    if len(items) == 1:
        return [], {items[0][0]: msg}
    mid = len(items) // 2
    a1, r1 = transpile_chunk(ctx, wd, idx * 2 + 1000000, items[:mid])
    a2, r2 = transpile_chunk(ctx, wd, idx * 2 + 1000001, items[mid:])
    r1.update(r2)
    return a1 + a2, r1


def run_cases(ctx, cases):
    wd = ctx.mkdir("c11")
    ctx.build("fc")
    items = [(k, render(k, c["form"], c["segs"])) for k, c in enumerate(cases)]
    chunks = [items[i:i + 800] for i in range(0, len(items), 800)]
    parts = core.pmap(lambda a: transpile_chunk(ctx, wd, a[0], a[1]), list(enumerate(chunks)))
    status = {}
    gens = []
    for acc, rej in parts:
        gens += acc
        for k, m in rej.items():
            status[k] = m
    d = ctx.go_module("c11run", pkgs=("frt",))
    live = set()
    funcline = {}
    for ks, gen in gens:
        dst = os.path.join(d, os.path.basename(gen))
        shutil.copy(gen, dst)
        live.update(ks)
        starts = []
        for ln, line in enumerate(open(dst, errors="replace"), 1):
            m = re.match(r"func l(\d+)\(", line)
            if m:
                starts.append((ln, int(m.group(1))))
        funcline[os.path.basename(gen)] = starts
    for attempt in range(8):
        main = ["package main", "", "import \"fmt\"", "",
                "func emit(k int, f func() string) {",
                "\tdefer func() { if r := recover(); r != nil { fmt.Printf(\"L %d PANIC %x\\n\", k, []byte(fmt.Sprint(r))) } }()",
                "\tfmt.Printf(\"L %d OK %x\\n\", k, []byte(f()))", "}", "", "func main() {"]
        for k in sorted(live):
            main.append("\temit(%d, func() string { return l%d(%s) })" % (k, k, ARGS))
        main.append("}")
        with open(os.path.join(d, "main.go"), "w") as f:
            f.write("\n".join(main) + "\n")
        rc, so, se = ctx.go_build(d, out="c11run", timeout=1800, all_errors=True)
        if rc == 0:
            break
        # map compile errors to the literal functions they are in, drop those functions from main and from the files
        hit = set()
        for m in re.finditer(r"(gen_lit\d+\.go):(\d+):\d+: (.*)", so + se):
            fn, ln, msg = m.group(1), int(m.group(2)), m.group(3)
            starts = funcline.get(fn, [])
            owner = None
            for sl, k in starts:
                if sl <= ln:
                    owner = k
            if owner is not None and owner in live:
                hit.add(owner)
                status[owner] = "emitted Go does not compile: " + msg[:200]
        if not hit:
            raise Infra("go build of literal programs failed: " + (so + se)[-2000:])
        live -= hit
        # remove the offending functions from the generated files (so that the rest can be judged)
        for fn in funcline:
            p = os.path.join(d, fn)
            src = open(p, errors="replace").read()
            for k in hit:
                src = re.sub(r"func l%d\(.*?\n}\n" % k, "", src, flags=re.S)
            with open(p, "w") as f:
                f.write(src)
            funcline[fn] = [(ln, int(m.group(1))) for ln, line in enumerate(src.splitlines(), 1) for m in [re.match(r"func l(\d+)\(", line)] if m]
    else:
        raise Infra("go build of literal programs keeps failing")
    rc, so, se = core.sh([os.path.join(d, "c11run")], timeout=600)
    if rc != 0:
        raise Infra("literal program run failed: " + se[-2000:])
    got = {}
    for line in so.splitlines():
        p = line.split(" ")
        if len(p) == 4 and p[0] == "L":
            k = int(p[1])
            text = bytes.fromhex(p[3]).decode("utf8", "replace")
            if p[2] == "OK":
                got[k] = [name_of(c) for c in text]
            else:
                status[k] = "panic at run time: " + text[:200]
    lines = []
    for k, c in enumerate(cases):
        st = status.get(k, "ok" if k in got else "no output")
        lines.append({"form": c["form"], "segs": c["segs"], "status": st, "got": got.get(k, []), "src": source(c["form"], c["segs"])})
    sd = ctx.spec_dir()
    core.write_ndjson(os.path.join(sd, "lit_trace.ndjson"), [{k: l[k] for k in ("form", "segs", "status", "got")} for l in lines])
    r = ctx.tlc("FoLiteralTrace", "FoLiteralTrace.cfg", workers=1, timeout=3000, heap_gb=6)
    n, bad = slicecheck.parse_trace_end(r["out"])
    if n != len(lines):
        raise Infra("trace length mismatch")
    return lines, bad


def run(ctx):
    ctx.rule = ("abstract literals (form, segments: plain character / escape / brace escape / hole): every legal literal of <= L segments "
                "over the critical alphabet {a, space, %, \\, \", `, {, }, newline, tab, e-acute, n, s} + escapes + holes (TLC, L = 2 quick / 3 "
                "thorough), every printable ASCII character, newline, tab and 5 multi-byte characters alone and between letters in each "
                "form, holes of int / string / bool at start / middle / end and adjacent, seeded random bodies <= 40 segments; each is "
                "transpiled by the real fc, compiled and run; distinct = distinct (form, segments); non-trivial = contains a special "
                "character, escape or hole")
    sd = ctx.spec_dir()
    L = 3 if ctx.tier == "thorough" else 2
    slicecheck.write_cfg(ctx, "FoLiteralCases_run.cfg", "CONSTANTS\n  L = %d\n  OutFile = \"lit_cases.ndjson\"\nINIT Init\nNEXT Next\n" % L)
    ctx.tlc("FoLiteralCases", "FoLiteralCases_run.cfg", workers=1, timeout=3000, heap_gb=8)
    cases = core.read_ndjson(os.path.join(sd, "lit_cases.ndjson"))
    n_tlc = len(cases)
    cases += extra_cases(ctx)
    lines, bad = run_cases(ctx, cases)
    for i, l in enumerate(lines):
        nt = any(s[0] != "ch" or s[1] in SPECIAL or len(s[1]) > 1 for s in l["segs"])
        ctx.case([l["form"], l["segs"]], nontrivial=nt, sample={"src": l["src"], "got": "".join(ch(c) for c in l["got"])} if i % 997 == 5 else None)
    ctx.traces = len(lines)
    ctx.exhaustive = False
    ctx.extra["tlc_enumerated_literals"] = n_tlc
    for b in bad[:40]:
        l = lines[b - 1]
        ctx.violation("literal %s: status %s, value %r" % (l["src"], l["status"], "".join(ch(c) for c in l["got"])),
                      {"case": {"form": l["form"], "segs": l["segs"]}, "recorded": l})
    ctx.assumptions += ["hole variables: x = 12 (int), y = \"q%\" (string), z = true (bool); other hole value kinds are not drawn here",
                        "bodies that are not literals of the form (unescaped delimiter, lone backslash, unbalanced brace, raw newline in \"...\") are not generated"]


def replay(ctx, rep):
    lines, bad = run_cases(ctx, [rep["case"]])
    for b in bad:
        ctx.violation("literal still wrong", {"case": rep["case"], "recorded": lines[b - 1]})
