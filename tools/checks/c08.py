"""C08: operator grouping. Chains enumerated by TLC (FoPrecCases.tla), transpiled by the real fc, the emitted Go
expressions parsed back (goast) and validated by TLC against Machine/Declarative of FoPrec.tla."""
import json
import os

from vlib import core, slicecheck, fcutil
from vlib.core import Infra

LEVEL = "model_checking"

HEADER = "package main\n\nimport frt\n\n"
PARAMS = "(a:int) (b:int) (c:int) (d:int) (e:int) (x:int) (y:int) (f:int->int) (g:int->int) (h:int->int->int) (p:bool) (q:bool) (r:bool)"


def r_operand(t):
    k = t[0]
    if k == "atom":
        return t[1]
    if k == "app":
        inner = r_operand(t[2])
        return "%s %s" % (t[1], inner if t[2][0] == "atom" else "(" + inner + ")")
    if k == "not":
        return "not " + r_operand(t[1])
    if k == "paren":
        return "(" + r_chain(t[1], None) + ")"
    if k == "tup":
        return "(" + ", ".join(r_chain(c, None) for c in t[1]) + ")"
    if k == "sl":
        return "[" + "; ".join(r_chain(c, None) for c in t[1]) + "]"
    if k == "appn":
        return " ".join([t[1]] + [r_operand(x) if x[0] in ("atom", "paren", "tup", "sl") else "(" + r_operand(x) + ")" for x in t[2]])
    if k == "lam":
        return "fun %s -> %s" % (t[1], r_chain(t[2], None))
    if k == "ifx":
        return "if %s then %s else %s" % (r_chain(t[1], None), r_chain(t[2], None), r_chain(t[3], None))
    raise Infra("bad operand " + repr(t))


SPACING = {None: (" ", " "), "tight": ("", ""), "left": (" ", ""), "right": ("", " ")}


def r_chain(toks, brk, sp=None):
    """brk: index (into toks) of an operator before which the line is broken, or None; sp: spacing around the operators"""
    out = []
    before, after = SPACING[sp]
    for i, t in enumerate(toks):
        if i % 2 == 1:
            out.append(("\n  " if brk == i else before) + t + after)
        else:
            out.append(r_operand(t))
    return "".join(out)


def render(name, toks, brk, sp=None, params=None):
    return "let %s %s =\n  %s\n\n" % (name, params or PARAMS, r_chain(toks, brk, sp))


def transpile_chunk(ctx, wd, idx, funcs, tool="fc"):
    """funcs: list of (name, text). Returns dict name -> tree or ('rejected', msg). Bisects on rejection."""
    res = {}
    fo = os.path.join(wd, "ch%d.fo" % idx)
    with open(fo, "w") as f:
        f.write(HEADER + "".join(t for _, t in funcs))
    gen = fcutil.gen_name(fo)
    if os.path.exists(gen):
        os.remove(gen)
    if tool == "tinyfo":
        rc, so, se = core.sh([ctx.build("tinyfo"), fo], cwd=wd, timeout=600, env=dict(core.GOENV))
    else:
        rc, so, se = fcutil.run_fc(ctx, [fo], timeout=600)
    if rc == 0 and os.path.exists(gen):
        rows, perr = fcutil.goast(ctx, "exprs", gen)
        if rows is None:
            if len(funcs) == 1:
                return {funcs[0][0]: ("rejected", "emitted Go does not parse: " + perr)}
        else:
            got = {r["name"]: r for r in rows}
            for n, _ in funcs:
                if n in got and got[n]["nstmts"] == 1:
                    res[n] = got[n]["tree"]
                else:
                    res[n] = ("rejected", "function missing or not a single expression in emitted Go")
            return res
    if rc == 124:
        msg = "fc timed out"
    else:
        msg = (so.splitlines()[-1] if so.strip() else se[-300:])
    if len(funcs) == 1:
        return {funcs[0][0]: ("rejected", "fc exit %d: %s" % (rc, msg[:300]))}
    mid = len(funcs) // 2
    res.update(transpile_chunk(ctx, wd, idx * 2 + 1000000, funcs[:mid], tool))
    res.update(transpile_chunk(ctx, wd, idx * 2 + 1000001, funcs[mid:], tool))
    return res


def run_rows(ctx, rows, tool="fc", params=None):
    """rows: list of dict(toks, brk). Returns trace lines."""
    wd = ctx.mkdir("c08" + tool)
    ctx.build("fc")
    fcutil.build_goast(ctx)
    funcs = [("c%d" % i, render("c%d" % i, r["toks"], r.get("brk"), r.get("sp"), params)) for i, r in enumerate(rows)]
    chunks = [funcs[i:i + 1500] for i in range(0, len(funcs), 1500)]
    parts = core.pmap(lambda a: transpile_chunk(ctx, wd, a[0], a[1], tool), list(enumerate(chunks)))
    got = {}
    for p in parts:
        got.update(p)
    lines = []
    for i, r in enumerate(rows):
        g = got["c%d" % i]
        if isinstance(g, tuple):
            lines.append({"toks": r["toks"], "brk": r.get("brk") or 0, "sp": r.get("sp"), "status": g[1], "got": ["atom", "<none>"], "src": funcs[i][1]})
        else:
            lines.append({"toks": r["toks"], "brk": r.get("brk") or 0, "sp": r.get("sp"), "status": "ok", "got": g, "src": funcs[i][1]})
    sd = ctx.spec_dir()
    core.write_ndjson(os.path.join(sd, "prec_trace.ndjson"), [{k: l[k] for k in ("toks", "status", "got")} for l in lines])
    r = ctx.tlc("FoPrecTrace", "FoPrecTrace.cfg", workers=1, timeout=3000, heap_gb=6)
    n, bad = slicecheck.parse_trace_end(r["out"])
    if n != len(lines):
        raise Infra("trace length mismatch")
    return lines, bad


def run(ctx):
    ctx.rule = ("every chain of 1..4 operators over the 12 non-pipe operators between atoms (22,620 chains, exhaustive), plus applied / "
                "not-prefixed / parenthesised operand variants on chains of 1-2 operators, pipe combinations, one-line conditionals and lambdas as the last operand "
                "(their else branch / body takes every operator that follows; 1,400 chains), and variants with a line "
                "break before an operator, and chains of 1-2 operators over names and integer literals written without / with one-sided spaces around the operators (quick: before the last operator of every chain with >= 2 operators, sampled by seed for "
                "4-operator chains; thorough: every break position); each is a Folang function transpiled by the real fc, the emitted "
                "Go expression is parsed back and compared with the grouping of FoPrec.tla; distinct = distinct (chain, break); "
                "non-trivial = >= 2 operators")
    sd = ctx.spec_dir()
    slicecheck.write_cfg(ctx, "FoPrecCases_run.cfg", "CONSTANTS\n  N = 4\n  OutFile = \"prec_cases.ndjson\"\nINIT Init\nNEXT Next\n")
    ctx.tlc("FoPrecCases", "FoPrecCases_run.cfg", workers=1, timeout=3000, heap_gb=8)
    cases = core.read_ndjson(os.path.join(sd, "prec_cases.ndjson"))
    rows = []
    for c in cases:
        rows.append({"toks": c["toks"], "brk": None, "kind": c["kind"]})
        nops = len(c["toks"]) // 2
        if nops >= 2 or c["kind"] == "pipe":
            positions = [i for i in range(1, len(c["toks"]), 2)]
            if ctx.tier == "thorough":
                for p in positions:
                    rows.append({"toks": c["toks"], "brk": p, "kind": c["kind"]})
            else:
                if nops <= 3 or ctx.rng.random() < 0.15:
                    rows.append({"toks": c["toks"], "brk": positions[-1], "kind": c["kind"]})
                    if nops >= 2 and ctx.rng.random() < 0.3:
                        rows.append({"toks": c["toks"], "brk": positions[ctx.rng.randrange(len(positions))], "kind": c["kind"]})
    # spacing around the operators does not matter (a-1 is a - 1): chains of 1-2 operators whose operands are names or integer literals,
    # written without / with one-sided spaces.  (< > <= >= directly after a name would start type arguments: not in this family.)
    tightops = ["+", "-", "*", "/", "=", "<>", "&&", "||"]
    A = lambda x: ["atom", x]
    for sp in ("tight", "left", "right"):
        for op1 in tightops:
            for l, r in (("a", "b"), ("a", "1"), ("2", "b"), ("3", "4")):
                rows.append({"toks": [A(l), op1, A(r)], "brk": None, "kind": "spacing", "sp": sp})
            for op2 in tightops:
                for ops in (("a", "b", "c"), ("a", "1", "c"), ("a", "b", "2"), ("x", "1", "2")):
                    rows.append({"toks": [A(ops[0]), op1, A(ops[1]), op2, A(ops[2])], "brk": None, "kind": "spacing", "sp": sp})
        rows.append({"toks": [["app", "f", A("a")], "-", A("1")], "brk": None, "kind": "spacing", "sp": sp})
    lines, bad = run_rows(ctx, rows)
    for i, l in enumerate(lines):
        ctx.case([l["toks"], l["brk"], l.get("sp")], nontrivial=len(l["toks"]) >= 5,
                 sample={"src": l["src"].split("=\n", 1)[1].strip(), "got": l["got"]} if i % 9973 == 11 else None)
    ctx.traces = len(lines)
    ctx.exhaustive = True
    ctx.extra["plain_chains"] = sum(1 for c in cases if c["kind"] == "plain")
    ctx.extra["cases"] = len(cases)
    for b in bad[:40]:
        l = lines[b - 1]
        ctx.violation("operator chain grouped differently from the table (or rejected): %s  status=%s  emitted tree=%s" % (
            l["src"].split("=\n", 1)[1].strip().replace("\n", "\\n"), l["status"], json.dumps(l["got"])),
            {"row": {"toks": l["toks"], "brk": l["brk"] or None, "sp": l.get("sp")}, "recorded": l})
    ctx.assumptions += ["the emitted Go expression is read back with go/parser; Go's own grouping of the emitted text is what runs",
                        "fc does not type-check operators, so every chain over int parameters is a legal input (calibrated: all accepted on the pinned tree)"]


def replay(ctx, rep):
    lines, bad = run_rows(ctx, [rep["row"]])
    for b in bad:
        ctx.violation("chain still grouped wrongly", {"row": rep["row"], "recorded": lines[b - 1]})
