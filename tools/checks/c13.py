from vlib import slicecheck
LEVEL = "model_checking"
def run(ctx):
    slicecheck.c13(ctx)
def replay(ctx, rep):
    slicecheck.c13_replay(ctx, rep)
