"""C03: declarations and foreign calls follow the documented Go representation.
(A) FoRepr.tla defines, for every enumerated declaration shape, the Folang text and the documented Go surface as compile-time
    assertions; the real fc transpiles the declarations and the Go compiler checks the assertions against what was emitted.
(B) package_info signatures x application arity x direct / partial / piped / explicitly instantiated call forms: programs whose
    foreign functions (hand-written Go generated from the declared signature only) record the arguments they receive; the
    recorded traces are validated against the semantics (FoSem.tla: a foreign call records all arguments in source order)."""
import itertools
import json
import os
import re
import shutil

from vlib import core, fcutil, fogen, semrun, slicecheck
from vlib.core import Infra

LEVEL = "model_checking"

GOT = {"int": "int", "str": "string", "bool": "bool"}
FOT = {"int": "int", "str": "string", "bool": "bool"}
VAL = {"int": lambda i: {"k": "int", "v": i + 1}, "str": lambda i: {"k": "str", "v": "s%d" % i}, "bool": lambda i: {"k": "bool", "v": i % 2 == 0}}


# ------------------------------------------------------------------------------------------ part A
def part_a(ctx):
    sd = ctx.spec_dir()
    slicecheck.write_cfg(ctx, "FoReprCases_run.cfg", "CONSTANTS\n  OutFile = \"repr_cases.ndjson\"\n  Big = %s\nINIT Init\nNEXT Next\n" % ("TRUE" if ctx.tier == "thorough" else "FALSE"))
    ctx.tlc("FoReprCases", "FoReprCases_run.cfg", workers=1, timeout=3000, heap_gb=8)
    rows = core.read_ndjson(os.path.join(sd, "repr_cases.ndjson"))
    wd = ctx.mkdir("c03a")
    names = []
    for i, r in enumerate(rows):
        n = "d%d" % i
        with open(os.path.join(wd, n + ".fo"), "w") as f:
            f.write("package main\n\nimport frt\nimport dict\n\n" + r["fo"].replace("@", str(i)) +
                    "\nlet keep%d () =\n  let d = dict.New<string, int> ()\n  frt.Fst (1, d)\n" % i)
        names.append(n)
    res = fcutil.run_fc_many(ctx, wd, names)
    d = ctx.go_module("c03a_mod")
    status = {}
    live = []
    for i, r in enumerate(rows):
        rc, so, se = res["d%d" % i]
        gen = os.path.join(wd, "gen_d%d.go" % i)
        if rc != 0 or not os.path.exists(gen):
            status[i] = "fc rejects the declaration (exit %d): %s" % (rc, (so.splitlines()[-1] if so.strip() else se[-200:])[:200])
            continue
        shutil.copy(gen, os.path.join(d, "gen_d%d.go" % i))
        body = "\n".join(a.replace("@", str(i)) for a in r["asserts"])
        imports = "".join('import "github.com/karino2/folang/pkg/%s"\n' % pk for pk in ("frt", "dict") if (pk + ".") in body)
        with open(os.path.join(d, "client_d%d.go" % i), "w") as f:
            f.write("package main\n\n" + imports + "\n// compile-time assertions of the documented surface (from spec/FoRepr.tla)\n" +
                    "\n".join(a.replace("@", str(i)) for a in r["asserts"]) + "\n")
        live.append(i)
    with open(os.path.join(d, "main.go"), "w") as f:
        f.write("package main\n\nfunc main() {}\n")
    for attempt in range(8):
        rc, so, se = ctx.go_build(d, out="c03a", timeout=1800, all_errors=True)
        if rc == 0:
            break
        hit = {}
        for m in re.finditer(r"(?:client|gen)_d(\d+)\.go:\d+:\d+: (.*)", so + se):
            hit.setdefault(int(m.group(1)), m.group(2))
        hit = {k: v for k, v in hit.items() if k in live}
        if not hit:
            raise Infra("go build of the declaration cases failed for another reason: " + (so + se)[-2000:])
        for k, msg in hit.items():
            status[k] = "the emitted declaration does not have the documented surface: " + msg[:300]
            live.remove(k)
            os.remove(os.path.join(d, "gen_d%d.go" % k))
            os.remove(os.path.join(d, "client_d%d.go" % k))
    else:
        raise Infra("go build of the declaration cases keeps failing")
    return rows, status


# ------------------------------------------------------------------------------------------ part B
def call_programs(start):
    progs, gosrc = [], {}
    pid = start
    kinds = ["int", "str", "bool", "int"]
    ZERO = {"int": {"k": "int", "v": 0}, "string": {"k": "str", "v": ""}}
    for pkg, arity, res, gpos in itertools.product(["_", "ext"], [0, 1, 2, 3, 4], ["int", "unit"], [None, "last", "first", "result"]):
        generic = gpos is not None
        if generic and (pkg != "_" or arity < 1):
            continue
        if gpos == "result" and res == "unit":
            continue
        ptypes = [kinds[i % 4] for i in range(arity)]
        forms = ["full"] + ["partial%d" % k for k in range(1, arity)] + (["piped"] if arity >= 1 else [])
        for form in forms:
            for targ in (["int", "string", "any"] if generic else [None]):
                if targ == "any" and (form == "piped" or gpos == "result"):
                    continue        # an int value piped into a parameter of type `any` is not well typed in Folang; no value of type any
                base = "F%d" % pid if not generic else "G%d" % pid
                qual = base if pkg == "_" else "ext%d.%s" % (pid, base)
                sname = qual + ("<%s>" % targ if generic else "")
                ret = {"k": "int", "v": 7} if res == "int" else {"k": "unit"}
                if gpos == "result":
                    ret = ZERO[targ]
                ext = {"name": sname, "arity": arity, "ret": ret}
                T = lambda i: "p%dk%d" % (pid, i)
                vt = list(ptypes)
                tpos = {"last": arity - 1, "first": 0}.get(gpos)
                if tpos is not None:
                    # that parameter has the type parameter's type; the value is an int unless T = string
                    vt[tpos] = "str" if targ == "string" else "int"
                args = [{"k": "probe", "tag": T(i), "e": VAL[t](i)} for i, t in enumerate(vt)]
                pure = [VAL[t](i) for i, t in enumerate(vt)]
                app = lambda a: {"k": "app", "f": sname, "args": a or [{"k": "unit"}]}
                stmts = []
                if form == "full":
                    call = app(args)
                elif form.startswith("partial"):
                    k = int(form[7:])
                    stmts.append({"k": "let", "x": "h", "e": app(pure[:k])})
                    stmts.append({"k": "mark", "tag": T(9)})
                    call = {"k": "app", "f": "h", "args": args[k:]}
                else:
                    call = {"k": "pipe", "a": args[-1], "b": app(args[:-1]) if arity > 1 else {"k": "var", "x": sname}}
                if res == "int":
                    main = {"stmts": stmts, "fin": call}
                else:
                    main = {"stmts": stmts + [{"k": "expr", "e": call}], "fin": {"k": "int", "v": 1}}
                mtype = fogen.INT if (gpos != "result" or targ == "int") else fogen.STR
                prog = {"id": pid, "profile": "fc", "types": [], "funcs": [], "externs": [ext], "main": main, "mtype": mtype,
                        "meta": {"pkg": pkg, "arity": arity, "res": res, "generic": gpos or "", "form": form, "targ": targ or ""}}
                # the Folang declaration and the hand-written Go implementation, both from the declared signature only
                fts = [FOT[t] for t in ptypes]
                gts = [GOT[t] for t in ptypes]
                if tpos is not None:
                    fts[tpos], gts[tpos] = "T", "T"
                fres, gres = ("int", " int") if res == "int" else ("()", "")
                if gpos == "result":
                    fres, gres = "T", " T"
                sig = "->".join(fts or ["()"]) + "->" + fres
                decl = "package_info %s =\n  let %s%s: %s\n" % ("_" if pkg == "_" else "ext%d" % pid, base, "<T>" if generic else "", sig)
                params = ", ".join("a%d %s" % (i, g) for i, g in enumerate(gts))
                body = 'emitCall("call:%s"%s%s)' % (qual + ("<" if generic else ""), ' + typeArgName[T]() + ">"' if generic else "",
                                                    "".join(", a%d" % i for i in range(arity)))
                retstmt = "; return 7" if res == "int" else ""
                if gpos == "result":
                    retstmt = "; return *new(T)"
                if pkg == "_":
                    go = "func %s%s(%s)%s { %s%s }\n" % (base, "[T any]" if generic else "", params, gres, body, retstmt)
                else:
                    go = "var ext%d = struct{ %s func(%s)%s }{ %s: func(%s)%s { %s%s } }\n" % (
                        pid, base, ", ".join(gts), gres, base, params, gres, body, retstmt)
                prog["decl"] = decl
                gosrc["ext_p%d.go" % pid] = "package main\n\n" + go
                progs.append(prog)
                pid += 1
    # two blocks declaring the SAME short name with different signatures: package _ (unqualified) and a named package (qualified),
    # in both declaration orders; each call must reach its own function with all its arguments
    for order in ("own-first", "named-first"):
        base = "J%d" % pid
        own = {"name": base, "arity": 1, "ret": {"k": "int", "v": 7}}
        named = {"name": "ext%d.%s" % (pid, base), "arity": 2, "ret": {"k": "int", "v": 8}}
        T = lambda i: "p%dk%d" % (pid, i)
        main = {"stmts": [{"k": "let", "x": "a", "e": {"k": "app", "f": own["name"], "args": [{"k": "probe", "tag": T(0), "e": {"k": "str", "v": "x"}}]}},
                          {"k": "let", "x": "b", "e": {"k": "app", "f": named["name"], "args": [{"k": "probe", "tag": T(1), "e": {"k": "str", "v": "y"}},
                                                                                          {"k": "probe", "tag": T(2), "e": {"k": "str", "v": "z"}}]}}],
                "fin": {"k": "bin", "op": "+", "a": {"k": "var", "x": "a"}, "b": {"k": "var", "x": "b"}}}
        d_own = "package_info _ =\n  let %s: string->int\n" % base
        d_named = "package_info ext%d =\n  let %s: string->string->int\n" % (pid, base)
        prog = {"id": pid, "profile": "fc", "types": [], "funcs": [], "externs": [own, named], "main": main, "mtype": fogen.INT,
                "meta": {"pkg": "both", "arity": 2, "res": "int", "generic": "", "form": "clash:" + order, "targ": ""},
                "decl": (d_own + "\n" + d_named) if order == "own-first" else (d_named + "\n" + d_own)}
        gosrc["ext_p%d.go" % pid] = ("package main\n\nfunc %s(a0 string) int { emitCall(\"call:%s\", a0); return 7 }\n" % (base, base) +
                                      "var ext%d = struct{ %s func(string, string) int }{ %s: func(a0 string, a1 string) int { emitCall(\"call:ext%d.%s\", a0, a1); return 8 } }\n" % (
                                          pid, base, base, pid, base))
        progs.append(prog)
        pid += 1
    # explicit type arguments for a PREFIX of the type parameters (K<any> for K<T, U>): emitted as written, the rest is left to Go
    for form in ("full", "partial1", "piped"):
        base = "K%d" % pid
        sname = base + "<any>"
        ext = {"name": sname, "arity": 2, "ret": {"k": "int", "v": 7}}
        T = lambda i: "p%dk%d" % (pid, i)
        args = [{"k": "probe", "tag": T(0), "e": {"k": "int", "v": 3}}, {"k": "probe", "tag": T(1), "e": {"k": "str", "v": "s"}}]
        stmts = []
        if form == "full":
            call = {"k": "app", "f": sname, "args": args}
        elif form == "partial1":
            stmts.append({"k": "let", "x": "h", "e": {"k": "app", "f": sname, "args": [{"k": "int", "v": 3}]}})
            stmts.append({"k": "mark", "tag": T(9)})
            call = {"k": "app", "f": "h", "args": args[1:]}
        else:
            call = {"k": "pipe", "a": args[1], "b": {"k": "app", "f": sname, "args": args[:1]}}
        prog = {"id": pid, "profile": "fc", "types": [], "funcs": [], "externs": [ext], "main": {"stmts": stmts, "fin": call}, "mtype": fogen.INT,
                "meta": {"pkg": "_", "arity": 2, "res": "int", "generic": "prefix", "form": form, "targ": "any"},
                "decl": "package_info _ =\n  let %s<T, U>: T->U->int\n" % base}
        gosrc["ext_p%d.go" % pid] = ("package main\n\nfunc %s[T any, U any](a0 T, a1 U) int { emitCall(\"call:%s<\" + typeArgName[T]() + \">\", a0, a1); return 7 }\n" % (base, base))
        progs.append(prog)
        pid += 1
    return progs, gosrc


def render_call_prog(p):
    t = fogen.render(p)
    # explicit type arguments are written F<int>; the spec name carries them, the Folang text too
    return t.replace("package_info _ =\n  let Probe<T>", p["decl"] + "\npackage_info _ =\n  let Probe<T>", 1)


def part_b(ctx):
    progs, gosrc = call_programs(1)
    for p in progs:
        # in the Folang text the callee is written pkg.Name<targ>; rexpr prints app.f verbatim, which already has that form
        pass
    wd = ctx.mkdir("c03b")
    ctx.build("fc")
    texts = [render_call_prog(p) for p in progs]
    tr = semrun.transpile_all(ctx, wd, progs, texts)
    observed = {}
    ok_ids = []
    for p in progs:
        rc, diag = tr[p["id"]]
        if rc != 0:
            observed[p["id"]] = {"events": [], "status": "fc rejects the program (exit %d): %s" % (rc, diag), "result": ""}
        else:
            ok_ids.append(p["id"])
    # compile in batches; a program whose emitted call does not fit the hand-written implementation fails to compile
    traces, status = semrun.build_and_run(ctx, wd, ok_ids, "c03b", extra_go={k: v for k, v in gosrc.items() if int(k[5:-3]) in ok_ids})
    observed.update(traces)
    for k, msg in status.items():
        observed[k] = {"events": [], "status": msg, "result": ""}
    for p in progs:
        observed.setdefault(p["id"], {"events": [], "status": "no output", "result": ""})
    bad = semrun.validate(ctx, progs, observed)
    return progs, texts, observed, bad


def run(ctx):
    ctx.rule = ("(A) declaration shapes enumerated by TLC from FoRepr.tla: records of 1-3 fields over 9 field types (upper / lower case names), "
                "unions of 1-3 cases x payload / no payload x generic or not, top-level functions with 0-3 parameters (unit parameter, unit "
                "result, function / tuple / slice typed parameters), top-level variables; each transpiled by the real fc and checked "
                "against compile-time assertions of the documented surface. (B) package_info functions: package _ or named x arity 0-4 x "
                "int / unit result x generic (explicit type argument int / string / any) x call form (direct, every partial application "
                "bound to a local, piped). distinct = distinct cases; non-trivial = all (every case has a declaration and a client)")
    rows, status = part_a(ctx)
    for i, r in enumerate(rows):
        ctx.case(["decl", r["fo"]], nontrivial=True, sample={"folang": r["fo"], "assertions": r["asserts"][:3]} if i % 83 == 7 else None)
    for i in sorted(status)[:15]:
        ctx.violation("declaration case: %s\n%s\nassertions:\n%s" % (status[i], rows[i]["fo"].replace("@", str(i)), "\n".join(rows[i]["asserts"]).replace("@", str(i))),
                      {"part": "A", "case": rows[i], "status": status[i]})
    progs, texts, observed, bad = part_b(ctx)
    for i, p in enumerate(progs):
        ctx.case(["call", p["meta"]], nontrivial=True,
                 sample={"call": p["meta"], "events": observed[p["id"]]["events"], "status": observed[p["id"]]["status"]} if i % 37 == 5 else None)
    ctx.traces = len(progs)
    ctx.extra["declaration_cases"] = len(rows)
    ctx.extra["call_cases"] = len(progs)
    ctx.exhaustive = True
    for idx, pos, exp in bad[:15]:
        p = progs[idx]
        o = observed[p["id"]]
        got = o["events"][pos - 1] if pos <= len(o["events"]) else ["<end>", o["status"] + " " + o["result"]]
        main_txt = texts[idx][texts[idx].find("let p%dmain" % p["id"]):]
        ctx.violation("foreign call %s: at event %d the emitted program did %s, the specification prescribes %s\n%s%s" % (
            json.dumps(p["meta"]), pos, json.dumps(got), exp, p["decl"], main_txt), {"part": "B", "program": p, "text": texts[idx], "observed": o})
    ctx.assumptions += ["compile-time assertions type-check exactly when the emitted declarations have the documented surface (Go compiler trusted)",
                        "foreign implementations are generated from the declared signature only; a named package is provided as a package-level struct of functions"]


def replay(ctx, rep):
    run(ctx)
