"""C04: the checked-in generated Go is a fixed point of the self-hosted compiler (generations 1 and 2).
The harness really performs the chain in a scratch copy and logs one event per step with SHA-256 hashes; TLC validates the
log against the FoBootstrap machine (ordering, coverage, generation 2 built from generation 1's output) and reports the
differing / uncovered files."""
import difflib
import hashlib
import json
import os
import re
import shutil

from vlib import core, slicecheck
from vlib.core import Infra

LEVEL = "model_checking"


def sha(path):
    with open(path, "rb") as f:
        return hashlib.sha256(f.read()).hexdigest()


def gofmt(paths):
    rc, so, se = core.sh(["gofmt", "-w"] + paths, timeout=300)
    return rc, so + se


def fc_list(repo):
    """the recipe of fc/fc_all.sh: the .fo files in the order they are passed to fc"""
    txt = open(os.path.join(repo, "fc", "fc_all.sh")).read()
    m = re.search(r"^\./fc\s+\$PKG_INFO\s+(.*)$", txt, re.M)
    if not m:
        raise Infra("cannot read the recipe from fc/fc_all.sh")
    return m.group(1).split()


def listing(repo):
    rows = []
    flist = fc_list(repo)
    fcdir = os.path.join(repo, "fc")
    # every compiler source with a checked-in counterpart must be covered
    for fo in sorted(f for f in os.listdir(fcdir) if f.endswith(".fo")):
        gen = os.path.join(fcdir, "gen_" + fo[:-3] + ".go")
        if os.path.exists(gen):
            rows.append({"group": "fc", "file": fo, "hash": sha(gen), "in_recipe": fo in flist})
    sdir = os.path.join(repo, "samples")
    listed = [l.split(" ")[0] for l in open(os.path.join(sdir, "filelist.txt")).read().split("\n") if l.strip()]
    # (samples/*.fo that are NOT in filelist.txt are outside the property: the repository's recipe never regenerates them;
    #  on the pinned tree samples/gen_noarg_funcall.go is such a stale file)
    for fo in sorted(set(listed)):
        gen = os.path.join(sdir, "gen_" + fo[:-3] + ".go")
        rows.append({"group": "samples", "file": fo, "hash": sha(gen) if os.path.exists(gen) else "missing", "in_recipe": True})
    tdir = os.path.join(repo, "cmd", "build_sample_md")
    rows.append({"group": "tool", "file": "build_sample_md.fo", "hash": sha(os.path.join(tdir, "gen_build_sample_md.go")), "in_recipe": True})
    rows.append({"group": "readme", "file": "README.md", "hash": sha(os.path.join(sdir, "README.md")), "in_recipe": True})
    return rows, flist, listed


def generation(ctx, g, repo, fcbin, events, rows, flist, keep):
    """run the whole recipe with compiler fcbin in a fresh work copy; returns dir of the work copy"""
    work = ctx.path("gen%d" % g)
    shutil.copytree(repo, work)
    foi = os.path.join(work, "pkg", "pkg_all.foi")
    # --- compiler sources (the fc_all.sh recipe: one invocation, then go fmt)
    fcdir = os.path.join(work, "fc")
    for f in os.listdir(fcdir):
        if f.startswith("gen_") and f.endswith(".go"):
            os.remove(os.path.join(fcdir, f))
    rc, so, se = core.sh([fcbin, "../pkg/pkg_all.foi"] + flist, cwd=fcdir, timeout=600)
    if rc != 0:
        keep["fail"] = "generation %d compiler cannot transpile its own sources (exit %d): %s" % (g, rc, (so + se)[-600:])
        return None

    def emit_group(group, d, files):
        for fo in files:
            gen = os.path.join(d, "gen_" + fo[:-3] + ".go")
            events.append({"ev": "transpile", "g": g, "group": group, "file": fo, "hash": sha(gen) if os.path.exists(gen) else "missing"})
        gens = [os.path.join(d, "gen_" + fo[:-3] + ".go") for fo in files if os.path.exists(os.path.join(d, "gen_" + fo[:-3] + ".go"))]
        rc, msg = gofmt(gens) if gens else (0, "")
        if rc != 0:
            keep.setdefault("notes", []).append("gofmt failed in group %s generation %d: %s" % (group, g, msg[-300:]))
        events.append({"ev": "fmt", "g": g, "group": group,
                       "hashes": [{"group": group, "file": fo, "hash": sha(os.path.join(d, "gen_" + fo[:-3] + ".go")) if os.path.exists(os.path.join(d, "gen_" + fo[:-3] + ".go")) else "missing"} for fo in files]})
        for fo in files:
            events.append({"ev": "compare", "g": g, "group": group, "file": fo})
            keep["paths"][(g, group, fo)] = os.path.join(d, "gen_" + fo[:-3] + ".go")

    emit_group("fc", fcdir, [r["file"] for r in rows if r["group"] == "fc"])
    # --- samples (samples/myfc.sh per listed file)
    sdir = os.path.join(work, "samples")
    sfiles = [r["file"] for r in rows if r["group"] == "samples"]
    for fo in sfiles:
        gen = os.path.join(sdir, "gen_" + fo[:-3] + ".go")
        if os.path.exists(gen):
            os.remove(gen)
        core.sh([fcbin, "../pkg/pkg_all.foi", fo], cwd=sdir, timeout=120)
    emit_group("samples", sdir, sfiles)
    # --- the tool
    tdir = os.path.join(work, "cmd", "build_sample_md")
    os.remove(os.path.join(tdir, "gen_build_sample_md.go"))
    core.sh([fcbin, "../../pkg/pkg_all.foi", "build_sample_md.fo"], cwd=tdir, timeout=120)
    emit_group("tool", tdir, ["build_sample_md.fo"])
    # --- README.md through the tool rebuilt from the regenerated source
    readme = os.path.join(sdir, "README.md")
    os.remove(readme)
    rc, so, se = core.sh(["go", "build", "-o", "bsm", "."], cwd=tdir, timeout=600)
    if rc == 0:
        core.sh([os.path.join(tdir, "bsm"), "filelist.txt"], cwd=sdir, timeout=120)
    else:
        keep.setdefault("notes", []).append("regenerated build_sample_md does not build in generation %d: %s" % (g, (so + se)[-300:]))
    events.append({"ev": "transpile", "g": g, "group": "readme", "file": "README.md", "hash": sha(readme) if os.path.exists(readme) else "missing"})
    events.append({"ev": "fmt", "g": g, "group": "readme", "hashes": [{"group": "readme", "file": "README.md", "hash": sha(readme) if os.path.exists(readme) else "missing"}]})
    events.append({"ev": "compare", "g": g, "group": "readme", "file": "README.md"})
    keep["paths"][(g, "readme", "README.md")] = readme
    return work


def checked_in_path(repo, group, fo):
    if group == "fc":
        return os.path.join(repo, "fc", "gen_" + fo[:-3] + ".go")
    if group == "samples":
        return os.path.join(repo, "samples", "gen_" + fo[:-3] + ".go")
    if group == "tool":
        return os.path.join(repo, "cmd", "build_sample_md", "gen_build_sample_md.go")
    return os.path.join(repo, "samples", "README.md")


def run(ctx):
    ctx.rule = ("every Folang source with a checked-in generated counterpart (fc/*.fo via the fc_all.sh recipe, every sample listed in "
                "samples/filelist.txt, cmd/build_sample_md, samples/README.md via the rebuilt "
                "tool) x compiler generations 1 and 2; the chain is really executed; distinct = distinct (generation, file); "
                "non-trivial = non-empty output")
    repo = ctx.copy_repo()
    rows, flist, listed = listing(repo)
    sd = ctx.spec_dir()
    core.write_ndjson(os.path.join(sd, "boot_listing.ndjson"), [{k: r[k] for k in ("group", "file", "hash")} for r in rows])
    r = ctx.tlc("FoBootstrapMC", "FoBootstrap_mc.cfg", workers=8, timeout=1800)
    events = []
    keep = {"paths": {}}
    # a compiler source with a checked-in gen file that the recipe does not mention is a coverage violation
    for row in rows:
        if not row["in_recipe"]:
            ctx.violation("fc/%s has a checked-in generated file but is not in the fc_all.sh recipe" % row["file"], {"file": row["file"]})
    fc1 = ctx.build("fc", tags="")
    events.append({"ev": "build", "g": 1})
    w1 = generation(ctx, 1, repo, fc1, events, rows, flist, keep)
    if w1 is not None:
        # generation 2: built from generation 1's regenerated compiler files (+ the hand-written wrapper.go)
        b2 = ctx.path("build2")
        shutil.copytree(repo, b2)
        srcs = []
        for row in rows:
            if row["group"] == "fc":
                src = os.path.join(w1, "fc", "gen_" + row["file"][:-3] + ".go")
                dst = os.path.join(b2, "fc", "gen_" + row["file"][:-3] + ".go")
                if os.path.exists(src):
                    shutil.copy(src, dst)
                elif os.path.exists(dst):
                    os.remove(dst)            # generation 1 did not write this file (e.g. under another name): generation 2 is built without it
                srcs.append({"group": "fc", "file": row["file"], "hash": sha(dst) if os.path.exists(dst) else "missing"})
        fc2 = os.path.join(ctx.mkdir("bin"), "fc_gen2")
        rc, so, se = core.sh(["go", "build", "-o", fc2, "."], cwd=os.path.join(b2, "fc"), timeout=600)
        if rc != 0:
            keep["fail"] = "the compiler regenerated by generation 1 does not build: " + (so + se)[-800:]
        else:
            events.append({"ev": "build", "g": 2, "srcs": srcs})
            generation(ctx, 2, repo, fc2, events, rows, flist, keep)
    core.write_ndjson(os.path.join(sd, "boot_trace.ndjson"), events)
    r = ctx.tlc("FoBootstrapTrace", "FoBootstrapTrace.cfg", workers=1, timeout=1800, allow_fail=True)
    m = re.search(r'<<\s*"BOOT-END",\s*(\d+),\s*(\{.*?\}),\s*(\{.*?\})\s*>>', r["out"], re.S)
    if "Gen2FromGen1 is violated" in r["out"]:
        raise Infra("harness error: generation 2 was not built from generation 1's output")
    if not m or int(m.group(1)) != len(events):
        raise Infra("the bootstrap log was not accepted by the machine (ordering error in the harness?):\n" + r["out"][-3000:])
    differing = re.findall(r'<<(\d),\s*<<"([^"]+)",\s*"([^"]+)">>>>', m.group(2))
    uncovered = re.findall(r'<<(\d),\s*<<"([^"]+)",\s*"([^"]+)">>>>', m.group(3))
    for ev in events:
        if ev["ev"] == "compare":
            ctx.case([ev["g"], ev["group"], ev["file"]], nontrivial=True,
                     sample={"g": ev["g"], "file": ev["group"] + "/" + ev["file"]} if len(ctx.samples) < 4 and ev["file"] in ("parser.fo", "README.md") else None)
    ctx.traces = 1
    ctx.exhaustive = True
    ctx.extra["events"] = len(events)
    ctx.extra["listed"] = len(rows)
    ctx.extra["notes_from_run"] = keep.get("notes", [])
    if "fail" in keep:
        ctx.violation(keep["fail"], {"what": keep["fail"]})
    for g, group, fo in differing:
        p = keep["paths"].get((int(g), group, fo))
        ci = checked_in_path(repo, group, fo)
        diff = ""
        if p and os.path.exists(p) and os.path.exists(ci):
            a = open(ci, errors="replace").read().splitlines()
            b = open(p, errors="replace").read().splitlines()
            diff = "\n".join(list(difflib.unified_diff(a, b, "checked-in", "regenerated(gen %s)" % g, lineterm=""))[:40])
        ctx.violation("generation %s: regenerated %s/%s differs from the checked-in file\n%s" % (g, group, fo, diff),
                      {"generation": int(g), "group": group, "file": fo, "diff": diff})
    for g, group, fo in uncovered:
        if "fail" not in keep:
            ctx.violation("generation %s: %s/%s was never regenerated and compared" % (g, group, fo), {"generation": int(g), "group": group, "file": fo})
    ctx.assumptions += ["gofmt -w is `go fmt` for single files", "bytes are compared through SHA-256; the Go toolchain is trusted",
                        "the state space is one concrete run (the quantifier, 36 files x 2 generations, is finite and covered completely)"]


def replay(ctx, rep):
    run(ctx)
