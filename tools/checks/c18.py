"""C18: build_sample_md. Scenarios (list file shapes x file system) enumerated by TLC from FoSampleMdMC.tla (which model-checks
the tool's machine), staged in scratch directories and run through the real tool; the announced entries, the exit status and the
structure read back from README.md are validated by TLC (FoSampleMdTrace.tla)."""
import json
import os
import re
import shutil

from vlib import core, slicecheck
from vlib.core import Infra

LEVEL = "model_checking"

CONTENTS = {
    "plain": "package main\n\nlet f () =\n  1\n",
    "nonl": "no trailing newline",
    "fences": "```\ncode\n```\n",
    "hashes": "# heading\n### not a section\n\n",
    "empty": "",
    "percent": "let f () =\n  frt.Printf1 \"%d%% of %s\\n\" 1\n",
    "crlf": "package main\r\n\r\nlet s = `x\r\ny`\r\nlet t = \"lone\rcr\"\n",
}
OLD = {"long": "OLD README LINE\n" * 400}

HEAD = re.compile(r"##[ \t]*Folang Sample[ \t]*\n")
TITLE = re.compile(r"#{1,6} ([^\n]*)\n\s*```[^\n`]*\n")
CLOSE = re.compile(r"\n?```[ \t]*\n\s*[^\n]*\]\((?:\./)?([^)\s]+)\)[^\n]*(?:\n|$)\s*")


def parse_sections(text, pos):
    """list of [title, content id, link] or None; contents are recognised verbatim (longest first, with backtracking)"""
    if pos >= len(text):
        return []
    m = TITLE.match(text, pos)
    if not m:
        return None
    p = m.end()
    for cid in sorted(CONTENTS, key=lambda c: -len(CONTENTS[c])):
        c = CONTENTS[cid]
        if text.startswith(c, p):
            m2 = CLOSE.match(text, p + len(c))
            if m2:
                rest = parse_sections(text, m2.end())
                if rest is not None:
                    return [{"title": m.group(1), "content": cid, "link": m2.group(1)}] + rest
    return None


def read_readme(path, old):
    if not os.path.exists(path):
        return ["absent"]
    text = open(path, encoding="utf8", errors="replace", newline="").read()        # (no newline translation: bytes are bytes)
    if old != "absent" and text == OLD[old]:
        return ["old", old]
    m = HEAD.match(text)
    if not m:
        return ["garbled", "header missing"]
    p = m.end()
    while p < len(text) and text[p] in " \t\n":
        p += 1
    secs = parse_sections(text, p)
    if secs is None:
        return ["garbled", text[:400]]
    return ["written", secs]


def line_text(ln):
    if ln["blank"]:
        return ""
    return ln["file"] + ((" " + ln["rest"]) if ln["sp"] else "")


def stage_and_run(ctx, tool, k, sc):
    d = os.path.join(ctx.mkdir("c18"), "s%d" % k)
    os.makedirs(d)
    for f, cid in sc["fs"].items():
        with open(os.path.join(d, f), "w", newline="") as fh:
            fh.write(CONTENTS[cid])
    if any(l["file"] == "dir.fo" for l in sc["lines"]):
        os.makedirs(os.path.join(d, "dir.fo"))          # a listed entry that exists but cannot be read as a file
    with open(os.path.join(d, "filelist.txt"), "w") as fh:
        fh.write("\n".join(line_text(l) for l in sc["lines"]) + ("\n" if sc["eofnl"] else ""))
    if sc["old"] != "absent":
        with open(os.path.join(d, "README.md"), "w") as fh:
            fh.write(OLD[sc["old"]])
        if k % 2 == 1:
            # every other scenario with a README already present: the stale README has exactly the SIZE of the one to be written (what an
            # earlier run over a slightly different list or sample leaves behind) - produced by a first run in a twin directory
            d2 = d + "_first"
            shutil.copytree(d, d2)
            os.remove(os.path.join(d2, "README.md"))
            rc1, _, _ = core.sh([tool, os.path.join(d2, "filelist.txt")], cwd=ctx.scratch, timeout=60)
            r1 = os.path.join(d2, "README.md")
            if rc1 == 0 and os.path.exists(r1):
                data = open(r1, "rb").read()
                stale = bytes((b ^ 1) if (65 <= b <= 90 or 97 <= b <= 122) else b for b in data)       # same length, other letters
                if stale != data:
                    with open(os.path.join(d, "README.md"), "wb") as fh:
                        fh.write(stale)
            shutil.rmtree(d2, ignore_errors=True)
    rc, so, se = core.sh([tool, os.path.join(d, "filelist.txt")], cwd=ctx.scratch, timeout=60)
    procs = [l[len("process: "):] for l in so.splitlines() if l.startswith("process: ")]
    readme = read_readme(os.path.join(d, "README.md"), sc["old"])
    shutil.rmtree(d, ignore_errors=True)
    return {"sc": sc, "procs": procs, "code": rc, "readme": readme, "stderr": se[-300:]}


def run_scenarios(ctx, scs):
    tool = ctx.build("build_sample_md")
    obs = core.pmap(lambda a: stage_and_run(ctx, tool, a[0], a[1]), list(enumerate(scs)))
    sd = ctx.spec_dir()
    events = []
    first = []
    for o in obs:
        first.append(len(events) + 1)
        events.append({"ev": "start", "sc": o["sc"]})
        for f in o["procs"]:
            events.append({"ev": "process", "file": f})
        events.append({"ev": "exit", "code": o["code"], "readme": o["readme"]})
    core.write_ndjson(os.path.join(sd, "md_trace.ndjson"), events)
    r = ctx.tlc("FoSampleMdTrace", "FoSampleMdTrace.cfg", workers=1, timeout=3000, heap_gb=6)
    n, badev = slicecheck.parse_trace_end(r["out"])
    if n != len(events):
        raise Infra("trace length mismatch")
    # map rejected events back to the run they belong to
    import bisect
    bad = sorted(set(bisect.bisect_right(first, b) for b in badev))
    return obs, bad


def run(ctx):
    ctx.rule = ("scenarios enumerated by TLC (FoSampleMdMC.tla): list files with 0..N entries over 6 file names (bases ending in f / o / ., a "
                "name without .fo, a name with %, a missing file, a directory) x titles (none, one word, several words with double spaces, leading space, empty after "
                "the space, with % directives, with markdown / brace / backtick characters) x blank-line placement x final newline x a pre-existing README.md (longer, or stale with exactly the size of the new one); file contents: ordinary source, no "
                "trailing newline, containing ``` fences, containing # lines, empty, with CR LF line ends and a lone CR. Each scenario is one run of the real tool in a staged "
                "directory. distinct = distinct scenarios; non-trivial = >= 1 entry")
    sd = ctx.spec_dir()
    n = 3 if ctx.tier == "thorough" else 2
    slicecheck.write_cfg(ctx, "FoSampleMd_run.cfg",
                         "CONSTANTS\n  MaxEntries = %d\n  OutFile = \"md_cases.ndjson\"\nSPECIFICATION Spec\nINVARIANTS Complete NoPartial FailsIffUnreadable\nCHECK_DEADLOCK FALSE\n" % n)
    ctx.tlc("FoSampleMdMC", "FoSampleMd_run.cfg", workers=4, timeout=3000, heap_gb=8)
    # unbounded: Complete / NoPartial / FailsIffUnreadable as consequences of an inductive invariant, for every list file and file system
    ctx.extra["tlaps_obligations_proved_FoSampleMdProof"] = ctx.tlapm("FoSampleMdProof")
    scs = core.read_ndjson(os.path.join(sd, "md_cases.ndjson"))
    obs, bad = run_scenarios(ctx, scs)
    for i, o in enumerate(obs):
        ents = [l for l in o["sc"]["lines"] if not l["blank"]]
        ctx.case(o["sc"], nontrivial=len(ents) >= 1,
                 sample={"list": [line_text(l) for l in o["sc"]["lines"]], "code": o["code"], "readme": o["readme"]} if i % 307 == 11 else None)
    ctx.traces = len(obs)
    ctx.exhaustive = True
    for b in bad[:40]:
        o = obs[b - 1]
        ctx.violation("build_sample_md on list %s (old README: %s): exit %d, announced %s, README %s" % (
            json.dumps([line_text(l) for l in o["sc"]["lines"]]), o["sc"]["old"], o["code"], o["procs"], json.dumps(o["readme"])[:500]),
            {"scenario": o["sc"], "recorded": o})
    ctx.assumptions += ["README.md is read back structurally (header line, per section: heading text, fenced content recognised verbatim among the "
                        "staged contents, link target), so cosmetic changes of spacing do not matter",
                        "the announced entries are the `process: <file>` lines the tool prints"]


def replay(ctx, rep):
    obs, bad = run_scenarios(ctx, [rep["scenario"]])
    for b in bad:
        ctx.violation("scenario still handled wrongly", {"scenario": rep["scenario"], "recorded": obs[b - 1]})
