"""C17: tinyfo preserves behaviour on the early-Folang subset. Same specification (spec/FoSem.tla) and pipeline as C01 with the
generator restricted to the tinyfo profile and the binary built from tinyfo/; every program also goes through fc and the two
recorded traces are compared directly."""
import json
import os
import random

from vlib import slicecheck, core, fogen, semrun
from vlib.core import Infra

LEVEL = "model_checking"


def reduced_foi(ctx, wd):
    """tinyfo cannot read today's pkg_all.foi (dict section): the frt / slice / strings sections of the working tree's file"""
    foi = open(os.path.join(ctx.repo, "pkg", "pkg_all.foi")).read()
    parts = foi.split("package_info ")
    keep = [p for p in parts if p.startswith(("frt", "slice", "strings"))]
    path = os.path.join(wd, "tiny.foi")
    with open(path, "w") as f:
        f.write("".join("package_info " + p for p in keep))
    return path


def tiny_kernels(start):
    """the C01 kernels that lie inside the tinyfo subset, with monomorphic probes"""
    out = []
    for p in fogen.kernels(start):
        if p.get("meta", {}).get("family") == "eq":
            continue              # the end-to-end equality family of C10 (calibrated for fc only)
        txt = json.dumps(p)
        if any(x in txt for x in ('"lam"', '"smatch"', '"letfun"', '"tparams"', '"op": "*"', '"tuple", "es": [{"k": "probe"', '"slice", "es": [{"k": "probe"')):
            continue
        if p.get("mtype") not in (fogen.INT, fogen.STR, fogen.BOOL):
            continue

        def fix(n):
            if isinstance(n, dict):
                if n.get("k") == "probe":
                    k = n["e"].get("k")
                    n["pt"] = {"int": "I", "bool": "B", "str": "S"}.get(k, "")
                    if not n["pt"]:
                        return False
                return all(fix(v) for v in n.values())
            if isinstance(n, list):
                return all(fix(v) for v in n)
            return True
        if not fix(p):
            continue
        p["profile"] = "tinyfo"
        out.append(p)
    return out


def run_one_side(ctx, wd, progs, texts, transpiler, foi=None, tag=""):
    tr = semrun.transpile_all(ctx, wd, progs, texts, transpiler=transpiler, foi=foi)
    observed = {}
    ok_ids = []
    for p in progs:
        rc, diag = tr[p["id"]]
        if rc != 0:
            observed[p["id"]] = {"events": [], "status": "%s rejects the program (exit %d): %s" % (transpiler, rc, diag), "result": ""}
        else:
            ok_ids.append(p["id"])
    batches = [ok_ids[i:i + 250] for i in range(0, len(ok_ids), 250)]
    results = core.pmap(lambda a: semrun.build_and_run(ctx, wd, a[1], "%s%d" % (tag, a[0])), list(enumerate(batches)), workers=4)
    for traces, status in results:
        observed.update(traces)
        for k, msg in status.items():
            observed[k] = {"events": [], "status": msg, "result": ""}
    for p in progs:
        observed.setdefault(p["id"], {"events": [], "status": "no output", "result": ""})
    return observed


def run_programs(ctx, progs):
    ctx.build("tinyfo")
    ctx.build("fc")
    texts = [fogen.render(p) for p in progs]
    wt = ctx.mkdir("c17t")
    wf = ctx.mkdir("c17f")
    foi = reduced_foi(ctx, wt)
    obs_t = run_one_side(ctx, wt, progs, texts, "tinyfo", foi=foi, tag="t")
    obs_f = run_one_side(ctx, wf, progs, texts, "fc", tag="f")
    bad = semrun.validate(ctx, progs, obs_t)
    return texts, obs_t, obs_f, bad


def prec_part(ctx):
    """operator grouping in tinyfo: every chain of 1-3 operators of the subset (+ - < > <= >= = <> && ||) between names, written WITHOUT
    parentheses (the program generator parenthesises every operand), transpiled by tinyfo; the emitted Go expression must have the
    grouping of the published table (spec/FoPrec.tla, the same oracle as C08)"""
    from checks import c08
    sd = ctx.spec_dir()
    slicecheck.write_cfg(ctx, "FoPrecCases_tiny.cfg", "CONSTANTS\n  N = 3\n  OutFile = \"prec_cases_tiny.ndjson\"\nINIT Init\nNEXT Next\n")
    ctx.tlc("FoPrecCases", "FoPrecCases_tiny.cfg", workers=1, timeout=3000, heap_gb=8)
    cases = core.read_ndjson(os.path.join(sd, "prec_cases_tiny.ndjson"))
    allowed = {"+", "-", "<", ">", "<=", ">=", "=", "<>", "&&", "||"}
    rows = [{"toks": c["toks"], "brk": None, "kind": "plain"} for c in cases
            if c["kind"] == "plain" and all(t in allowed for t in c["toks"][1::2])]
    lines, bad = c08.run_rows(ctx, rows, tool="tinyfo", params="(a:int) (b:int) (c:int) (d:int) (e:int)")
    ctx.extra["tinyfo_operator_chains"] = len(lines)
    for i, l in enumerate(lines):
        ctx.case(["prec", l["toks"]], nontrivial=len(l["toks"]) >= 5)
    for b in bad[:20]:
        l = lines[b - 1]
        ctx.violation("tinyfo groups an operator chain differently from the table (or rejects it): %s  status=%s  emitted tree=%s" % (
            l["src"].split("=\n", 1)[1].strip(), l["status"], json.dumps(l["got"])), {"row": {"toks": l["toks"]}, "recorded": l, "kind": "prec"})


LAYOUT_HEAD = """package main

import frt

package_info _ =
  let Mark: string->()

type P%(id)dL =
  | P%(id)dQ
  | P%(id)dW of int

"""


def layout_programs():
    """nested `if` without else as the last expression of a multi-line `then` block, followed by an `else` / `elif` line dedented to
    the OUTER if's column (the dangling-else layout), in every combination of: enclosing construct (function body / match arm / then
    block of a third if / after a let), a statement before the inner if, inline or multi-line inner if, indentation of the else body,
    else or elif, a statement after the whole if.  fc's translation is the prescription (property text); nothing here is compared
    with spec/FoSem.tla because on this layout fc itself is the subject of the C01 known finding dangling-else-inner-if-only"""
    out = []
    pid = 0
    for ctxk in ("fun", "arm", "if3", "let"):
        for pre in (False, True):
            for inline in (False, True):
                for ebody in (1, 2, 4, 6):
                    for kw in ("else", "elif"):
                        for post in (False, True):
                            pid += 1
                            t = lambda k: '"p%dt%d"' % (pid, k)
                            base = {"fun": 2, "arm": 4, "if3": 4, "let": 2}[ctxk]
                            sp = " " * base
                            L = []
                            L.append("let p%df (a: bool) (b: bool) (c: bool) (l: P%dL) =" % (pid, pid))
                            if ctxk == "arm":
                                L += ["  match l with", "  | P%dQ ->" % pid, "    Mark %s" % t(1), "  | P%dW n ->" % pid]
                            elif ctxk == "if3":
                                L += ["  if c then"]
                            elif ctxk == "let":
                                L += ["  let k = 3", "  Mark %s" % t(1)]
                            L.append(sp + "if a then")
                            if pre:
                                L.append(sp + "  Mark %s" % t(2))
                            if inline:
                                L.append(sp + "  if b then Mark %s" % t(3))
                            else:
                                L += [sp + "  if b then", sp + "    Mark %s" % t(3)]
                            L.append(sp + ("else" if kw == "else" else "elif c then"))
                            L.append(sp + " " * ebody + "Mark %s" % t(4))
                            if post:
                                L.append(sp + "Mark %s" % t(5))
                            L.append("")
                            L.append("let p%dmain () =" % pid)
                            n = 10
                            for a in ("true", "false"):
                                for b in ("true", "false"):
                                    for c in ("true", "false"):
                                        for l in ("P%dQ" % pid, "(P%dW 3)" % pid):
                                            n += 1
                                            L.append("  Mark %s" % t(n))
                                            L.append("  p%df %s %s %s %s" % (pid, a, b, c, l))
                            L.append("  1")
                            out.append(({"id": pid, "profile": "tinyfo-layout", "shape": [ctxk, pre, inline, ebody, kw, post]},
                                        LAYOUT_HEAD % {"id": pid} + "\n".join(L) + "\n"))
    return out


def layout_part(ctx, only=None):
    lp = layout_programs()
    if only is not None:
        lp = [x for x in lp if x[0]["shape"] == only]
    progs = [x[0] for x in lp]
    texts = [x[1] for x in lp]
    ctx.build("tinyfo")
    ctx.build("fc")
    wt = ctx.mkdir("c17lt")
    wf = ctx.mkdir("c17lf")
    foi = reduced_foi(ctx, wt)
    obs_t = run_one_side(ctx, wt, progs, texts, "tinyfo", foi=foi, tag="lt")
    obs_f = run_one_side(ctx, wf, progs, texts, "fc", tag="lf")
    both = 0
    nv = 0
    for p, txt in zip(progs, texts):
        t, f = obs_t[p["id"]], obs_f[p["id"]]
        ok = t["status"] in ("ok", "panic") and f["status"] in ("ok", "panic")
        ctx.case(["layout", p["shape"]], nontrivial=ok)
        if not ok:
            continue              # one of the two rejects the layout: outside the subset, or no prescription
        both += 1
        if t["events"] != f["events"] or t["status"] != f["status"] or t["result"] != f["result"]:
            nv += 1
            if nv <= 5:
                ctx.violation("dangling-else layout %s: the Go emitted by tinyfo and by fc behave differently\n%s" % (json.dumps(p["shape"]), txt),
                              {"kind": "layout", "shape": p["shape"], "text": txt, "tinyfo": t, "fc": f})
    ctx.extra["layout_programs"] = len(progs)
    ctx.extra["layout_programs_both_accept"] = both
    if only is None and both < 20:
        raise core.Infra("the dangling-else layout family is vacuous: only %d programs accepted by both transpilers" % both)


def run(ctx):
    ctx.rule = ("well-typed programs of the tinyfo subset from the seeded generator restricted to that profile (annotated functions, "
                "+ - comparisons && || not, if / elif / else, if without else, non-generic records and unions with match (bind / ignore / "
                "default), slices through variables, pairs and destructuring, pipes, partial application, package_info calls incl. "
                "monomorphic probes) plus the C01 kernels inside the subset; quick 300, thorough 15000 random programs; each transpiled by "
                "tinyfo AND by fc. distinct = distinct programs; non-trivial = the specified trace has >= 2 events. Outside the profile "
                "(calibrated on the pinned tree): lambdas, * /, interpolation, string match, inner functions, generic probes, slice "
                "literals as arguments, a let whose right-hand side starts on the next line.  Plus every chain of 1-3 operators of the subset "
                "between names, written without parentheses, through tinyfo: grouping as in spec/FoPrec.tla (1,110 chains).  Plus the dangling-else layout family (256 hand-laid programs: an if without else ending the then block of another if, followed by a dedented else / elif), tinyfo against fc only, compared where both accept")
    n = 15000 if ctx.tier == "thorough" else 300
    rng = random.Random(ctx.seed * 104729 + 17)
    progs = [fogen.generate(rng, i + 1, profile="tinyfo", size=rng.randint(1, 4)) for i in range(n)]
    progs += tiny_kernels(n + 1)
    texts, obs_t, obs_f, bad = run_programs(ctx, progs)
    for i, p in enumerate(progs):
        o = obs_t[p["id"]]
        ctx.case(fogen.to_spec(p), nontrivial=len(o["events"]) >= 2,
                 sample={"program": texts[i][texts[i].find("let p%dmain" % p["id"]):][:300], "events": o["events"][:5], "status": o["status"]} if i % 97 == 5 else None)
    prec_part(ctx)
    layout_part(ctx)
    ctx.traces = len(progs)
    ctx.extra["events_validated"] = sum(len(o["events"]) for o in obs_t.values())
    ctx.exhaustive = False
    nviol = 0
    for idx, pos, exp in bad[:20]:
        p = progs[idx]
        o = obs_t[p["id"]]
        got = o["events"][pos - 1] if pos <= len(o["events"]) else ["<end>", o["status"] + " " + o["result"]]
        ctx.violation("program p%d (tinyfo): at event %d the emitted program did %s, the semantics prescribes %s\n%s" % (
            p["id"], pos, json.dumps(got), exp, texts[idx]), {"program": p, "text": texts[idx], "observed": o, "position": pos})
    badids = set(progs[idx]["id"] for idx, _, _ in bad)
    for i, p in enumerate(progs):
        t, f = obs_t[p["id"]], obs_f[p["id"]]
        if p["id"] not in badids and f["status"] in ("ok", "panic") and (t["events"] != f["events"] or t["status"] != f["status"] or t["result"] != f["result"]):
            nviol += 1
            if nviol <= 10:
                ctx.violation("program p%d: the Go emitted by tinyfo and by fc behave differently\n%s" % (p["id"], texts[i]),
                              {"program": p, "text": texts[i], "tinyfo": t, "fc": f})
    ctx.assumptions += ["spec/FoSem.tla is the intended semantics; the subset is calibrated on the pinned tree (what tinyfo accepts)",
                        "tinyfo is given the frt / slice / strings sections of pkg/pkg_all.foi (it cannot parse the dict section)"]


def replay(ctx, rep):
    if rep.get("kind") == "prec":
        prec_part(ctx)
        return
    if rep.get("kind") == "layout":
        layout_part(ctx, only=rep["shape"])
        return
    texts, obs_t, obs_f, bad = run_programs(ctx, [rep["program"]])
    pid = rep["program"]["id"]
    if bad or obs_t[pid]["events"] != obs_f[pid]["events"] or obs_t[pid]["result"] != obs_f[pid]["result"]:
        ctx.violation("program still misbehaves under tinyfo", {"program": rep["program"], "text": texts[0], "tinyfo": obs_t[pid], "fc": obs_f[pid]})
