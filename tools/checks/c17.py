"""C17: tinyfo preserves behaviour on the early-Folang subset. Same specification (spec/FoSem.tla) and pipeline as C01 with the
generator restricted to the tinyfo profile and the binary built from tinyfo/; every program also goes through fc and the two
recorded traces are compared directly."""
import json
import os
import random

from vlib import slicecheck, core, fogen, semrun
from vlib.core import Infra

LEVEL = "model_checking"


def reduced_foi(ctx, wd):
    """tinyfo cannot read today's pkg_all.foi (dict section): the frt / slice / strings sections of the working tree's file"""
    foi = open(os.path.join(ctx.repo, "pkg", "pkg_all.foi")).read()
    parts = foi.split("package_info ")
    keep = [p for p in parts if p.startswith(("frt", "slice", "strings"))]
    path = os.path.join(wd, "tiny.foi")
    with open(path, "w") as f:
        f.write("".join("package_info " + p for p in keep))
    return path


def tiny_kernels(start):
    """the C01 kernels that lie inside the tinyfo subset, with monomorphic probes"""
    out = []
    for p in fogen.kernels(start):
        if p.get("meta", {}).get("family") == "eq":
            continue              # the end-to-end equality family of C10 (calibrated for fc only)
        txt = json.dumps(p)
        if any(x in txt for x in ('"lam"', '"smatch"', '"letfun"', '"tparams"', '"op": "*"', '"tuple", "es": [{"k": "probe"', '"slice", "es": [{"k": "probe"')):
            continue
        if p.get("mtype") not in (fogen.INT, fogen.STR, fogen.BOOL):
            continue

        def fix(n):
            if isinstance(n, dict):
                if n.get("k") == "probe":
                    k = n["e"].get("k")
                    n["pt"] = {"int": "I", "bool": "B", "str": "S"}.get(k, "")
                    if not n["pt"]:
                        return False
                return all(fix(v) for v in n.values())
            if isinstance(n, list):
                return all(fix(v) for v in n)
            return True
        if not fix(p):
            continue
        p["profile"] = "tinyfo"
        out.append(p)
    return out


def run_one_side(ctx, wd, progs, texts, transpiler, foi=None, tag=""):
    tr = semrun.transpile_all(ctx, wd, progs, texts, transpiler=transpiler, foi=foi)
    observed = {}
    ok_ids = []
    for p in progs:
        rc, diag = tr[p["id"]]
        if rc != 0:
            observed[p["id"]] = {"events": [], "status": "%s rejects the program (exit %d): %s" % (transpiler, rc, diag), "result": ""}
        else:
            ok_ids.append(p["id"])
    batches = [ok_ids[i:i + 250] for i in range(0, len(ok_ids), 250)]
    results = core.pmap(lambda a: semrun.build_and_run(ctx, wd, a[1], "%s%d" % (tag, a[0])), list(enumerate(batches)), workers=4)
    for traces, status in results:
        observed.update(traces)
        for k, msg in status.items():
            observed[k] = {"events": [], "status": msg, "result": ""}
    for p in progs:
        observed.setdefault(p["id"], {"events": [], "status": "no output", "result": ""})
    return observed


def run_programs(ctx, progs):
    ctx.build("tinyfo")
    ctx.build("fc")
    texts = [fogen.render(p) for p in progs]
    wt = ctx.mkdir("c17t")
    wf = ctx.mkdir("c17f")
    foi = reduced_foi(ctx, wt)
    obs_t = run_one_side(ctx, wt, progs, texts, "tinyfo", foi=foi, tag="t")
    obs_f = run_one_side(ctx, wf, progs, texts, "fc", tag="f")
    bad = semrun.validate(ctx, progs, obs_t)
    return texts, obs_t, obs_f, bad


def prec_part(ctx):
    """operator grouping in tinyfo: every chain of 1-3 operators of the subset (+ - < > <= >= = <> && ||) between names, written WITHOUT
    parentheses (the program generator parenthesises every operand), transpiled by tinyfo; the emitted Go expression must have the
    grouping of the published table (spec/FoPrec.tla, the same oracle as C08)"""
    from checks import c08
    sd = ctx.spec_dir()
    slicecheck.write_cfg(ctx, "FoPrecCases_tiny.cfg", "CONSTANTS\n  N = 3\n  OutFile = \"prec_cases_tiny.ndjson\"\nINIT Init\nNEXT Next\n")
    ctx.tlc("FoPrecCases", "FoPrecCases_tiny.cfg", workers=1, timeout=3000, heap_gb=8)
    cases = core.read_ndjson(os.path.join(sd, "prec_cases_tiny.ndjson"))
    allowed = {"+", "-", "<", ">", "<=", ">=", "=", "<>", "&&", "||"}
    rows = [{"toks": c["toks"], "brk": None, "kind": "plain"} for c in cases
            if c["kind"] == "plain" and all(t in allowed for t in c["toks"][1::2])]
    lines, bad = c08.run_rows(ctx, rows, tool="tinyfo", params="(a:int) (b:int) (c:int) (d:int) (e:int)")
    ctx.extra["tinyfo_operator_chains"] = len(lines)
    for i, l in enumerate(lines):
        ctx.case(["prec", l["toks"]], nontrivial=len(l["toks"]) >= 5)
    for b in bad[:20]:
        l = lines[b - 1]
        ctx.violation("tinyfo groups an operator chain differently from the table (or rejects it): %s  status=%s  emitted tree=%s" % (
            l["src"].split("=\n", 1)[1].strip(), l["status"], json.dumps(l["got"])), {"row": {"toks": l["toks"]}, "recorded": l, "kind": "prec"})


def run(ctx):
    ctx.rule = ("well-typed programs of the tinyfo subset from the seeded generator restricted to that profile (annotated functions, "
                "+ - comparisons && || not, if / elif / else, if without else, non-generic records and unions with match (bind / ignore / "
                "default), slices through variables, pairs and destructuring, pipes, partial application, package_info calls incl. "
                "monomorphic probes) plus the C01 kernels inside the subset; quick 300, thorough 15000 random programs; each transpiled by "
                "tinyfo AND by fc. distinct = distinct programs; non-trivial = the specified trace has >= 2 events. Outside the profile "
                "(calibrated on the pinned tree): lambdas, * /, interpolation, string match, inner functions, generic probes, slice "
                "literals as arguments, a let whose right-hand side starts on the next line.  Plus every chain of 1-3 operators of the subset "
                "between names, written without parentheses, through tinyfo: grouping as in spec/FoPrec.tla (1,110 chains)")
    n = 15000 if ctx.tier == "thorough" else 300
    rng = random.Random(ctx.seed * 104729 + 17)
    progs = [fogen.generate(rng, i + 1, profile="tinyfo", size=rng.randint(1, 4)) for i in range(n)]
    progs += tiny_kernels(n + 1)
    texts, obs_t, obs_f, bad = run_programs(ctx, progs)
    for i, p in enumerate(progs):
        o = obs_t[p["id"]]
        ctx.case(fogen.to_spec(p), nontrivial=len(o["events"]) >= 2,
                 sample={"program": texts[i][texts[i].find("let p%dmain" % p["id"]):][:300], "events": o["events"][:5], "status": o["status"]} if i % 97 == 5 else None)
    prec_part(ctx)
    ctx.traces = len(progs)
    ctx.extra["events_validated"] = sum(len(o["events"]) for o in obs_t.values())
    ctx.exhaustive = False
    nviol = 0
    for idx, pos, exp in bad[:20]:
        p = progs[idx]
        o = obs_t[p["id"]]
        got = o["events"][pos - 1] if pos <= len(o["events"]) else ["<end>", o["status"] + " " + o["result"]]
        ctx.violation("program p%d (tinyfo): at event %d the emitted program did %s, the semantics prescribes %s\n%s" % (
            p["id"], pos, json.dumps(got), exp, texts[idx]), {"program": p, "text": texts[idx], "observed": o, "position": pos})
    badids = set(progs[idx]["id"] for idx, _, _ in bad)
    for i, p in enumerate(progs):
        t, f = obs_t[p["id"]], obs_f[p["id"]]
        if p["id"] not in badids and f["status"] in ("ok", "panic") and (t["events"] != f["events"] or t["status"] != f["status"] or t["result"] != f["result"]):
            nviol += 1
            if nviol <= 10:
                ctx.violation("program p%d: the Go emitted by tinyfo and by fc behave differently\n%s" % (p["id"], texts[i]),
                              {"program": p, "text": texts[i], "tinyfo": t, "fc": f})
    ctx.assumptions += ["spec/FoSem.tla is the intended semantics; the subset is calibrated on the pinned tree (what tinyfo accepts)",
                        "tinyfo is given the frt / slice / strings sections of pkg/pkg_all.foi (it cannot parse the dict section)"]


def replay(ctx, rep):
    if rep.get("kind") == "prec":
        prec_part(ctx)
        return
    texts, obs_t, obs_f, bad = run_programs(ctx, [rep["program"]])
    pid = rep["program"]["id"]
    if bad or obs_t[pid]["events"] != obs_f[pid]["events"] or obs_t[pid]["result"] != obs_f[pid]["result"]:
        ctx.violation("program still misbehaves under tinyfo", {"program": rep["program"], "text": texts[0], "tinyfo": obs_t[pid], "fc": obs_f[pid]})
