"""C09: union match exhaustiveness. Configurations enumerated by TLC (FoMatchCases.tla), each transpiled by the real fc
binary (one process per case), accepted programs compiled and run on every constructor, all observations validated by TLC
(FoMatchTrace.tla)."""
import json
import os
import re
import shutil

from vlib import core, slicecheck, fcutil
from vlib.core import Infra

LEVEL = "model_checking"
CTXS = ["plain", "let", "if", "arm", "lambda", "afterfull", "afterdflt", "callresult", "payloadvar", "coincide", "coincide2", "untyped", "untypedlambda"]
NORUN = ("coincide", "coincide2")        # (accepted programs of these contexts are not compiled and run: other names / arities)
UNTYPED = ("untyped", "untypedlambda")


def arm_lines(cfg, ind):
    out = []
    for i, a in enumerate(cfg["arms"], 1):
        if a["form"] == "bind":
            out.append("%s| %s v -> v + %d" % (ind, a["c"], i * 10))
        elif a["form"] == "ignore":
            out.append("%s| %s _ -> %d" % (ind, a["c"], i * 10))
        else:
            out.append("%s| %s -> %d" % (ind, a["c"], i * 10))
    if cfg["dflt"]:
        out.append("%s| _ -> 0" % ind)
    return "\n".join(out)


def render(cid, cfg, ctx):
    u = "U%d" % cid
    f = "f%d" % cid
    need_frt = any(c["p"] for c in cfg["cases"]) or ctx in ("if", "payloadvar")
    if ctx in UNTYPED:
        # the forms available without a known target type: ignore / none
        cfg = dict(cfg, arms=[dict(a, form=("ignore" if a["form"] == "bind" else a["form"])) for a in cfg["arms"]])
    s = "package main\n\n" + ("import frt\n\n" if need_frt else "")
    if ctx in NORUN:
        # the union's name coincides with an instance of a generic union in name-and-type-argument encodings (U7_int / U7<int>); the
        # generic one has other cases and is mentioned between the last mention of the tested union and the match
        s += "type %s<T> =\n| Ga%d of T\n| Gb%d\n\n" % (u, cid, cid)
        g = u
        u = u + "_int"
    s += "type %s =\n" % u + "".join("| %s%s\n" % (c["n"], " of int" if c["p"] else "") for c in cfg["cases"]) + "\n"
    if ctx == "arm":
        s += "type O%d =\n| Oa%d\n| Ob%d\n\n" % (cid, cid, cid)
    if ctx == "plain":
        s += "let %s (u:%s) =\n  match u with\n%s\n" % (f, u, arm_lines(cfg, "  "))
    elif ctx == "let":
        s += "let %s (u:%s) =\n  let r = match u with\n%s\n  r + 0\n" % (f, u, arm_lines(cfg, "          "))
    elif ctx == "if":
        s += "let %s (u:%s) =\n  if true then\n    match u with\n%s\n  else\n    0\n" % (f, u, arm_lines(cfg, "    "))
    elif ctx == "arm":
        s += "let %s (u:%s) =\n  let o = Oa%d\n  match o with\n  | Oa%d ->\n    match u with\n%s\n  | _ -> 0\n" % (
            f, u, cid, cid, arm_lines(cfg, "    "))
    elif ctx in ("afterfull", "afterdflt"):
        # history: an earlier match on the same union in the same run (exhaustive / with default), then the tested one
        full = {"arms": [{"c": c["n"], "form": "ignore" if c["p"] else "none"} for c in cfg["cases"]], "dflt": False}
        if ctx == "afterdflt":
            full = {"arms": full["arms"][:1], "dflt": True}
        s += "let e%d (u:%s) =\n  match u with\n%s\n\n" % (cid, u, arm_lines(full, "  "))
        s += "let %s (u:%s) =\n  match u with\n%s\n" % (f, u, arm_lines(cfg, "  "))
    elif ctx == "callresult":
        # the target gets its union type from a call result; an earlier function mentions the union (inference has touched it)
        s += "let id%d (x:%s) =\n  x\n\n" % (cid, u)
        s += "let %s (v:%s) =\n  let u = id%d v\n  match u with\n%s\n" % (f, u, cid, arm_lines(cfg, "  "))
    elif ctx == "payloadvar":
        # the target is the payload variable of an outer match
        s += "type W%d =\n| Wrap%d of %s\n| Other%d\n\nlet id%d (x:%s) =\n  x\n\n" % (cid, cid, u, cid, cid, u)
        s += "let %s (v:%s) =\n  let w = Wrap%d (id%d v)\n  match w with\n  | Wrap%d u ->\n    match u with\n%s\n  | _ -> 0\n" % (
            f, u, cid, cid, cid, arm_lines(cfg, "    "))
    elif ctx == "coincide":
        s += "let %s (u:%s) (o:%s<int>) =\n  match u with\n%s\n" % (f, u, g, arm_lines(cfg, "  "))
    elif ctx == "coincide2":
        s += "let k%d (o:%s<int>) =\n  match o with\n  | Ga%d _ -> 1\n  | Gb%d -> 2\n\n" % (cid, g, cid, cid)
        s += "let %s (u:%s) =\n  let o = Gb%d<int> ()\n  match u with\n%s\n" % (f, u, cid, arm_lines(cfg, "  "))
    elif ctx == "untyped":
        s += "let %s u =\n  match u with\n%s\n" % (f, arm_lines(cfg, "  "))
    elif ctx == "untypedlambda":
        s = s.replace("package main\n\n", "package main\n\nimport slice\n\n", 1)
        s += "let %s (us:[]%s) =\n  slice.Map (fun w ->\n            match w with\n%s) us\n" % (f, u, arm_lines(cfg, "            "))
    elif ctx == "lambda":
        s += "let %s (u:%s) =\n  let g = fun (w:%s) ->\n            match w with\n%s\n  g u\n" % (f, u, u, arm_lines(cfg, "            "))
    return s


def observe_one(wd, cid, cfg, cx, res):
    fo = "m%d.fo" % cid
    rc, so, se = res
    gen = os.path.exists(os.path.join(wd, "gen_m%d.go" % cid))
    names = [c["n"] for c in cfg["cases"]]
    diag = so.split("transpile: " + fo, 1)[-1]
    named = [n for n in names if re.search(r"\b%s\b" % n, diag)]
    fatal = ("fatal error" in se) or ("goroutine stack exceeds" in se) or rc == 124
    return {"cid": cid, "cases": cfg["cases"], "arms": cfg["arms"], "dflt": cfg["dflt"], "ctx": cx, "rc": rc, "gen": gen,
            "named": named, "fatal": fatal, "diag": diag.strip()[:300], "ran": False, "taken": [], "typed": cx not in UNTYPED}


def run_accepted(ctx, wd, obs, cap):
    """compile accepted programs (at most cap, spread evenly) in one package and call each function with every constructor"""
    acc = [o for o in obs if o["rc"] == 0 and o["gen"] and o["typed"] and o["ctx"] not in NORUN]
    if len(acc) > cap:
        step = len(acc) / float(cap)
        acc = [acc[int(i * step)] for i in range(cap)]
    if not acc:
        return
    d = ctx.go_module("c09run", pkgs=("frt",))
    main = ["package main", "", "import \"fmt\"", "", "func call(id int, k int, f func() int) {",
            "\tdefer func() { if r := recover(); r != nil { fmt.Printf(\"R %d %d PANIC %v\\n\", id, k, r) } }()",
            "\tfmt.Printf(\"R %d %d %d\\n\", id, k, f())", "}", "", "func main() {"]
    for o in acc:
        cid = o["cid"]
        shutil.copy(os.path.join(wd, "gen_m%d.go" % cid), os.path.join(d, "gen_m%d.go" % cid))
        for k, c in enumerate(o["cases"], 1):
            ctor = "New_U%d_%s" % (cid, c["n"]) + ("(0)" if c["p"] else "")
            main.append("\tcall(%d, %d, func() int { return f%d(%s) })" % (cid, k, cid, ctor))
    main.append("}")
    with open(os.path.join(d, "main.go"), "w") as f:
        f.write("\n".join(main) + "\n")
    rc, so, se = ctx.go_build(d, out="c09run", timeout=1800)
    if rc != 0:
        # some accepted program does not compile: find which (per-file errors name gen_m<id>.go)
        ids = set(int(x) for x in re.findall(r"gen_m(\d+)\.go", so + se))
        if not ids:
            raise Infra("go build of accepted match programs failed: " + (so + se)[-2000:])
        for o in acc:
            if o["cid"] in ids:
                o["ran"] = True
                o["taken"] = [-1] * len(o["cases"])
                o["diag"] = "emitted Go does not compile: " + "; ".join(l for l in (so + se).splitlines() if "gen_m%d.go" % o["cid"] in l)[:300]
        return
    rc, so, se = core.sh([os.path.join(d, "c09run")], timeout=600)
    res = {}
    for line in so.splitlines():
        p = line.split()
        if len(p) >= 4 and p[0] == "R":
            res[(int(p[1]), int(p[2]))] = -1 if p[3] == "PANIC" else int(p[3]) // 10
    for o in acc:
        o["ran"] = True
        o["taken"] = [res.get((o["cid"], k), -2) for k in range(1, len(o["cases"]) + 1)]


def observe(ctx, items, cap=10**9):
    wd = ctx.mkdir("c09")
    ctx.build("fc")
    for cid, cfg, cx in items:
        with open(os.path.join(wd, "m%d.fo" % cid), "w") as f:
            f.write(render(cid, cfg, cx))
    res = fcutil.run_fc_many(ctx, wd, ["m%d" % cid for cid, _, _ in items])
    obs = [observe_one(wd, cid, cfg, cx, res["m%d" % cid]) for cid, cfg, cx in items]
    run_accepted(ctx, wd, obs, cap)
    sd = ctx.spec_dir()
    core.write_ndjson(os.path.join(sd, "match_trace.ndjson"),
                      [{k: o[k] for k in ("cases", "arms", "dflt", "rc", "gen", "named", "fatal", "ran", "taken", "typed")} for o in obs])
    r = ctx.tlc("FoMatchTrace", "FoMatchTrace.cfg", workers=1, timeout=3000, heap_gb=6)
    n, bad = slicecheck.parse_trace_end(r["out"])
    if n != len(obs):
        raise Infra("trace length mismatch")
    return obs, bad


def run(ctx):
    ctx.rule = ("every union with 1..MaxCases cases (all payload / no-payload mixes) x every non-empty ordered subset of arms x arm "
                "payload forms (bind / ignore / none) x with / without default (enumerated by TLC, FoMatchCases.tla), in the plain "
                "context, nested in let / if / another arm / a lambda, after an earlier match on the same union in the same run, and on "
                "targets whose type is not annotated (quick: one extra context for half of the configurations, chosen by seed; "
                "thorough: all); each is one run of the real fc binary; accepted programs are compiled together and called with every "
                "constructor. distinct = distinct (configuration, context); non-trivial = union with >= 2 cases")
    mc, ff = (5, 3) if ctx.tier == "thorough" else (4, 3)
    slicecheck.write_cfg(ctx, "FoMatchCases_run.cfg",
                         "CONSTANTS\n  MaxCases = %d\n  FullForms = %d\n  OutFile = \"match_cases.ndjson\"\nINIT Init\nNEXT Next\n" % (mc, ff))
    # unbounded: the marking loop accepts exactly the matches with a default arm or covering arms, for every union and arm sequence (TLA+ proof system)
    ctx.extra["tlaps_obligations_proved_FoMatchProof"] = ctx.tlapm("FoMatchProof")
    ctx.tlc("FoMatchCases", "FoMatchCases_run.cfg", workers=1, timeout=3000, heap_gb=8)
    cfgs = core.read_ndjson(os.path.join(ctx.spec_dir(), "match_cases.ndjson"))
    items = []
    for cfg in cfgs:
        cxs = ["plain"]
        if ctx.tier == "thorough" and len(cfg["cases"]) <= 4:
            cxs = CTXS
        elif ctx.tier != "thorough" and ctx.rng.random() < 0.5:
            cxs.append(CTXS[1 + ctx.rng.randrange(len(CTXS) - 1)])
        for cx in cxs:
            items.append((len(items) + 1, cfg, cx))
    obs, bad = observe(ctx, items, cap=(20000 if ctx.tier == "thorough" else 1500))
    for i, o in enumerate(obs):
        ctx.case([o["cases"], o["arms"], o["dflt"], o["ctx"]], nontrivial=len(o["cases"]) >= 2,
                 sample={k: o[k] for k in ("cases", "arms", "dflt", "ctx", "rc", "named", "taken")} if i % 2503 == 5 else None)
    ctx.traces = len(obs)
    ctx.exhaustive = True
    ctx.extra["configurations"] = len(cfgs)
    ctx.extra["accepted_and_run"] = sum(1 for o in obs if o["ran"])
    for b in bad[:40]:
        o = obs[b - 1]
        ctx.violation("match on union %s with arms %s%s in context %s: fc exit=%d gen=%s named=%s fatal=%s taken=%s  %s" % (
            [c["n"] + ("*" if c["p"] else "") for c in o["cases"]], [a["c"] + ":" + a["form"] for a in o["arms"]],
            " + default" if o["dflt"] else "", o["ctx"], o["rc"], o["gen"], o["named"], o["fatal"], o["taken"], o["diag"][:200]),
            {"config": {"cases": o["cases"], "arms": o["arms"], "dflt": o["dflt"]}, "ctx": o["ctx"], "recorded": o,
             "source": render(o["cid"], o, o["ctx"])})
    ctx.assumptions += ["case names Kaa..Kee are searched as whole words in fc's diagnostic output",
                        "arm bodies are integer constants identifying the arm; payloads are ints"]


def replay(ctx, rep):
    obs, bad = observe(ctx, [(1, rep["config"], rep["ctx"])])
    for b in bad:
        ctx.violation("match configuration still decided wrongly", {"config": rep["config"], "ctx": rep["ctx"], "recorded": obs[b - 1]})
