"""C02: inferred Go signatures are the principal types.
spec/FoInfer.tla: unification as a nondeterministic machine (TLC: termination and confluence on constraint sets with sharing,
diamonds, clashes and cycles) and the signature function.  spec/FoInferGen.tla: the syntax-directed typing rules as constraint
generation over abstract syntax, with top-level generalisation (the prelude's schemes are inferred, not given).  Functions come
from the seeded generator tools/vlib/infgen.py as source text plus abstract syntax; TLC generates the constraints, computes the
principal type and which parameter annotations are redundant (the generator's own derivation of the constraints is checked
against the specification's: double entry); every subset of redundant annotations is written, everything is transpiled by the real fc, the
signatures are read back with go/parser and validated by TLC (FoInferTrace.tla); the whole package must type-check in Go."""
import itertools
import json
import os
import random
import re
import shutil

from vlib import core, fcutil, infgen, restrace, slicecheck
from vlib.core import Infra

LEVEL = "model_checking"


def renumber_temps(text):
    """compiler-introduced temporaries _vN renumbered by first occurrence (their numbering depends on the definitions before, see C07)"""
    order = {}
    def sub(m):
        return "_v%d" % order.setdefault(m.group(0), len(order) + 1)
    return re.sub(r"\b_v\d+\b", sub, text)


def nospace(s):
    return re.sub(r"\s+", "", s)


def small_family(ctx, tag, max_eqs, sample, rich):
    """the functions of spec/FoInferSmall.tla (all / a residue class of the equation sequences) with their principal types"""
    sd = ctx.spec_dir()
    out = "inf_small_%s.ndjson" % tag
    slicecheck.write_cfg(ctx, "FoInferSmall_%s.cfg" % tag,
                         "CONSTANTS\n  OutFile = \"%s\"\n  MaxEqs = %d\n  Sample = %d\n  Seed = %d\n  Rich = %s\nINIT Init\nNEXT Next\n" % (
                             out, max_eqs, sample, ctx.seed, "TRUE" if rich else "FALSE"))
    ctx.tlc("FoInferSmall", "FoInferSmall_%s.cfg" % tag, workers=1, timeout=3000, heap_gb=8)
    rows = core.read_ndjson(os.path.join(sd, out))
    fns, princ = [], []
    for r in rows:
        r["ast"]["name"] = tag + r["ast"]["name"]
        fns.append(infgen.AstFn(r["ast"]))
        p = dict(r["princ"])
        p["name"] = fns[-1].name
        princ.append(p)
    return fns, princ


RES = ("<res>",)       # the version with an informative result annotation


def principals(ctx, fns, tag):
    """principal types by TLC (FoInferCases): constraints from the abstract syntax, checked against the generator's own derivation"""
    sd = ctx.spec_dir()
    specs = [f.spec() for f in fns]
    for sp in specs:
        if "eqs" not in sp:            # abstract syntax only: no second entry
            sp["eqs"], sp["params"], sp["res"] = [], [], ["unit"]
            sp["single"] = True
    fin, fout = "inf_fns%s.ndjson" % tag, "inf_principal%s.ndjson" % tag
    core.write_ndjson(os.path.join(sd, fin), specs)
    slicecheck.write_cfg(ctx, "FoInferCases_run%s.cfg" % tag, "CONSTANTS\n  FnFile = \"%s\"\n  OutFile = \"%s\"\nINIT Init\nNEXT Next\n" % (fin, fout))
    ctx.tlc("FoInferCases", "FoInferCases_run%s.cfg" % tag, workers=1, timeout=3000, heap_gb=6)
    princ = core.read_ndjson(os.path.join(sd, fout))
    if len(princ) != len(fns):
        raise Infra("principal types missing")
    dis = [p["name"] for p in princ if not p["agree"]]
    if dis:
        raise Infra("generator and FoInferGen disagree about the constraints of %s" % dis[:5])
    return princ


def vtext(f, p, s):
    return f.text({} if s == RES else {q: p["annot"][f.params.index(q)] for q in s})


def run_fns(ctx, fns, princ=None, tag=""):
    sd = ctx.spec_dir()
    if princ is None:
        princ = principals(ctx, fns, tag)
    # informative result annotations: the principal result type with its variables instantiated, written after the parameters
    rfns = [infgen.RannFn(f, p["rinst"]["t"], p["rinst"]["text"]) for f, p in zip(fns, princ)
            if p["ok"] and p.get("rinst", {}).get("has") and not getattr(f, "selfcalls", 0) and not getattr(f, "deps", None)]
    rprinc = {f.name: p for f, p in zip(rfns, principals(ctx, rfns, tag + "_r"))} if rfns else {}
    rfns = {f.name: f for f in rfns}
    ctx.build("fc")
    fcutil.build_goast(ctx)
    wd = ctx.mkdir("c02" + tag)
    # versions: v0 = no annotation; one version per non-empty subset of the redundant (ground) parameters (at most 8 per function)
    versions = []
    for f, p in zip(fns, princ):
        if not p["ok"]:
            continue          # ill-typed by the rules (clash / occurs check): not a function of the profile
        if getattr(f, "selfcalls", 0) and p.get("resonly", 0) > 0:
            continue          # a recursive call whose result type nothing determines (let f x = f x): Go cannot infer that type argument
        ground = [q for q, g in zip(f.params, p["ground"]) if g] if not getattr(f, "deps", None) else []      # (callers: the un-annotated version only)
        subsets = [()]
        for k in range(1, len(ground) + 1):
            subsets += list(itertools.combinations(ground, k))
        if len(subsets) > 8:
            subsets = [()] + [tuple(ground)] + ctx.rng.sample(subsets[1:-1], 6)
        for s in subsets:
            versions.append((f, p, s))
        if f.name in rfns and rprinc[f.name]["ok"]:
            versions.append((rfns[f.name], rprinc[f.name], RES))
    # group the versions into files: version k of every function in file k (functions keep their names)
    byk = {}
    count = {}
    for f, p, s in versions:
        k = count.get(f.name, 0)
        count[f.name] = k + 1
        byk.setdefault(k, []).append((f, p, s))
    results = {}
    reslogs = []
    for k, items in sorted(byk.items()):
        fo = os.path.join(wd, "v%d.fo" % k)

        def attempt(its, tag):
            path = os.path.join(wd, "v%d_%s.fo" % (k, tag))
            with open(path, "w") as fh:
                fh.write(infgen.PRELUDE + "".join(vtext(f, p, s) for f, p, s in its))
            gen = fcutil.gen_name(path)
            if os.path.exists(gen):
                os.remove(gen)
            reslog = path + ".reslog"
            if k == 0:
                reslogs.append(reslog)       # white-box trace of the resolver (un-annotated versions)
            rc, so, se = fcutil.run_fc(ctx, [path], timeout=300, env={"FOLANG_VERIF_RESLOG": reslog} if k == 0 else None)
            if rc == 0 and os.path.exists(gen):
                sigs, perr = fcutil.goast(ctx, "sigs", gen)
                decls, _ = fcutil.goast(ctx, "decls", gen)
                if sigs is not None and decls is not None:
                    sm = {r["name"]: r for r in sigs}
                    dm = {r["name"]: renumber_temps(r["text"]) for r in decls if r["kind"] == "func"}
                    for f, p, s in its:
                        results[(f.name, s)] = ("ok", sm.get(f.name), dm.get(f.name), gen)
                    return
            msg = (so.splitlines()[-1] if so.strip() else se[-200:])[:250]
            if len(its) == 1:
                results[(its[0][0].name, its[0][2])] = ("fc rejects the function (exit %d): %s" % (rc, msg), None, None, None)
                return
            mid = len(its) // 2
            attempt(its[:mid], tag + "a")
            attempt(its[mid:], tag + "b")
        attempt(items, "x")
    # the un-annotated package must type-check in Go
    d = ctx.go_module("c02build" + tag)
    gen0 = os.path.join(wd, "gen_v0_x.go")
    build_note = ""
    if os.path.exists(gen0):
        shutil.copy(gen0, os.path.join(d, "gen_v0.go"))
        with open(os.path.join(d, "main.go"), "w") as fh:
            fh.write("package main\n\nfunc main() {}\n")
        rc, so, se = ctx.go_build(d, out="c02build", timeout=900, all_errors=True)
        if rc != 0:
            build_note = (so + se)
    lines = []
    for f, p, s in versions:
        st, sig, text, gen = results.get((f.name, s), ("missing", None, None, None))
        base = results.get((f.name, ()), (None, None, None, None))
        line = {"fn": f.spec(), "name": f.name, "annotated": list(s), "princ": p, "status": st, "ntparams": -1, "gparams": [], "gres": "", "samecode": False,
                "src": vtext(f, p, s)}
        if st == "ok" and sig:
            line["ntparams"] = len(sig["tparams"])
            line["gparams"] = [nospace(x) for x in sig["params"]]
            line["gres"] = nospace("".join(sig["results"]))
            line["samecode"] = (text is not None and text == base[2])
            if s == () and build_note:
                errs = [m for m in re.findall(r"gen_v0\.go:(\d+):\d+: (.*)", build_note)]
                # attribute Go type errors to the function containing the line
                src = open(os.path.join(d, "gen_v0.go"), errors="replace").read().split("\n")
                for ln, msg in errs:
                    owner = None
                    for i in range(int(ln) - 1, -1, -1):
                        m = re.match(r"func (\w+)", src[i])
                        if m:
                            owner = m.group(1)
                            break
                    if owner == f.name:
                        line["status"] = "emitted Go does not type-check: " + msg[:200]
        elif st == "ok":
            line["status"] = "function missing in the emitted Go"
        lines.append(line)
    core.write_ndjson(os.path.join(sd, "inf_trace.ndjson"), [{k: l[k] for k in ("fn", "status", "ntparams", "gparams", "gres", "samecode")} for l in lines])
    r = ctx.tlc("FoInferTrace", "FoInferTrace.cfg", workers=1, timeout=3000, heap_gb=6)
    n, bad = slicecheck.parse_trace_end(r["out"])
    if n != len(lines):
        raise Infra("trace length mismatch")
    resolver_traces(ctx, reslogs, "fn" + tag)
    return lines, bad, princ


def resolver_traces(ctx, logs, tag):
    """validate the recorded rounds of the real resolver against spec/FoResolver.tla"""
    logs = [l for l in logs if os.path.exists(l)]
    if not logs:
        return
    n, per = restrace.prepare(ctx, logs, tag)
    total, bad, skipped = restrace.validate(ctx, tag)
    if total != n:
        raise Infra("resolver trace length mismatch")
    st = ctx.extra.setdefault("resolver_rounds", {"validated": 0, "of_which_with_field_access_types": 0, "processes": 0})
    st["validated"] += n - len(logs)
    st["of_which_with_field_access_types"] += skipped
    st["processes"] += len(logs)
    if bad:
        trace = core.read_ndjson(os.path.join(ctx.spec_dir(), "res_trace%s.ndjson" % tag))
        # which process
        starts, acc = [], 0
        for lg, k in zip(logs, per):
            starts.append((acc, lg))
            acc += k + 1
        for b in bad[:5]:
            lg = [l for a, l in starts if a < b][-1]
            ctx.violation("the resolver of fc took a round that spec/FoResolver.tla does not explain (trace line %d of %s): relations %s on the recorded state "
                          "were followed by %s" % (b, os.path.basename(lg), json.dumps(trace[b - 1]["rels"])[:300], json.dumps(trace[b])[:400]),
                          {"kind": "resolver-trace", "line": trace[b - 1], "next": trace[b], "source": open(lg[:-len(".reslog")], errors="replace").read()[:20000] if os.path.exists(lg[:-len(".reslog")]) else ""})


def workload_traces(ctx):
    """the repository's own Folang sources through the instrumented fc: fc/*.fo (the self-hosting recipe fc_all.sh), samples/*.fo and
    cmd/build_sample_md - every recorded round of the resolver must be a step of the model"""
    repo = ctx.copy_repo()
    wd = ctx.mkdir("c02work")
    logs = []
    recipe = open(os.path.join(repo, "fc", "fc_all.sh")).read()
    m = re.search(r"\./fc \$PKG_INFO (.*)", recipe)
    if not m:
        raise Infra("fc_all.sh: recipe not recognised")
    srcs = m.group(1).split()
    d = os.path.join(wd, "fc")
    os.makedirs(d)
    for f in srcs:
        shutil.copy(os.path.join(repo, "fc", f), d)
    log = os.path.join(d, "self.reslog")
    rc, so, se = fcutil.run_fc(ctx, srcs, cwd=d, timeout=600, env={"FOLANG_VERIF_RESLOG": log})
    if rc != 0:
        raise Infra("fc does not compile its own sources: " + (so + se)[-500:])
    logs.append(log)
    d = os.path.join(wd, "samples")
    os.makedirs(d)
    for f in sorted(os.listdir(os.path.join(repo, "samples"))) + ["../cmd/build_sample_md/build_sample_md.fo"]:
        if not f.endswith(".fo"):
            continue
        shutil.copy(os.path.join(repo, "samples", f), d)
        b = os.path.basename(f)
        log = os.path.join(d, b + ".reslog")
        rc, so, se = fcutil.run_fc(ctx, [b], cwd=d, timeout=120, env={"FOLANG_VERIF_RESLOG": log})
        logs.append(log)            # (samples that fc rejects still contribute the rounds before the diagnostic)
    resolver_traces(ctx, logs, "work")


def report(ctx, lines, bad, princ):
    for i, l in enumerate(lines):
        nt = l["ntparams"] > 0 or any(any(c in g for c in "[(") for g in l["gparams"] + [l["gres"]])
        ctx.case([l["fn"], l["annotated"]], nontrivial=nt,
                 sample={"source": l["src"], "signature": {"tparams": l["ntparams"], "params": l["gparams"], "result": l["gres"]}} if i % 211 == 4 else None)
    pm = {p["name"]: p for p in princ}
    for b in bad[:20]:
        l = lines[b - 1]
        p = l.get("princ") or pm[l["name"]]
        ctx.violation("function %s (annotated: %s): status %s; emitted signature [%d type params] (%s) %s, same code as un-annotated: %s; principal: [%d] (%s) %s\n%s" % (
            l["name"], l["annotated"], l["status"], l["ntparams"], ", ".join(l["gparams"]), l["gres"], l["samecode"], p["ntparams"], ", ".join(p["params"]), p["res"], l["src"]),
            {"fn": l["fn"], "source": l["src"], "recorded": {k: l[k] for k in ("status", "ntparams", "gparams", "gres", "samecode")}, "principal": p})


def resolver_model(ctx):
    """spec/FoResolver.tla (the resolver as implemented: batches per statement, rounds, classes) against the declarative unifier on
    every order of every small constraint system; the deviations must be refuted (non-vacuity)"""
    thorough = ctx.tier == "thorough"
    def cfg(name, max_eqs, orders, sets, merge, dev, live, fld=0):
        slicecheck.write_cfg(ctx, name, "CONSTANTS\n  MaxEqs = %d\n  AllOrders = %s\n  WithSets = %s\n  MergeLen = %d\n  FldEqs = %d\n  Deviations = %s\n  RecField <- MCRecField\nSPECIFICATION Spec\n"
                             "INVARIANTS Agrees RoundsBounded\n%sCHECK_DEADLOCK FALSE\n" % (
                                 max_eqs, "TRUE" if orders else "FALSE", "TRUE" if sets else "FALSE", merge, fld, dev, "PROPERTIES Terminates\n" if live else ""))
        return name
    if thorough:
        r = ctx.tlc("FoResolverMC", cfg("FoResolverMC_run.cfg", 2, True, True, 4, "{}", True, fld=2), workers=core.NCPU, timeout=3000, heap_gb=12)
        ctx.extra["resolver_model_states"] = r["distinct"]
        r = ctx.tlc("FoResolverMC", cfg("FoResolverMC_3.cfg", 3, False, False, 0, "{}", False), workers=core.NCPU, timeout=3000, heap_gb=12)
        ctx.extra["resolver_model_states_3eq"] = r["distinct"]
        # (the field family with 4 statements contains the known finding fa-class-drops-concrete: FindingSpec below; 3 statements in every name order here)
        r = ctx.tlc("FoResolverMC", cfg("FoResolverMC_f.cfg", 0, True, False, 0, "{}", False, fld=3), workers=core.NCPU, timeout=3000, heap_gb=12)
        ctx.extra["resolver_model_states_field_family_3_all_orders"] = r["distinct"]
    else:
        r = ctx.tlc("FoResolverMC", cfg("FoResolverMC_run.cfg", 1, True, True, 2, "{}", True, fld=2), workers=core.NCPU, timeout=3000, heap_gb=12)
        r2 = ctx.tlc("FoResolverMC", cfg("FoResolverMC_2.cfg", 2, False, False, 0, "{}", False, fld=3), workers=core.NCPU, timeout=3000, heap_gb=12)
        ctx.extra["resolver_model_states"] = r["distinct"] + r2["distinct"]
    # (me, ml, fld): the smallest family that refutes the deviation
    for dev, inv, me, ml, fld in (("RegisterPairOnly", "Agrees", 0, 3, 0), ("DropUpdateRels", "Agrees", 2, 0, 0), ("AdoptVar", "RoundsBounded", 1, 0, 0),
                                  ("SinglePass", "Agrees", 0, 0, 3), ("FaAnyField", "Agrees", 0, 0, 3), ("OldCycleRule", "Agrees", 0, 0, 2), ("FaKeepsClass", "Agrees", 0, 0, 3)):
        if not thorough and dev in ("DropUpdateRels", "SinglePass", "FaAnyField", "FaKeepsClass"):
            continue          # (quick: three of the seven deviations)
        r = ctx.tlc("FoResolverMC", cfg("FoResolverMC_dev.cfg", me, False, ml > 0 or me > 0, ml, '{"%s"}' % dev, False, fld=fld), workers=core.NCPU, timeout=1800, heap_gb=8, allow_fail=True)
        if ("Invariant %s is violated" % inv) not in r["out"]:
            raise Infra("deviation %s of FoResolver is not refuted (the model check is vacuous): %s" % (dev, r["out"][-400:]))
    # the known finding is a behaviour of the model too (4 statements of the field family): TLC finds Agrees violated from that system
    slicecheck.write_cfg(ctx, "FoResolverMC_finding.cfg", "CONSTANTS\n  MaxEqs = 0\n  AllOrders = FALSE\n  WithSets = FALSE\n  MergeLen = 0\n  FldEqs = 0\n  Deviations = {}\n"
                         "  RecField <- MCRecField\nSPECIFICATION FindingSpec\nINVARIANTS Agrees\nCHECK_DEADLOCK FALSE\n")
    r = ctx.tlc("FoResolverMC", "FoResolverMC_finding.cfg", workers=1, timeout=600, allow_fail=True)
    if "Invariant Agrees is violated" not in r["out"]:
        if ctx.is_known("fa-class-drops-concrete"):
            raise Infra("the model no longer exhibits the known finding fa-class-drops-concrete: " + r["out"][-300:])
    ctx.note("FoResolver deviations %s are refuted by TLC" % ("RegisterPairOnly, DropUpdateRels, SinglePass, FaAnyField, OldCycleRule, FaKeepsClass (Agrees) and AdoptVar (RoundsBounded)" if thorough else "RegisterPairOnly, OldCycleRule (Agrees) and AdoptVar (RoundsBounded); the other four in the thorough tier"))


def run(ctx):
    ctx.rule = ("functions of 1-4 un-annotated parameters from the seeded generator infgen.py over the constructs for which inference is "
                "documented (arithmetic / comparison with a typed operand, = / <>, calls to library and user functions with known or generic "
                "signatures (fresh instance per use), record / union construction, tuples, slices, destructuring, function-typed parameters "
                "applied or passed (also several times), generic user records / unions constructed, put into one slice literal and passed where a concrete instance is expected); quick 1200, thorough 60000 generated functions (those the rules reject as ill-typed are dropped, about 2/3), each with the un-annotated version and up to 7 subsets of its "
                "redundant annotations; plus the small-scope family of spec/FoInferSmall.tla: every sequence of <= 2 equations x = t (x one of three "
                "parameters, t of depth <= 1 over the parameters, int, string with [], tuple, IOpt, IBox; 135 equations, quick 1 in 12 of the "
                "18,225 two-equation sequences, thorough all of them and 1 in 20 of the 592,704 three-equation sequences over the universe "
                "without string / IBox). distinct = distinct (function, annotated subset); non-trivial = the principal type contains a type "
                "constructor or a type variable")
    r = ctx.tlc("FoInferMC", "FoInferMC.cfg", workers=4, timeout=1800)
    resolver_model(ctx)
    workload_traces(ctx)
    n = 60000 if ctx.tier == "thorough" else 1200
    rng = random.Random(ctx.seed * 15485863 + 2)
    fns = infgen.generate(rng, n)
    lines, bad, princ = run_fns(ctx, fns)
    report(ctx, lines, bad, princ)
    ctx.extra["functions"] = len(fns)
    ctx.extra["ill_typed_by_the_rules_skipped"] = sum(1 for p in princ if not p["ok"])
    # kernels: a variable that IS a field of a record still to be known (regression of defect 18; designated probe of the known finding)
    kfns = infgen.kernels()
    klines, kbad, kprinc = run_fns(ctx, kfns, tag="k")
    k19 = [i + 1 for i, l in enumerate(klines) if l["name"] == "k19"]
    k19bad = [b for b in kbad if b in k19]
    if k19bad and ctx.is_known("fa-class-drops-concrete"):
        l = klines[k19bad[0] - 1]
        ctx.known_finding("fa-class-drops-concrete", "let k19 a b c = let l1 = [a.Val; c] / let l2 = [b; iwrap c] / let l3 = [b; imkint 1] / let l4 = [a; iwrap c]: "
                          "c is int only through b's type argument; fc emits [%d type params] (%s) instead of (IBox[int], IBox[int], int)" % (l["ntparams"], ", ".join(l["gparams"])))
        kbad = [b for b in kbad if b not in k19]
    report(ctx, klines, kbad, kprinc)
    lines = lines + klines
    # the small-scope exhaustive family: every sequence of <= 2 (3) equations x = t over three parameters
    fams = [("s", 2, 0, True), ("t", 3, 20, False)] if ctx.tier == "thorough" else [("s", 2, 12, True)]
    for tag, max_eqs, sample, rich in fams:
        sfns, sprinc = small_family(ctx, tag, max_eqs, sample, rich)
        slines, sbad, sprinc = run_fns(ctx, sfns, sprinc, tag=tag)
        report(ctx, slines, sbad, sprinc)
        ctx.extra["small_family_%s" % tag] = {"max_equations": max_eqs, "sampled_one_in": sample or 1, "functions": len(sfns),
                                             "ill_typed_by_the_rules_skipped": sum(1 for p in sprinc if not p["ok"])}
        lines = lines + slines
    ctx.traces = len(lines)
    ctx.exhaustive = False
    ctx.assumptions += ["the abstract syntax infgen.py attaches to each function is the syntax of the text it writes (the constraints themselves are generated in TLA+, FoInferGen)",
                        "signatures are read back with go/parser; white space removed before comparison"]


def replay(ctx, rep):
    run(ctx)
