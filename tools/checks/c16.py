"""C16: fc always terminates with complete output or a diagnostic.
(a) FoDriver.tla is model-checked (safety + termination under fairness); TLC enumerates fault vectors which are staged and run;
(b) a mutation campaign on valid programs (truncation at every offset, token deletion / duplication / swap, indentation damage,
    unterminated comments / strings, stray characters, self-referential and ill-typed definitions) through the real binary;
(c) short buffers over the scanner-critical alphabet as whole files.
Every run is observed black-box (announcements, exit status, files present, stderr class) and validated by TLC against the
driver machine, which infers the unlogged read / parse / write outcomes (FoDriverTrace.tla)."""
import itertools
import json
import os
import re
import shutil

from vlib import core, slicecheck, fcutil
from vlib.core import Infra

LEVEL = "model_checking"
TIMEOUT = 20

KINDS = ["ok", "foi", "syntax", "missing", "isdir", "unwritable", "infinite"] + (["devfull"] if os.path.exists("/dev/full") else [])

OK_SRC = "package main\n\nlet f%d () =\n  %d\n"
FOI_SRC = "package_info ext%d =\n  let G: int->int\n"
SYNTAX_SRC = "package main\n\nlet f%d ( =\n  1\n"
INFINITE_SRC = "package main\n\nlet f%d x =\n  x x\n"


def tokens(src):
    return re.findall(r"\s+|[A-Za-z_][A-Za-z_0-9]*|\d+|\"(?:\\.|[^\"\\])*\"|`[^`]*`|//[^\n]*|/\*.*?\*/|\|>|->|<>|<=|>=|&&|\|\||.", src, re.S)


def mutants(name, src, rng, dense):
    out = []
    n = len(src)
    step = 1 if (n <= 700 or dense) else max(1, n // 500)
    for cut in range(0, n, step):
        out.append(("trunc@%d" % cut, src[:cut]))
    toks = tokens(src)
    idx = [i for i, t in enumerate(toks) if not t.isspace()]
    pick = idx if (len(idx) <= 250 or dense) else rng.sample(idx, 250)
    for i in pick:
        out.append(("del@%d" % i, "".join(toks[:i] + toks[i + 1:])))
        out.append(("dup@%d" % i, "".join(toks[:i] + [toks[i], " ", toks[i]] + toks[i + 1:])))
    for a, b in zip(idx, idx[1:]):
        if rng.random() < (1.0 if dense else 0.3):
            t2 = list(toks)
            t2[a], t2[b] = t2[b], t2[a]
            out.append(("swap@%d" % a, "".join(t2)))
    lines = src.split("\n")
    for li in range(len(lines)):
        if lines[li].strip():
            for d, tag in ((" ", "in1"), ("   ", "in3"), ("\t", "tab")):
                l2 = list(lines)
                l2[li] = d + l2[li]
                out.append(("%s@%d" % (tag, li), "\n".join(l2)))
            if lines[li].startswith(" "):
                l2 = list(lines)
                l2[li] = l2[li][1:]
                out.append(("out1@%d" % li, "\n".join(l2)))
                l2 = list(lines)
                l2[li] = l2[li].lstrip()
                out.append(("outall@%d" % li, "\n".join(l2)))
    for ins in ("/*", "*/", "\"", "`", "$\"", "$`", "{", "}", "(", ")", "[", "]", "//", "#", "\r", "@", "~", "^", "%", "!", "?", "\\", "'", "\x00", "\xff", "$", "|", "&", "<", "|>", "->", "=", "_", "match", "with", "let", "if", "then", "else", "fun", "type", "of", "and", "not", ".", ",", ";", ":", "9", "99999999999999999999"):
        for _ in range(3 if not dense else 8):
            p = rng.randrange(n + 1)
            out.append(("ins%r@%d" % (ins, p), src[:p] + ins + src[p:]))
    out.append(("eofcomment", src + "// no newline at the end"))
    out.append(("eofopen", src + "/* never closed"))
    out.append(("eofdigits", src.rstrip("\n") + "\nlet q = 12"))
    out.append(("crlf", src.replace("\n", "\r\n")))
    out.append(("empty", ""))
    out.append(("onlyspace", "   \n\t\n"))
    out.append(("nopackage", src.replace("package main", "", 1)))
    return [(name + ":" + t, s) for t, s in out]


def definitional(rng):
    """self-referential, ill-typed and extreme definitions appended to a small valid program"""
    head = "package main\n\nimport frt\n\n"
    out = []
    V = ["x", "y", "a"]
    for p1, q1, p2, q2 in itertools.product(V, V, V, V):
        out.append(("selfapp:%s%s/%s%s" % (p1, q1, p2, q2), head + "let f x y =\n  let a = %s %s\n  %s %s\n" % (p1 if p1 != "a" else "x", q1 if q1 != "a" else "y", p2, q2)))
    for body in ("x x", "x x x", "x (x x)", "(fun y -> y y) x", "frt.Fst x x", "[x; x x]", "(x, x x)", "x |> x", "x x |> x"):
        out.append(("selfapp1:" + body, head + "let f x =\n  %s\n" % body))
        out.append(("selfapp1b:" + body, head + "let g (n:int) =\n  let h = fun x -> %s\n  n + 1\n" % body))
    for src in ("let a = a\n", "let f x = f\n", "let f x =\n  f x\n", "let f x =\n  f f\n", "let f (x:int) =\n  x + \"s\"\n", "let f (x:int) : string =\n  x\n",
                "let f x y =\n  x y y x\n", "let f x =\n  let g y = x y\n  g g\n", "type T = {A: T}\n", "type U =\n| C of U\n",
                "type R = {A: int}\nlet f () =\n  {B=1}\n", "let f () =\n  undefinedName 1\n", "let f (x:Nope) =\n  x\n", "let f () =\n  1 2\n",
                "let f () =\n  match 1 with\n  | A -> 1\n", "let f x =\n  match x with\n  | _ -> 1\n", "let f () =\n  if 1 then 2 else \"s\"\n",
                "let f () =\n  slice.Map 1 2\n", "let f () =\n  frt.Println 1 2 3\n", "package_info _ =\n  let Q: int->\n", "let f<T> (x:T) = x\n"):
        out.append(("illdef:" + src.split("\n")[0], head + src))
    # types that refer to themselves through a function type (the visited set of the type traversals must cover function types too)
    out.append(("recfunc:record", head + "type Stream = {Head: int; Next: int->Stream}\n\nlet hd (s:Stream) =\n  s.Head\n\nlet nx (s:Stream) =\n  let f = s.Next\n  f 1\n"))
    out.append(("recfunc:union", head + "type Cmd =\n| Done\n| More of (int->Cmd)\n\nlet step (c:Cmd) =\n  match c with\n  | Done -> 0\n  | More f -> 1\n"))
    out.append(("recfunc:mutual", head + "type A = {F: ()->B; N: int}\nand B = {G: int->A}\n\nlet n (a:A) =\n  a.N\n\nlet g (b:B) =\n  b.G\n"))
    out.append(("deepparen", head + "let f () =\n  " + "(" * 3000 + "1" + ")" * 3000 + "\n"))
    out.append(("longchain", head + "let f (a:int) =\n  " + " + ".join(["a"] * 6000) + "\n"))
    out.append(("manydefs", head + "".join("let f%d x = x\n\n" % i for i in range(3000))))
    out.append(("manytvars", head + "let f () =\n  " + "\n  ".join("let v%d = slice.New<int> ()" % i for i in range(150)) + "\n  1\n"))
    out.append(("deepnest", head + "let f (a:int) =\n" + "".join("  " * (i + 1) + "if a > %d then\n" % i for i in range(300)) + "  " * 301 + "1\n" + "".join("  " * (300 - i) + "else\n" + "  " * (301 - i) + "0\n" for i in range(300))))
    # the designated probes of the known finding deep-nesting-stack-exhaustion (DESIGN section 6, #29): 100,000 levels
    N = 100000
    out.append(("finding:deepnest:expression parentheses", head + "let f () =\n  " + "(" * N + "1" + ")" * N + "\n"))
    out.append(("finding:deepnest:type parentheses", head + "let f (a:" + "(" * N + "int" + ")" * N + ") =\n  1\n"))
    out.append(("finding:deepnest:generic type arguments", head + "type Box<T> = {V: T}\n\nlet f (a:" + "Box<" * N + "int" + ">" * N + ") =\n  1\n"))
    # bytes that are not UTF-8 where the scanner accepts any byte (comments, string and raw string literals), followed LATER by an ordinary
    # positioned error: the diagnostic has to be computed over those bytes (written through surrogateescape: chr(0xdc00 + b) is the byte b)
    raw = lambda *bs: "".join(chr(0xdc00 + b) if b >= 0x80 else chr(b) for b in bs)
    junk = [raw(0x80), raw(0xbf, 0xbf), raw(0xc3), raw(0xe3, 0x81), raw(0xf8, 0x88), raw(0xff, 0xfe), raw(0x93, 0xfa, 0x96, 0x7b)]
    errs = [("unknownvar", "let g () =\n  undefinedName 1\n"), ("syntax", "let g () =\n  (1 +\n"),
            ("nonexh", "type U =\n| A\n| B\n\nlet g (u:U) =\n  match u with\n  | A -> 1\n"), ("none", "let g () =\n  2\n")]
    for ji, j in enumerate(junk):
        places = [("linecomment", "// c " + j + " c\nlet f () =\n  1\n\n"), ("blockcomment", "/* c " + j + "\n c */\nlet f () =\n  1\n\n"),
                  ("string", "let f () =\n  \"s" + j + "s\"\n\n"), ("rawstring", "let f () =\n  `r" + j + "\nr`\n\n")]
        for pn, ptxt in places:
            for en, etxt in errs:
                out.append(("nonutf8:%d:%s:%s" % (ji, pn, en), head + ptxt + etxt))
    out.append(("longstring", head + "let f () =\n  \"" + "x" * 200000 + "\"\n"))
    out.append(("longident", head + "let " + "f" * 100000 + " () =\n  1\n"))
    out.append(("binary", bytes(range(256)).decode("latin1")))
    # long chains of type definitions in which every type mentions the next one several times (a traversal that re-expands a shared
    # type once per path needs 2^depth steps)
    for depth in (12, 40):
        # (the innermost type first: a type must be defined before it is mentioned)
        u = "type U%d =\n| Z\n\n" % depth + "".join("type U%d =\n| A%d of U%d\n| B%d of U%d\n| C%d\n\n" % (i, i, i + 1, i, i + 1, i) for i in reversed(range(depth)))
        out.append(("unionchain%d" % depth, head + u + "let f (x:U0) =\n  match x with\n  | A0 _ -> 1\n  | _ -> 0\n\nlet g (x:U0) (y:U1) =\n  (x, y)\n"))
        r = "type R%d = {Z: int}\n\n" % depth + "".join("type R%d = {L%d: []R%d; M%d: []R%d; N%d: int}\n\n" % (i, i, i + 1, i, i + 1, i) for i in reversed(range(depth)))
        out.append(("recordchain%d" % depth, head + r + "let f (x:R0) =\n  x.N0\n\nlet g (x:R0) (y:R1) =\n  (x, y)\n"))
        m = "type M%d =\n| Z\n\n" % depth + "".join("type M%d =\n| P%d of N%d\n| Q%d of N%d\n| E%d\nand N%d = {X%d: M%d; Y%d: []M%d}\n\n" % (i, i, i, i, i, i, i, i, i + 1, i, i + 1) for i in reversed(range(depth)))
        out.append(("mixedchain%d" % depth, head + m + "let f (x:M0) =\n  match x with\n  | E0 -> 0\n  | _ -> 1\n"))
    return out


def inference_systems(rng, tier):
    """small constraint systems as functions, well typed or not (clashes, infinite types, cycles through field accesses): every
    sequence of <= 2 statements `let v = [x; e(t)]` over three parameters (the universe of spec/FoInferSmall.tla) and every
    sequence of <= 3 statements of the field family of spec/FoResolverMC.tla; quick samples them.  The resolver must reach its
    fixpoint (or a diagnostic) on all of them."""
    head = ("package main\n\nimport frt\n\ntype IR1 = {A: int; B: string}\ntype IR3 = {C: int; D: string}\ntype IBox<T> = {Val: T; Tag: string}\n\n"
            "type IOpt<T> =\n| ISome of T\n| INone\n\nlet iwrap x =\n  {Val=x; Tag=\"w\"}\n\n")
    atoms = ["a", "b", "c", "1", '"s"']
    rhs = list(atoms) + ["[%s]" % x for x in atoms] + ["(%s, %s)" % (x, y) for x in atoms for y in atoms] + ["ISome %s" % x for x in atoms] + \
          ['{Val=%s; Tag="t"}' % x for x in atoms]
    eqs = ["[%s; %s]" % (x, t) for x in ("a", "b", "c") for t in rhs]
    fld = ["%s.%s + 1" % (x, f) for x in ("a", "b") for f in ("A", "C", "Val")] + \
          ["[a.%s; b.%s]" % (f, g) for f in ("A", "C", "Val") for g in ("A", "C", "Val")] + \
          ["[%s; %s]" % (x, w) for x in ("a", "b") for w in ('{A=1; B="s"}', '{C=3; D="d"}', "iwrap c", '{Val=2; Tag="t"}')] + \
          ["[a; b]", "[a.Val; c]", "[b.Val; c]", "c + 1", "[a; iwrap d]", "[b; iwrap d]", "d + 1", "[c; d]"]

    def fn(stmts):
        n = len(stmts)
        res = "v1" if n == 1 else "(" + ", ".join("v%d" % (i + 1) for i in range(n)) + ")" if n <= 3 else "v1"
        return head + "let q a b c d =\n" + "".join("  let v%d = %s\n" % (i + 1, st) for i, st in enumerate(stmts)) + "  " + res + "\n"
    out = []
    seqs = [(e,) for e in eqs] + [(e,) for e in fld]
    two = [(x, y) for x in eqs for y in eqs]
    f2 = [(x, y) for x in fld for y in fld]
    f3 = [(x, y, z) for x in fld for y in fld for z in fld]
    if tier == "thorough":
        seqs += two + f2 + f3
    else:
        seqs += rng.sample(two, 1200) + f2 + rng.sample(f3, 1500)
    for sq in seqs:
        out.append(("infer:" + " / ".join(sq), fn(list(sq))))
    return out


def buffers(rng, tier):
    """short whole-file buffers over the scanner-critical alphabet"""
    alpha = [" ", "\t", "/", "*", "\n", "a", "1", "\"", "\\", "`", "{", "}", "$"]
    out = []
    maxn = 4 if tier == "thorough" else 3
    for n in range(1, maxn + 1):
        for t in itertools.product(alpha, repeat=n):
            out.append(("buf:%r" % "".join(t), "".join(t)))
    for _ in range(20000 if tier == "thorough" else 1500):
        n = rng.randint(maxn + 1, 9)
        s = "".join(rng.choice(alpha) for _ in range(n))
        out.append(("buf:%r" % s, s))
    # the same after a valid prefix, so that the scanner is entered in the middle of a definition
    pre = "package main\n\nlet f () =\n  "
    for n in range(1, 3):
        for t in itertools.product(alpha, repeat=n):
            out.append(("pbuf:%r" % "".join(t), pre + "".join(t)))
    return out


def observe(wd, name, args_spec, res):
    """args_spec: list of (argname, foi, genpath or None)"""
    rc, so, se = res
    ann = [l[len("transpile: "):] for l in so.splitlines() if l.startswith("transpile: ")]
    other = [l for l in so.splitlines() if not l.startswith("transpile: ") and l.strip()]
    present = []
    badk = ""
    for i, (an, foi, gen) in enumerate(args_spec, 1):
        if gen and os.path.isfile(gen) and not os.path.islink(gen):
            if os.path.getsize(gen) > 0:
                present.append(i)
            else:
                badk = "partial"
    if rc == 124:
        badk = "hang"
    elif "fatal error:" in se or "goroutine stack exceeds" in se or "out of memory" in se or rc in (137, 139, -9, -11):
        badk = "fatal"
    return {"ann": ann, "code": rc, "present": present, "diag": bool(other or se.strip()), "bad": badk,
            "tail": ("\n".join(other)[-200:] + " | " + se.strip()[:200])}


def fault_vectors(ctx, wd):
    """TLC-style enumeration of fault vectors for <= 3 arguments (all kinds at every position)"""
    runs = []
    n = 0
    vecs = [v for k in (1, 2, 3) for v in itertools.product(KINDS, repeat=k)]
    if ctx.tier != "thorough":
        vecs = [v for v in vecs if len(v) <= 2] + [v for v in vecs if len(v) == 3 and (ctx.rng.random() < 0.25)]
    for vec in vecs:
        n += 1
        d = os.path.join(wd, "fv%d" % n)
        os.makedirs(d)
        spec = []
        for i, k in enumerate(vec):
            base = "a%d" % i
            fo = os.path.join(d, base + (".foi" if k == "foi" else ".fo"))
            gen = os.path.join(d, "gen_" + base + ".go")
            if k in ("ok", "unwritable", "devfull"):
                open(fo, "w").write(OK_SRC % (n * 10 + i, i))
            elif k == "foi":
                open(fo, "w").write(FOI_SRC % (n * 10 + i))
            elif k == "syntax":
                open(fo, "w").write(SYNTAX_SRC % (n * 10 + i))
            elif k == "infinite":
                open(fo, "w").write(INFINITE_SRC % (n * 10 + i))
            elif k == "isdir":
                os.makedirs(fo)
            if k == "unwritable":
                os.makedirs(gen)          # the destination is a directory: the write fails even for root
            if k == "devfull":
                os.symlink("/dev/full", gen)      # the destination opens, every write to it fails (ENOSPC)
            spec.append((fo, k == "foi", None if k == "foi" else gen))
        runs.append(("faults:" + ",".join(vec), d, spec))
    return runs


def scanner_layer(ctx):
    """white-box: scanTokenAt on every position of every short buffer, recorded by a test file dropped into the SCRATCH copy of fc/,
    validated by TLC against spec/FoLex.tla. Returns (lines, bad indices, differ indices) or None when the driver does not compile."""
    import shutil
    import subprocess
    sd = ctx.spec_dir()
    n = 4 if ctx.tier == "thorough" else 3
    from vlib import slicecheck as sc
    sc.write_cfg(ctx, "FoLexMC_run.cfg", "CONSTANTS\n  N = %d\n  Deviations <- NoDev\nINIT Init\nNEXT Next\n" % (n + 1 if ctx.tier == "thorough" else n + 1))
    ctx.tlc("FoLexMC", "FoLexMC_run.cfg", workers=1, timeout=3000, heap_gb=8)
    r = ctx.tlc("FoLexMC", "FoLexMC_dev.cfg", workers=1, timeout=600, allow_fail=True)
    if "is false" not in r["out"]:
        raise Infra("self-test: the scanner model without the end-of-buffer guard is not refuted (vacuous?)")
    fcdir = os.path.join(ctx.repo, "fc")
    shutil.copy(os.path.join(core.VERIF, "harness", "fcwhite", "zz_verif_scan_test.go"), os.path.join(fcdir, "zz_verif_scan_test.go"))
    rc, so, se = core.sh(["go", "test", "-c", "-tags", "verif", "-vet=off", "-o", os.path.join(ctx.mkdir("bin"), "scan.test"), "."], cwd=fcdir, timeout=900)
    os.remove(os.path.join(fcdir, "zz_verif_scan_test.go"))
    if rc != 0:
        ctx.note("white-box scanner layer skipped: the driver does not compile against this tree (%s)" % (so + se).strip().splitlines()[-1][:200])
        return None
    alpha = [" ", "\t", "/", "*", "\n", "a", "1", "\"", "\\", "`", "{", "}", "$"]
    bufs = [list(t) for k in range(0, n + 1) for t in itertools.product(alpha, repeat=k)]
    more = ["=", "(", ")", "[", "]", ":", ",", ".", ";", "|", ">", "<", "-", "&", "+", "_", "#", "x", "9"]
    for _ in range(4000 if ctx.tier == "thorough" else 800):
        bufs.append([ctx.rng.choice(alpha + more) for _ in range(ctx.rng.randint(n + 1, 10))])
    inp = os.path.join(sd, "lex_bufs.ndjson")
    outp = os.path.join(sd, "lex_trace.ndjson")
    core.write_ndjson(inp, bufs)
    if os.path.exists(outp):
        os.remove(outp)
    start = 0
    for attempt in range(50):
        env = dict(core.GOENV, VERIF_SCAN_IN=inp, VERIF_SCAN_OUT=outp, VERIF_SCAN_FROM=str(start))
        rc, so, se = core.sh([os.path.join(ctx.path("bin"), "scan.test"), "-test.run", "TestVerifScan"], env=env, timeout=1800)
        if rc == 0:
            break
        lines = core.read_ndjson(outp)
        if rc == 3 and lines and lines[-1].get("hang"):
            start = lines[-1]["i"]          # continue after the buffer that hung
            continue
        raise Infra("scanner driver failed (exit %d): %s" % (rc, (so + se)[-800:]))
    lines = core.read_ndjson(outp)
    core.write_ndjson(outp, lines)
    r = ctx.tlc("FoLexTrace", "FoLexTrace.cfg", workers=1, timeout=3000, heap_gb=8)
    nl, bad = sc.parse_trace_end(r["out"])
    _, differ = sc.parse_trace_end(r["out"], "DIFFER-END")
    if nl != len(lines):
        raise Infra("trace length mismatch")
    return lines, bad, differ


def run(ctx):
    ctx.rule = ("(a) every fault vector over {ok, .foi, syntax error, missing, directory, unwritable destination, destination that opens but cannot be written (/dev/full), infinite type} for 1-2 "
                "arguments (3 arguments sampled in quick, all in thorough); (b) mutants of corpus programs and of 2 samples: truncation at "
                "every offset, deletion / duplication of every token, swaps, indentation damage of every line, inserted delimiters / "
                "keywords / stray and non-UTF-8 bytes, missing final newline, CRLF; (c) systematic self-application shapes, ill-typed and "
                "extreme definitions (deep nesting, long chains, many definitions), small constraint systems as functions - well typed or not - from the "
                "universes of spec/FoInferSmall.tla and the field family of spec/FoResolverMC.tla (quick: 3,800 sampled, thorough: all 49,000); (d) all buffers <= 3 (quick) / 4 (thorough) over the "
                "13 scanner-critical characters plus random longer ones, alone and after a valid prefix; (e) white-box: scanTokenAt at every "
                "position of every buffer <= 3 / 4 over those characters plus random longer ones, validated against FoLex.tla. One run of the real binary each, "
                "(f) path shapes: sources in sub-directories, names with several dots, a blank, a doubled .fo - the gen file next to the source. time-out 20 s. distinct = distinct (arguments, contents); non-trivial = input differs from an unmodified program")
    r = ctx.tlc("FoDriverMC", "FoDriver_mc.cfg", workers=2, timeout=1800)
    # unbounded: the inductive invariant of the driver machine, for every argument list (TLA+ proof system)
    ctx.extra["tlaps_obligations_proved_FoDriverProof"] = ctx.tlapm("FoDriverProof")
    fc = ctx.build("fc")
    lex = scanner_layer(ctx)
    if lex is not None:
        llines, lbad, ldiffer = lex
        ctx.extra["scanner_calls_validated"] = len(llines)
        ctx.extra["scanner_model_disagreements"] = len(ldiffer)
        if ldiffer:
            t = llines[ldiffer[0] - 1]
            ctx.extra["scanner_model_first_disagreement"] = {k: t[k] for k in ("buf", "pos", "tt", "begin", "len", "panic")}
        for i, t in enumerate(llines):
            if i % 7 == 0:
                ctx.case(["scan", t["buf"], t["pos"]], nontrivial=True)
        for b in lbad[:10]:
            t = llines[b - 1]
            ctx.violation("scanTokenAt(%r, %d): %s" % ("".join(t["buf"]), t["pos"], "does not return (hang)" if t["hang"] else
                          "token [%s begin=%d len=%d] leaves the buffer or makes no progress" % (t["tt"], t["begin"], t["len"])),
                          {"tag": "scanner", "source": "".join(t["buf"]), "recorded": t})
    wd = ctx.mkdir("c16")
    repo = ctx.repo
    runs = fault_vectors(ctx, wd)
    progs = []
    cdir = os.path.join(core.VERIF, "corpus", "c16")
    for fn in sorted(os.listdir(cdir)):
        progs.append((fn, open(os.path.join(cdir, fn)).read()))
    for fn in ("union_match.fo", "generic_func.fo", "rawstring.fo"):
        progs.append((fn, open(os.path.join(repo, "samples", fn)).read()))
    singles = []
    for name, src in progs:
        singles += mutants(name, src, ctx.rng, ctx.tier == "thorough")
    singles += definitional(ctx.rng)
    singles += inference_systems(ctx.rng, ctx.tier)
    singles += buffers(ctx.rng, ctx.tier)
    seen = set()
    k = 0
    for tag, src in singles:
        h = core.h(src)
        if h in seen:
            continue
        seen.add(h)
        k += 1
        d = os.path.join(wd, "m%d" % (k // 500))
        os.makedirs(d, exist_ok=True)
        fo = os.path.join(d, "s%d.fo" % k)
        with open(fo, "w", encoding="latin1" if any(ord(c) > 127 and ord(c) < 256 for c in src) and tag.split(":")[0] in ("binary",) else "utf8", errors="surrogateescape") as f:
            f.write(src)
        runs.append((tag, d, [(fo, False, os.path.join(d, "gen_s%d.go" % k))]))
    # path shapes: gen_X.go is written NEXT TO X.fo, whatever directory and whatever dots / blanks the name has
    pd = os.path.join(wd, "paths")
    os.makedirs(os.path.join(pd, "sub", "deeper"))
    for pi, rel in enumerate(["sub/x.fo", "sub/deeper/y.fo", "a.b.fo", "my prog.fo", "x.fo.fo", "sub/a.b.c.fo"]):
        fo = os.path.join(pd, rel)
        open(fo, "w").write(OK_SRC % (900 + pi, pi))
        base = os.path.basename(rel)[:-3]
        runs.append(("paths:" + rel, pd, [(fo, False, os.path.join(os.path.dirname(fo), "gen_" + base + ".go"))]))
    # run everything: one process per run
    script = os.path.join(wd, "_run.sh")
    foi = os.path.join(repo, "pkg", "pkg_all.foi")
    with open(script, "w") as f:
        f.write("#!/bin/sh\nid=$1; shift\ntimeout %d %s \"$@\" > %s/r$id.out 2> %s/r$id.err\necho $? > %s/r$id.rc\n" % (TIMEOUT, fc, wd, wd, wd))
    os.chmod(script, 0o755)
    with open(os.path.join(wd, "_cmds.txt"), "w") as f:
        for i, (tag, d, spec) in enumerate(runs):
            single = len(spec) == 1 and not tag.startswith("faults:")
            argv = ([foi] if single else []) + [a for a, _, _ in spec]
            f.write(" ".join([str(i)] + ["'%s'" % a for a in argv]) + "\n")
    rc, so, se = core.sh(["sh", "-c", "xargs -P %d -L 1 %s < %s" % (core.NCPU, script, os.path.join(wd, "_cmds.txt"))], cwd=wd, timeout=7200)
    events = []
    obs = []
    for i, (tag, d, spec) in enumerate(runs):
        try:
            res = (int(open(os.path.join(wd, "r%d.rc" % i)).read().strip()),
                   open(os.path.join(wd, "r%d.out" % i), errors="replace").read(),
                   open(os.path.join(wd, "r%d.err" % i), errors="replace").read())
        except (OSError, ValueError):
            raise Infra("no result for run %d (%s)" % (i, tag))
        single = len(spec) == 1 and not tag.startswith("faults:")
        full_spec = ([(foi, True, None)] if single else []) + spec
        o = observe(wd, tag, full_spec, res)
        o["tag"] = tag
        o["spec"] = [(a, fo_) for a, fo_, _ in full_spec]
        obs.append(o)
        events.append({"ev": "start", "run": i + 1, "args": [{"name": a, "foi": fo_} for a, fo_, _ in full_spec]})
        for a in o["ann"]:
            events.append({"ev": "announce", "name": a})
        events.append({"ev": "exit", "code": o["code"], "present": o["present"], "diag": o["diag"], "bad": o["bad"]})
    sd = ctx.spec_dir()
    nxt = len(events) + 1
    for idx in range(len(events), 0, -1):          # index (1-based) of the next "start" event strictly after each event
        events[idx - 1]["next"] = nxt
        if events[idx - 1]["ev"] == "start":
            nxt = idx
    core.write_ndjson(os.path.join(sd, "driver_trace.ndjson"), events)
    r = ctx.tlc("FoDriverTrace", "FoDriverTrace.cfg", workers=1, timeout=3000, heap_gb=8)
    acc = set(int(x) for x in re.findall(r'<<"ACC",\s*(\d+)>>', r["out"]))
    cls = {}
    for i, o in enumerate(obs):
        fam = o["tag"].split(":")[0]
        ctx.case([o["tag"], o["spec"] if fam == "faults" else i], nontrivial=True,
                 sample={"input": o["tag"], "exit": o["code"], "announced": len(o["ann"]), "gen": o["present"]} if i % 1511 == 7 else None)
        key = "accepted" if o["code"] == 0 else ("diagnostic" if o["code"] in (1, 2) and not o["bad"] else "other")
        cls[key] = cls.get(key, 0) + 1
        if (i + 1) not in acc and fam == "finding" and o["bad"] and ctx.is_known("deep-nesting-stack-exhaustion"):
            if "deep-nesting-stack-exhaustion" not in ctx.known:
                ctx.known_finding("deep-nesting-stack-exhaustion", "a definition nested 100,000 levels deep (parentheses in an expression or a type, generic type "
                                  "arguments) kills fc with a Go stack overflow (fatal error, exit 2) instead of a diagnostic: %s" % o["tag"].split(":", 2)[2])
            continue
        if fam == "finding" and (i + 1) in acc:
            ctx.note("the known finding deep-nesting-stack-exhaustion does not reproduce for: %s (exit %d)" % (o["tag"], o["code"]))
        if (i + 1) not in acc:
            src = ""
            if fam != "faults":
                try:
                    src = open(o["spec"][-1][0], errors="replace").read()
                except OSError:
                    pass
            ctx.violation("fc run not explained by the driver machine: input %s -> exit %d, announced %d, gen files %s, diag=%s %s  [%s]" % (
                o["tag"], o["code"], len(o["ann"]), o["present"], o["diag"], ("** " + o["bad"] + " **") if o["bad"] else "", o["tail"][:300]),
                {"tag": o["tag"], "source": src[:20000], "recorded": {k: o[k] for k in ("ann", "code", "present", "diag", "bad", "tail")}})
    ctx.traces = len(obs)
    ctx.extra["outcomes"] = cls
    ctx.exhaustive = False
    ctx.assumptions += ["a run that needs more than 20 s on inputs of this size counts as non-termination (fc needs 2 s for its own 4.5 k lines)",
                        "a recovered panic printed as `<file>: <msg>` (exit 1) and an uncaught Go panic (exit 2) are diagnostics; `fatal error:` / "
                        "stack exhaustion / kill signals are not",
                        "a gen file counts as completely written when it exists and is non-empty (no partial-write fault is injected)"]


def replay(ctx, rep):
    fc = ctx.build("fc")
    wd = ctx.mkdir("c16r")
    fo = os.path.join(wd, "s.fo")
    with open(fo, "w") as f:
        f.write(rep.get("source", ""))
    rc, so, se = core.sh([fc, os.path.join(ctx.repo, "pkg", "pkg_all.foi"), fo], timeout=TIMEOUT + 5)
    o = observe(wd, "replay", [(os.path.join(ctx.repo, "pkg", "pkg_all.foi"), True, None), (fo, False, os.path.join(wd, "gen_s.go"))], (rc, so, se))
    ok = (not o["bad"]) and ((rc == 0 and o["present"] == [2]) or (rc != 0 and o["diag"] and not o["present"]))
    if not ok:
        ctx.violation("still fails: exit %d %s" % (rc, o["bad"]), {"tag": rep.get("tag"), "source": rep.get("source", ""), "recorded": o})
