from vlib import slicecheck
LEVEL = "model_checking"
def run(ctx):
    slicecheck.c12(ctx)
def replay(ctx, rep):
    slicecheck.c12_replay(ctx, rep)
