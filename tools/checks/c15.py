"""C15: type expressions. Terms enumerated by TLC (FoTypeExprCases.tla, which also checks parse(print(t)) = t for the
minimal and the redundant printer), written in each syntactic position of a Folang program, transpiled by the real fc;
the Go types are read back with go/parser and validated by TLC against GoText (FoTypeExprTrace.tla)."""
import json
import os
import re

from vlib import core, slicecheck, fcutil
from vlib.core import Infra

LEVEL = "model_checking"

HEADER = ("package main\n\nimport frt\nimport slice\nimport dict\nimport buf\n\npackage_info _ =\n  let extEmpty<T>: ()->[]T\n\n"
          "type Doc = {Body: Buffer; Keys: []Dict}\nand Buffer = {N: int}\nand Dict = {M: int}\n\n"
          "type unit = {UName: string}\ntype list = {LName: string}\ntype option = {OName: string}\ntype void = {VName: string}\ntype obj = {JName: string}\n\n"
          "type node_id = {I1: int}\ntype cost = {I2: int}\ntype node = {I3: int}\ntype id_cost = {I4: int}\n\n"
          "type Box<T> = {V: T}\n\ntype Duo<A, B> = {P: A; Q: B}\n\ntype Res<T> =\n| Succ of T\n| Fail\n\nlet ident x =\n  x\n\n")


def txt(toks):
    return "".join(toks)


def positions(term):
    # explicit type arguments: of a package-qualified function, a generic union case, a package_info function, a function of the file
    ps = ["param", "field", "payload", "targ", "targcase", "targext", "targfn", "result", "lamparam", "goeval", "innerparam"]
    if term[0] == "func":
        ps.append("pkginfo")
    return ps


def render(k, term, toks, pos):
    t = txt(toks)
    if pos == "param":
        return "let p%d (x: %s) =\n  0\n\n" % (k, t)
    if pos == "field":
        return "type R%d = {F: %s}\n\n" % (k, t)
    if pos == "payload":
        return "type U%d =\n| C%d of %s\n| D%d\n\n" % (k, k, t, k)
    if pos == "targ":
        return "let t%d () =\n  slice.New<%s> ()\n\n" % (k, t)
    if pos == "result":
        return "let r%d (x: %s) : %s =\n  x\n\n" % (k, t, t)
    if pos == "lamparam":
        return "let l%d () =\n  fun (x: %s) -> 0\n\n" % (k, t)
    if pos == "goeval":
        return "let e%d () =\n  GoEval<%s> \"nil\"\n\n" % (k, t)
    if pos == "innerparam":
        return "let i%d () =\n  let inner (x: %s) =\n    0\n  inner\n\n" % (k, t)
    if pos == "targcase":
        return "let t%d () =\n  Fail<%s> ()\n\n" % (k, t)
    if pos == "targext":
        return "let t%d () =\n  extEmpty<%s> ()\n\n" % (k, t)
    if pos == "targfn":
        return "let t%d (v: %s) =\n  ident<%s> v\n\n" % (k, t, t)
    if pos.startswith("hdr"):
        return ""                 # (declared once in the header: user types named like external types, mentioned before they are declared)
    if pos == "pkginfo":
        n = len(term[1])
        if term[1][0][0] == "unit":
            return "package_info _ =\n  let e%d: %s\n\nlet u%d () =\n  e%d ()\n\n" % (k, t, k, k)
        names = ["x", "y", "z"][:n]
        return "package_info _ =\n  let e%d: %s\n\nlet u%d %s =\n  e%d %s\n\n" % (k, t, k, " ".join(names), k, " ".join(names))
    raise Infra("bad position")


def nospace(s):
    return re.sub(r"\s+", "", s)


def extract(k, term, pos, info):
    """the Go type text at the position, from goast 'types' rows"""
    funcs, structs = info
    if pos == "param":
        f = funcs.get("p%d" % k)
        return nospace(f["params"][0]) if f and len(f["params"]) == 1 else None
    if pos == "field":
        s = structs.get("R%d" % k)
        return nospace(s[0][1]) if s and len(s) == 1 and s[0][0] == "F" else None
    if pos == "payload":
        s = structs.get("U%d_C%d" % (k, k))
        return nospace(s[0][1]) if s and len(s) == 1 and s[0][0] == "Value" else None
    if pos == "result":
        f = funcs.get("r%d" % k)
        return nospace("".join(f["results"])) if f else None
    if pos == "goeval":
        f = funcs.get("e%d" % k)
        return nospace("".join(f["results"])) if f else None
    if pos in ("lamparam", "innerparam"):
        f = funcs.get(("l%d" if pos == "lamparam" else "i%d") % k)
        r = nospace("".join(f["results"])) if f else ""
        return r[len("func("):-len(")int")] if r.startswith("func(") and r.endswith(")int") else None
    if pos in ("targ", "targcase", "targext", "targfn"):
        f = funcs.get("t%d" % k)
        return nospace(f["targs"][0]) if f and len(f["targs"]) == 1 else None
    if pos.startswith("hdr"):
        st = dict((a, b) for a, b in (structs.get("Doc") or []))
        return nospace(st[pos[3:]]) if pos[3:] in st else None
    if pos == "pkginfo":
        f = funcs.get("u%d" % k)
        if not f:
            return None
        return nospace("func(" + ",".join(f["params"]) + ")" + "".join(f["results"]))
    return None


def transpile_chunk(ctx, wd, idx, items):
    """items: list of (k, term, toks, pos, src). returns dict k -> got or ('rejected', msg)."""
    fo = os.path.join(wd, "ty%d.fo" % idx)
    with open(fo, "w") as f:
        f.write(HEADER + "".join(it[4] for it in items))
    gen = fcutil.gen_name(fo)
    if os.path.exists(gen):
        os.remove(gen)
    rc, so, se = fcutil.run_fc(ctx, [fo], timeout=600)
    if rc == 0 and os.path.exists(gen):
        rows, perr = fcutil.goast(ctx, "types", gen)
        if rows is not None:
            funcs = {r["name"]: r for r in rows if "name" in r}
            structs = {r["struct"]: r["fields"] for r in rows if "struct" in r}
            res = {}
            for k, term, toks, pos, src in items:
                g = extract(k, term, pos, (funcs, structs))
                res[k] = g if g is not None else ("rejected", "declaration not found in emitted Go")
            return res
        msg = "emitted Go does not parse: " + perr
    else:
        msg = "fc exit %d: %s" % (rc, (so.splitlines()[-1] if so.strip() else se[-300:])[:300])
    if len(items) == 1:
        return {items[0][0]: ("rejected", msg)}
    mid = len(items) // 2
    res = transpile_chunk(ctx, wd, idx * 2 + 1000000, items[:mid])
    res.update(transpile_chunk(ctx, wd, idx * 2 + 1000001, items[mid:]))
    return res


def run_items(ctx, specs):
    """specs: list of (term, toks, printer, pos, go)"""
    wd = ctx.mkdir("c15")
    ctx.build("fc")
    fcutil.build_goast(ctx)
    items = [(k, s[0], s[1], s[3], render(k, s[0], s[1], s[3])) for k, s in enumerate(specs)]
    chunks = [items[i:i + 1200] for i in range(0, len(items), 1200)]
    parts = core.pmap(lambda a: transpile_chunk(ctx, wd, a[0], a[1]), list(enumerate(chunks)))
    got = {}
    for p in parts:
        got.update(p)
    lines = []
    for k, s in enumerate(specs):
        g = got[k]
        rej = isinstance(g, tuple)
        lines.append({"term": s[0], "printer": s[2], "pos": s[3], "status": g[1] if rej else "ok", "got": "" if rej else g,
                      "src": items[k][4]})
    sd = ctx.spec_dir()
    core.write_ndjson(os.path.join(sd, "type_trace.ndjson"), [{k: l[k] for k in ("term", "pos", "status", "got")} for l in lines])
    r = ctx.tlc("FoTypeExprTrace", "FoTypeExprTrace.cfg", workers=1, timeout=3000, heap_gb=6)
    n, bad = slicecheck.parse_trace_end(r["out"])
    if n != len(lines):
        raise Infra("trace length mismatch")
    return lines, bad


def depth(t):
    if t[0] in ("base", "unit"):
        return 0
    if t[0] == "slice":
        return 1 + depth(t[1])
    if t[0] == "tuple":
        return 1 + max(depth(x) for x in t[1])
    if t[0] == "func":
        return 1 + max([depth(x) for x in t[1]] + [depth(t[2])])
    if t[0] == "named":
        return (1 + max(depth(x) for x in t[2])) if t[2] else 0
    return 0


def run(ctx):
    ctx.rule = ("type terms enumerated by TLC: every term of depth <= 1 over int/string/bool/any/float and buf.Buffer (slices, 2-tuples, "
                "function types with 1-2 arguments incl. unit argument/result, Box<T>, Duo<A,B>, dict.Dict<K,V>; 3-tuples over 3 bases), depth 2 over "
                "int/string with one deep component per constructor (thorough: every depth <= 1 term in every position, 86 k terms), and 5 hand-picked depth 3 terms; each printed with minimal and with "
                "redundant parentheses, in each applicable position (parameter annotation, record field, union payload, explicit type "
                "argument of slice.New / of a generic union case / of a package_info function / of a generic function of the file, "
                "a result annotation, the parameter of a lambda / of an inner function, the type argument of GoEval, package_info signature for function types). distinct = distinct (term, printer, position); non-trivial = "
                "depth >= 2 (counted separately in the evidence: depth >= 1)")
    sd = ctx.spec_dir()
    slicecheck.write_cfg(ctx, "FoTypeExprCases_run.cfg", "CONSTANTS\n  Depth2 = TRUE\n  Full2 = %s\n  OutFile = \"type_cases.ndjson\"\nINIT Init\nNEXT Next\n" % ("TRUE" if ctx.tier == "thorough" else "FALSE"))
    ctx.tlc("FoTypeExprCases", "FoTypeExprCases_run.cfg", workers=1, timeout=3000, heap_gb=8)
    rows = core.read_ndjson(os.path.join(sd, "type_cases.ndjson"))
    specs = []
    for r in rows:
        for pos in positions(r["term"]):
            if r["term"][0] == "unit":
                continue
            specs.append((r["term"], r["min"], "min", pos, r["go"]))
            if r["red"] != r["min"]:
                specs.append((r["term"], r["red"], "red", pos, r["go"]))
    # user types whose short names are those of external types (buf.Buffer, dict.Dict), mentioned before their declaration in a
    # `type .. and ..` group: they are the user's types, not package-qualified
    specs.append((["named", "Buffer", []], ["Buffer"], "min", "hdrBody", "Buffer"))
    specs.append((["slice", ["named", "Dict", []]], ["[]", "Dict"], "min", "hdrKeys", "[]Dict"))
    # user types with names that are keywords or built-in types of related languages (unit, list, option, void, obj): ordinary names here
    for nm in ("unit", "list", "option", "void", "obj"):
        nt = ["named", nm, []]
        for term, toks, go in ((nt, [nm], nm), (["slice", nt], ["[]", nm], "[]" + nm), (["tuple", [nt, ["base", "int"]]], [nm, "*", "int"], "frt.Tuple2[%s,int]" % nm),
                               (["func", [nt], ["base", "int"]], [nm, "->", "int"], "func(%s)int" % nm), (["named", "Box", [nt]], ["Box", "<", nm, ">"], "Box[%s]" % nm)):
            for pos in ("param", "field", "payload", "targ", "result"):
                specs.append((term, toks, "min", pos, go))
    # two instances of one generic type whose type argument NAMES joined by _ coincide (node_id + cost / node + id_cost), in one file
    for a, b in (("node_id", "cost"), ("node", "id_cost")):
        for pos in ("param", "field", "payload", "targ", "result"):
            specs.append((["named", "Duo", [["named", a, []], ["named", b, []]]], ["Duo", "<", a, ",", " ", b, ">"], "min", pos, "Duo[%s,%s]" % (a, b)))
    lines, bad = run_items(ctx, specs)
    d1 = 0
    for i, l in enumerate(lines):
        dp = depth(l["term"])
        d1 += dp >= 1
        ctx.case([l["term"], l["printer"], l["pos"]], nontrivial=dp >= 2,
                 sample={"folang": txt(specs[i][1]), "pos": l["pos"], "go": l["got"]} if i % 3989 == 13 else None)
    ctx.traces = len(lines)
    ctx.exhaustive = True
    ctx.extra["terms"] = len(rows)
    ctx.extra["cases_depth_ge_1"] = d1
    for b in bad[:40]:
        l = lines[b - 1]
        ctx.violation("type expression `%s` (%s printer) in position %s: emitted Go type %r, status %s; expected %s" % (
            txt(specs[b - 1][1]), l["printer"], l["pos"], l["got"], l["status"], specs[b - 1][4]),
            {"spec": list(specs[b - 1]), "recorded": l})
    ctx.assumptions += ["Go types are read back with go/parser + go/printer and compared after removing white space",
                        "the package_info position is exercised with function-typed terms (the declared signature reaches the emitted Go through inference of an un-annotated caller)"]


def replay(ctx, rep):
    s = rep["spec"]
    lines, bad = run_items(ctx, [tuple(s)])
    for b in bad:
        ctx.violation("type expression still mapped wrongly", {"spec": s, "recorded": lines[b - 1]})
