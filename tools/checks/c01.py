"""C01: transpiled programs behave as their source specifies.
Abstract programs (type-directed generator tools/vlib/fogen.py, seeded) are rendered to Folang, transpiled by the real fc (one
process per program), compiled and run; the events recorded by the Probe / Mark calls the programs themselves contain are
validated, one TLC state per event, against the semantics spec/FoSem.tla (FoSemTrace.tla)."""
import json
import os
import random

from vlib import core, fogen, semrun
from vlib.core import Infra

LEVEL = "model_checking"


def run_programs(ctx, progs):
    wd = ctx.mkdir("c01")
    ctx.build("fc")
    texts = [fogen.render(p) for p in progs]
    tr = semrun.transpile_all(ctx, wd, progs, texts)
    observed = {}
    ok_ids = []
    for p in progs:
        rc, diag = tr[p["id"]]
        if rc != 0:
            observed[p["id"]] = {"events": [], "status": "fc rejects the program (exit %d): %s" % (rc, diag), "result": ""}
        else:
            ok_ids.append(p["id"])
    batches = [ok_ids[i:i + 250] for i in range(0, len(ok_ids), 250)]
    results = core.pmap(lambda a: semrun.build_and_run(ctx, wd, a[1], a[0]), list(enumerate(batches)), workers=4)
    for traces, status in results:
        for k, t in traces.items():
            observed[k] = t
        for k, msg in status.items():
            observed[k] = {"events": [], "status": msg, "result": ""}
    for p in progs:
        observed.setdefault(p["id"], {"events": [], "status": "no output", "result": ""})
    bad = semrun.validate(ctx, progs, observed)
    return texts, observed, bad


def finding_probe(pid):
    """the designated probe of the known finding partial-app-effectful-arg: fc evaluates the supplied arguments of a partial
    application inside the closure (at every call, after the call's own arguments) instead of at the application"""
    f = {"name": "p%dadd" % pid, "params": ["a", "b"], "ptypes": [fogen.INT, fogen.INT], "rtype": fogen.INT,
         "body": {"stmts": [{"k": "mark", "tag": "p%dinf" % pid}], "fin": {"k": "bin", "op": "+", "a": {"k": "var", "x": "a"}, "b": {"k": "var", "x": "b"}}}}
    main = {"stmts": [{"k": "let", "x": "g", "e": {"k": "app", "f": f["name"], "args": [{"k": "probe", "tag": "p%da1" % pid, "e": {"k": "int", "v": 1}}]}},
                      {"k": "mark", "tag": "p%dm1" % pid}],
            "fin": {"k": "app", "f": "g", "args": [{"k": "probe", "tag": "p%da2" % pid, "e": {"k": "int", "v": 2}}]}}
    return {"id": pid, "profile": "fc", "types": [], "funcs": [f], "main": main, "mtype": fogen.INT}


def finding_probe2(pid):
    """the designated probe of the known finding dangling-else-inner-if-only"""
    inner = {"k": "if", "c": {"k": "bool", "v": True}, "t": {"stmts": [{"k": "mark", "tag": "p%dt2" % pid}], "fin": {"k": "unit"}}, "e": {"k": "none"}}
    outer = {"k": "if", "c": {"k": "bool", "v": True}, "t": {"stmts": [{"k": "mark", "tag": "p%dt1" % pid}, {"k": "expr", "e": inner}], "fin": {"k": "unit"}},
             "e": {"stmts": [{"k": "mark", "tag": "p%de" % pid}], "fin": {"k": "unit"}}}
    return {"id": pid, "profile": "fc", "types": [], "funcs": [], "main": {"stmts": [{"k": "expr", "e": outer}], "fin": {"k": "int", "v": 1}}, "mtype": fogen.INT}


def finding_probe3(pid):
    """the designated probe of the known finding same-block-shadowing: let x = 1 / let x = x + 1 in one block"""
    v = {"k": "var", "x": "x"}
    return {"id": pid, "profile": "fc", "types": [], "funcs": [],
            "main": {"stmts": [{"k": "let", "x": "x", "e": {"k": "probe", "tag": "p%ds1" % pid, "e": {"k": "int", "v": 1}}},
                               {"k": "let", "x": "x", "e": {"k": "bin", "op": "+", "a": v, "b": {"k": "int", "v": 1}}}],
                     "fin": {"k": "probe", "tag": "p%ds2" % pid, "e": v}}, "mtype": fogen.INT}


def finding_probe4(pid):
    """the designated probe of the known finding string-match-var-in-literal-rules: the rule variable of a string match has the name of an
    outer variable that a LITERAL rule uses"""
    v = {"k": "var", "x": "v"}
    bang = lambda e, c: {"k": "bin", "op": "+", "a": e, "b": {"k": "str", "v": c}}
    return {"id": pid, "profile": "fc", "types": [], "funcs": [],
            "main": {"stmts": [{"k": "let", "x": "v", "e": {"k": "str", "v": "outer"}}, {"k": "let", "x": "s", "e": {"k": "str", "v": "a"}}],
                     "fin": {"k": "smatch", "target": {"k": "var", "x": "s"},
                             "arms": [{"lit": "a", "body": {"stmts": [], "fin": {"k": "probe", "tag": "p%dlit" % pid, "e": bang(v, "!")}}}],
                             "last": {"k": "var", "x": "v", "body": {"stmts": [], "fin": bang(v, "?")}}}}, "mtype": fogen.STR}


def run(ctx):
    ctx.rule = ("well-typed programs of the documented profile from the seeded type-directed generator (records with upper / lower case "
                "fields, unions with payloads of scalars / tuples / records / slices / other unions, functions, inner functions with "
                "capture, lambdas, partial application bound to locals and as pipeline stages, pipes, if / elif / else, if without else, "
                "union and string match with bind / ignore / default arms, tuples, destructuring, slices and library pipelines, "
                "interpolation, = / <>; Probe on sub-expressions and Mark in blocks); quick 400, thorough 20000 programs; plus the systematic "
                "kernels (all boolean trees of depth 2 over && || not with probed atoms, operand / argument / element / field order, "
                "partial application at every arity, if / elif / else chains under every truth assignment, union match over every "
                "constructor x arm order x default x payload form for unions of 1-3 cases, string match, closures). distinct = "
                "distinct programs (hash of the abstract syntax); non-trivial = the specified trace has >= 2 events")
    n = 20000 if ctx.tier == "thorough" else 400
    rng = random.Random(ctx.seed * 7919 + 1)
    progs = [fogen.generate(rng, i + 1, size=rng.randint(1, 4)) for i in range(n)]
    kern = fogen.kernels(n + 1)
    ctx.extra["kernel_programs"] = len(kern)
    progs += kern
    fid = len(progs) + 1
    progs.append(finding_probe(fid))
    fid2 = fid + 1
    progs.append(finding_probe2(fid2))
    fid3 = fid2 + 1
    progs.append(finding_probe3(fid3))
    fid4 = fid3 + 1
    progs.append(finding_probe4(fid4))
    texts, observed, bad = run_programs(ctx, progs)
    for i, p in enumerate(progs):
        o = observed[p["id"]]
        ctx.case(fogen.to_spec(p), nontrivial=len(o["events"]) >= 2,
                 sample={"program": texts[i][texts[i].find("let p%dmain" % p["id"]):][:400], "events": o["events"][:6], "status": o["status"]} if i % 131 == 7 else None)
    ctx.traces = len(progs)
    ctx.extra["events_validated"] = sum(len(o["events"]) for o in observed.values())
    ctx.exhaustive = False
    for idx, pos, exp in list(bad):
        if progs[idx]["id"] == fid:
            bad.remove((idx, pos, exp))
            if ctx.is_known("partial-app-effectful-arg"):
                ctx.known_finding("partial-app-effectful-arg", "let g = f (Probe a1 1); Mark m1; g (Probe a2 2): the supplied argument is evaluated at the call of g (observed m1,a2,a1), not at the application (a1,m1,a2)")
            else:
                bad.append((idx, pos, exp))
    for idx, pos, exp in list(bad):
        if progs[idx]["id"] == fid2:
            bad.remove((idx, pos, exp))
            if ctx.is_known("dangling-else-inner-if-only"):
                ctx.known_finding("dangling-else-inner-if-only", "if a then / Mark t1 / if b then / Mark t2 (multi-line, no else) / else (at the outer if's column) / Mark e: fc gives the else to the inner if and rejects the program (Overrun offside rule)")
            else:
                bad.append((idx, pos, exp))
    for idx, pos, exp in list(bad):
        if progs[idx]["id"] == fid3:
            bad.remove((idx, pos, exp))
            if ctx.is_known("same-block-shadowing"):
                ctx.known_finding("same-block-shadowing", "let x = 1 / let x = x + 1 in one block (also a let with the name of a parameter in the function's own block): emitted as two `x := ...` in one Go block, the Go does not compile")
            else:
                bad.append((idx, pos, exp))
    for idx, pos, exp in list(bad):
        if progs[idx]["id"] == fid4:
            bad.remove((idx, pos, exp))
            if ctx.is_known("string-match-var-in-literal-rules"):
                ctx.known_finding("string-match-var-in-literal-rules", "let v = \"outer\" / match s with | \"a\" -> v + \"!\" | v -> v + \"?\" with s = \"a\": the literal rule sees the rule variable v (the matched string) instead of the outer v: a! instead of outer!")
            else:
                bad.append((idx, pos, exp))
    # the designated probe of the known finding sinterp-token-column (run directly: the probe is about acceptance only)
    pd = ctx.mkdir("c01probe5")
    with open(os.path.join(pd, "sip.fo"), "w") as fh:
        fh.write("package main\n\nimport frt\n\nlet main () =\n  $\"first\" |> frt.Println\n  let n = 2\n  frt.Printf1 \"%d\\n\" n\n")
    from vlib import fcutil
    rc5, so5, se5 = fcutil.run_fc(ctx, [os.path.join(pd, "sip.fo")], timeout=60)
    if rc5 != 0:
        if ctx.is_known("sinterp-token-column"):
            ctx.known_finding("sinterp-token-column", "let main () = / $\"first\" |> frt.Println / let n = 2 / ..: the first statement of the block starts with an interpolated literal, whose token begins at the quote (one column right of the $); the following statements end the block and fc rejects the program (%s)" % (so5.strip().splitlines()[-1].split(":")[-1].strip() if so5.strip() else "exit %d" % rc5))
        else:
            ctx.violation("a block whose first statement starts with an interpolated literal is rejected: " + so5[-200:], {"kind": "sinterp-probe"})
    elif ctx.is_known("sinterp-token-column"):
        ctx.note("the known finding sinterp-token-column no longer reproduces (apparently repaired)")
    if "dangling-else-inner-if-only" not in ctx.known and not any(progs[idx]["id"] == fid2 for idx, _, _ in bad):
        ctx.note("the known finding dangling-else-inner-if-only no longer reproduces (apparently repaired)")
    if not any(progs[idx]["id"] == fid for idx, _, _ in bad) and "partial-app-effectful-arg" not in ctx.known:
        ctx.note("the known finding partial-app-effectful-arg no longer reproduces (apparently repaired)")
    for idx, pos, exp in bad[:25]:
        p = progs[idx]
        o = observed[p["id"]]
        got = o["events"][pos - 1] if pos <= len(o["events"]) else ["<end>", o["status"] + " " + o["result"]]
        ctx.violation("program p%d: at event %d the emitted program did %s, the semantics prescribes %s\n%s" % (
            p["id"], pos, json.dumps(got), exp, texts[idx]), {"program": p, "text": texts[idx], "observed": o, "position": pos, "expected": exp})
    ctx.assumptions += ["spec/FoSem.tla is the intended semantics (strict, left to right, lexical scope); harness/probe/probe.go decodes Go values by the documented representation",
                        "the generator stays inside the documented profile (DESIGN.md 8a); the known finding partial-app-effectful-arg is not generated"]


def replay(ctx, rep):
    texts, observed, bad = run_programs(ctx, [rep["program"]])
    for idx, pos, exp in bad:
        ctx.violation("program still misbehaves at event %d" % pos, {"program": rep["program"], "text": texts[0], "observed": observed[rep["program"]["id"]]})
