#!/usr/bin/env python3
"""Regenerates MANIFEST.json from the table below (python3 tools/mkmanifest.py)."""
import json, os
V = os.path.dirname(os.path.dirname(os.path.abspath(__file__)))
ids = [json.loads(l)["id"] for l in open(os.path.join(V, "properties.jsonl"))]

CHECKS = {
 "C12": dict(
   category="model_checking", design_ref="4.12", engine="GoSliceHeap",
   technique="TLA+ heap machine (GoSliceHeap.tla) model-checked with TLC; TLC-generated histories replayed on the real pkg/slice; recorded pool contents trace-validated against the machine (GoSliceHeapTrace.tla)",
   text="The Go heap semantics of every pkg/slice function is an explicit TLA+ machine whose invariant Purity is model-checked exhaustively for small bounds (and shown non-vacuous by 5 named wrong implementations, each refuted by TLC). Behaviours of the machine (TLC simulation, plus the counterexample histories of the wrong implementations) are replayed on the real package for int and string elements; after every call the observed contents of every pool value are validated by TLC against the machine, so a call that changes an existing value is rejected at the step where it happens. The whole C13 call table is also run on arguments that are views of live parent values.",
   note="Trusted: the Go driver records contents faithfully; histories are bounded (<= 10 calls, values <= 6 elements); only observable contents are judged, not capacities or array identity."),
 "C13": dict(
   category="model_checking", design_ref="4.13", engine="SliceLib",
   technique="TLA+ functional specification (SliceLib.tla); TLC enumerates the complete call table for a bounded universe, the real package executes it, TLC validates every recorded call against the post-conditions (SliceLibTrace.tla)",
   text="Every function of pkg/slice is specified as an operator on TLA+ sequences with an explicit post-condition (including the left-to-right callback order of Map/Iter/Filter/Forall/Forany/TryFind/Fold). TLC checks algebraic laws of the specification, enumerates every call in the domain for all sequences over a small alphabet up to a length bound, and validates each result recorded from the real package (int and string instantiation, three memory shapes of the argument). Exhaustive under the bound.",
   note="Trusted: SliceLib.tla as the meaning of the F#-List style functions; the driver; universe bounded to sequences of length <= 4 (quick) / <= 5 (thorough) over 3-4 element values."),
 "C14": dict(
   category="model_checking", design_ref="4.14", engine="FoDict/FoLib",
   technique="TLA+ finite-map machine (FoDict.tla) and library specification (FoLib.tla); TLC-enumerated call table and TLC-generated dictionary histories executed on the real packages; recorded replies trace-validated by TLC (FoDictTrace.tla, FoLibTrace.tla)",
   text="pkg/dict is an explicit finite-map machine with several independent dictionaries, model-checked for its map laws; all histories of depth 3 and seeded simulated histories of depth 12 are replayed on the real package and every reply (bags for Keys/Values/KVs) is validated step by step by TLC. pkg/strings, pkg/buf and the frt helpers are specified as operators over character sequences / thunk logs; TLC enumerates every call for all strings up to a length bound and validates the recorded results; the formatting helpers are driven with boundary values of every basic Go kind.",
   note="Trusted: FoLib.tla/FoDict.tla as the intended meaning (argument order from pkg_all.foi, Go semantics for Split/SplitN); ASCII strings only in the enumerated universe; Sprintf1/2 compared with Go's fmt, SInterP integers with strconv."),
 "C10": dict(
   category="model_checking", design_ref="4.10", engine="FoEq",
   technique="TLA+ specification of structural equality (FoEq.tla) with TLC checking the equivalence laws and enumerating every same-typed pair of a bounded value universe; results of the real frt.OpEqual/OpNotEqual on fc-emitted Go types validated by TLC (FoEqTrace.tla)",
   text="StructEq over a bounded universe of first-order values (16 Folang types; every slice in each library-produced representation: literal, slice.New, nil from Filter/Map, Take/Skip results, PopLast/Tail views, views of the other operand's own array) is checked by TLC to be an equivalence that ignores representations. Every same-typed pair is then evaluated by the real runtime (a = b, a <> b, b = a, under recover) on values of the Go types fc itself emits for the declarations, and TLC validates each recorded result. Exhaustive under the bound.",
   note="Trusted: FoEq.tla's StructEq; the decoder of drv_eq that builds Go values from abstract values; nesting depth <= 3; generic OpEqual is instantiated at the static Folang type."),
 "C08": dict(
   category="model_checking", design_ref="4.8", engine="FoPrec",
   technique="TLA+ model of the precedence-climbing loop and of the declarative grouping (FoPrec.tla), TLC checks them equal on every enumerated chain; the chains are transpiled by the real fc, the emitted Go expression trees are recovered with go/parser and validated by TLC (FoPrecTrace.tla)",
   text="The published operator table, the parser's precedence-climbing loop (as a machine) and the declarative grouping are explicit in TLA+; TLC proves machine = declarative for all 22,620 chains of 1-4 non-pipe operators plus operand variants (application, not, parentheses) and pipe combinations, and validates, for each of them and for line-broken layouts, the expression tree read back from the Go that the real fc emits. Exhaustive over the stated space in both tiers (thorough adds every line-break position).",
   note="Trusted: go/parser reading of the emitted Go; the renderer that prints a token chain as a Folang function; operands are int parameters (fc does not type-check operators)."),
 "C09": dict(
   category="model_checking", design_ref="4.9", engine="FoMatch",
   technique="TLA+ model of the exhaustiveness decision (FoMatch.tla: marking machine vs declarative coverage, checked equal by TLC on every enumerated configuration); every configuration is one run of the real fc binary, accepted programs are compiled and run on every constructor, observations validated by TLC (FoMatchTrace.tla)",
   text="TLC enumerates every union with 1..4 cases (quick; 5 in thorough) x payload mixes x ordered non-empty arm subsets x arm forms x default/no default, proves the parser's marking procedure equal to the declarative coverage condition, and validates what the real fc binary did on each configuration (exit status, output file, diagnostic naming an uncovered case, no runtime fatal error) in the plain context and nested in let/if/arm/lambda, after earlier matches on the same union in the same run, and on un-annotated targets; accepted programs are compiled and called with every constructor and must dispatch to the matching arm and never reach the emitted panic.",
   note="Trusted: the renderer of configurations into Folang; whole-word search of case names in fc's diagnostic; payloads are ints; quick tier samples the non-plain contexts by seed."),
 "C15": dict(
   category="model_checking", design_ref="4.15", engine="FoTypeExpr",
   technique="TLA+ model of the 4-level type grammar as a recursive-descent machine, two printers and the Go mapping (FoTypeExpr.tla); TLC checks parse(print(t)) = t on every enumerated term; the terms are written in every syntactic position, transpiled by the real fc, the Go types read back with go/parser and validated by TLC (FoTypeExprTrace.tla)",
   text="Type terms up to depth 2 (plus selected depth 3) over the base types, slices, 2/3-tuples, function types incl. unit argument/result, a generic user record and generic/plain external types are enumerated by TLC; for both a minimal-parentheses and a redundant-parentheses printer TLC checks that the grammar machine parses the text back to the same term, and validates the Go type that the real fc emits for the text in each of the 5 positions against the documented mapping. Exhaustive under the bound.",
   note="Trusted: go/parser + go/printer normalisation (white space removed on both sides); the renderer placing a type text into each position; the universe bound (depth 2 with one deep component per constructor)."),
 "C11": dict(
   category="model_checking", design_ref="4.11", engine="FoLiteral",
   technique="TLA+ specification of literal denotation and of the implementation pipeline (scanner, ParseSInterP, Go string syntax, Sprintf) in FoLiteral.tla; TLC checks pipeline = denotation on every enumerated literal; literals are transpiled by the real fc, compiled and run, and the resulting bytes validated by TLC (FoLiteralTrace.tla)",
   text="A literal is an abstract sequence of segments (plain character, escape, brace escape, hole) in one of the 4 forms; its source text and its documented value are both derived in TLA+. TLC checks a stage-by-stage model of the implementation against the denotation for all legal literals up to 2 (quick) / 3 (thorough) segments over a critical alphabet, and validates the bytes that the emitted Go program really computes for those literals, for every printable ASCII and several multi-byte characters in each form, for int/string/bool holes in all placements, and for seeded random bodies up to 40 segments.",
   note="Trusted: the renderer and the byte-to-character-name decoder; hole values are an int, a string containing % and a bool; bodies that are not literals of the form are not generated; Go compile errors are attributed to the literal function containing the reported line."),
 "C18": dict(
   category="model_checking", design_ref="4.18", engine="FoSampleMd",
   technique="TLA+ machine of build_sample_md (FoSampleMd.tla: ReadList / ConvOne / FailOne / WriteReadme) model-checked with TLC over an enumerated scenario universe; each scenario staged and run through the real tool; the observed event trace (announced entries, exit, README structure) validated action by action by TLC (FoSampleMdTrace.tla)",
   text="The tool is an explicit machine whose invariants (a written README has exactly one section per entry in list order with verbatim content; a failed run leaves README.md untouched; it fails iff a listed file is unreadable) are model-checked on every scenario TLC enumerates (list shapes with blank lines, titles with several/leading/no spaces, file names whose base ends in f/o/., no .fo suffix, a missing file at each position, adversarial file contents, a longer pre-existing README). Every scenario is run through the rebuilt tool and its observed events are validated against the machine's actions. Exhaustive under the bound (<= 2 entries quick, <= 3 thorough).",
   note="Trusted: the structural reader of README.md (recognises the staged contents verbatim, tolerant to spacing); `process:` lines as the announcement events; scenario universe bound."),
 "C04": dict(
   category="model_checking", design_ref="4.4", engine="FoBootstrap",
   technique="TLA+ machine of the self-hosting chain (FoBootstrap.tla: Build / Transpile / Fmt / Compare over two compiler generations), model-checked on an abstract repository; the real chain is executed in a scratch copy and its event log with SHA-256 hashes is validated by TLC (FoBootstrapTrace.tla), which reports differing and uncovered files",
   text="The harness builds fc from the working tree, runs the repository's own recipes (fc_all.sh, per-sample, the tool, README.md via the rebuilt tool), rebuilds the compiler from the regenerated files and repeats; every step is an event with content hashes. TLC validates the log against the bootstrap machine: each event must be an enabled action in order (compare only after transpile+format, compiler 2 built from exactly out[1]), every listed source must be compared in both generations, and every comparison must be equal. The quantifier (35 files x 2 generations) is finite and covered completely in both tiers.",
   note="Thinly served by TLA+ (one concrete trace): the byte comparison is by SHA-256 in the harness, the specification contributes ordering / coverage / provenance obligations and the verdict. Trusted: Go toolchain, gofmt. samples/*.fo not in filelist.txt are outside the property (gen_noarg_funcall.go is stale on the pinned tree)."),
 "C16": dict(
   category="model_checking", design_ref="4.16", engine="FoDriver",
   technique="TLA+ machine of the fc driver (FoDriver.tla) model-checked for safety and termination, and character-level model of the scanners (FoLex.tla) model-checked for in-bounds termination on all short buffers; fault vectors, a mutation campaign and scanner-critical buffers run through the real binary, black-box observations validated by TLC, which infers the unlogged read/parse/write outcomes (FoDriverTrace.tla); scanTokenAt replayed white-box on every position of every short buffer and validated against FoLex (FoLexTrace.tla)",
   text="The driver machine (announce, read, parse, write per argument, exit) is model-checked: exit 0 implies every requested file written, a failure is clean (diagnostic, nothing for the offending and later files), every behaviour terminates. Every run of the real binary - fault vectors (missing input, directory, unwritable destination, syntax error, infinite type, .foi), thousands of mutants of valid programs (truncation at every offset, token deletion/duplication/swap, indentation damage, unterminated constructs, stray bytes), self-referential / ill-typed / extreme definitions and short buffers over the scanner-critical alphabet - is observed black-box and accepted only if some behaviour of the machine explains it; hangs (20 s), Go runtime fatal errors and silent failures are rejections.",
   note="Trusted: the 20 s time-out as non-termination on inputs of this size; stderr classification of Go fatal errors; a gen file counts as complete when it exists and is non-empty. The white-box scanner driver is a test file dropped into the scratch copy of fc/ (skipped, with a note in the evidence, if fc's internals no longer match); disagreement between FoLex and the code on token types is reported as information only, the verdicts are hang / out-of-bounds / no progress."),
 "C05": dict(
   category="model_checking", design_ref="4.5", engine="FoDictOrder",
   technique="TLA+ model of enumeration-order choice points and of fc's consumers of an enumeration (FoDictOrder.tla); TLC decides which consumers are order-independent and enumerates the schedules with a bounded number of perturbed calls from the recorded call sequence; each schedule is replayed on the real fc through the guarded dict hook; results validated by TLC (FoDictOrderTrace.tla)",
   text="Every dict.Keys/Values/KVs call of a run is a scheduling choice. TLC checks, for all dictionaries up to 3 entries, that sort-then-first-match, iterate-register and set-union consumers are permutation independent and that first-match is independent exactly when at most one entry matches; from the call sequence recorded by the hook it enumerates all schedules with one perturbed call (reverse, rotations, adjacent transpositions). Each schedule, plus full reverse/rotate/random schedules and repeated runs of the un-hooked binary under Go's own map randomisation, must reproduce the canonical run's exit status and byte-identical files, for corpus programs built to stress the order-sensitive consumers, samples and fc's own sources.",
   note="Trusted: the hook's canonical order (sort on printed key); systematic exploration is bounded (one perturbed call per schedule; sampled by seed for long runs in quick); nondeterminism that bypasses pkg/dict is only reachable by the repeated un-hooked runs."),
 "C07": dict(
   category="model_checking", design_ref="4.7", engine="FoParseState",
   technique="TLA+ machine of fc's long-lived parse state over histories of top-level definitions (FoParseState.tla), model-checked with TLC with and without named deviations; histories of concrete packages are behaviours of that machine (TLC simulation) plus directed ones, replayed through one invocation of the real fc; per-definition Go declarations compared with the minimal history by TLC (FoParseStateTrace.tla)",
   text="The parse state (root scope bindings, inference and forward-declaration allocators with their limit, temporaries, scope depth, file cursor) is a machine whose invariants - fresh per-definition context, names denote top-level definitions rather than leaked locals, no spurious allocator exhaustion - are model-checked over all histories of an abstract package and shown non-vacuous by four deviations (thorough). For concrete packages (records, unions, and-groups with forward references, generics, package_info, top-level variables, local names colliding with unrelated top-level names, fillers exceeding the allocator limit over a run) TLC-simulated and directed histories (minimal, reordered, dropped, inserted, cut into 2-3 files, package_info in a leading .foi) are transpiled by the real binary; each definition's Go declarations, temporaries renumbered, must equal those of its minimal history, and exactly gen_X.go per X.fo must be written.",
   note="Trusted: go/printer text of declarations found by name; the hand-written package corpus and its dependency relation; histories are sampled (seeded), not exhaustive; the white-box trace of the parse state planned in the design (root-step hook) is not built: the binding is black-box."),
 "C06": dict(
   category="model_checking", design_ref="4.6", engine="FoLayout",
   technique="TLA+ model of the offside rule on indentation structure (FoLayout.tla: rendering of trees under increment vectors and noise, block reconstruction as a stack machine; TLC checks reconstruction and the dedent converse for all trees up to 5 items); layout vectors for concrete documents generated by TLC (FoLayoutCases.tla: all single-point deviations, seeded simulation of full layouts), rendered, transpiled by the real fc and compared by TLC (FoLayoutTrace.tla)",
   text="TLC checks that the offside stack machine recovers every tree (<= 5 items, all increment vectors over {1,2,4}, with blank/comment lines at arbitrary columns) and that a last line moved to a smaller column leaves its block. Concrete layout documents (49-115 decision points: indent string of every block incl. tabs, blank lines, line/block/multi-line/starred comments before and after items, if on one line or several, right-hand side / function body / arm body on the same or next line, arms at the match column or deeper, line breaks before |>) are rendered under every single-point deviation and under seeded random full layouts; the real fc must emit the canonical layout's bytes. Dedent cases must be accepted and give the bytes of the regrouped document (and different bytes than before the dedent).",
   note="Trusted: the renderer (it only makes the choices the property names; uniform indent string within a block); layouts are sampled beyond the single-point family; the model covers indentation structure, not the token-level column arithmetic of tkzNext."),
 "C01": dict(
   category="model_checking", design_ref="4.1", engine="FoSem",
   technique="TLA+ semantics of Folang (FoSem.tla: big-step evaluator threading the observable event output through every sub-evaluation); generated programs carry their own Probe/Mark observation points, are transpiled by the real fc, compiled and run; recorded event traces validated by TLC one state per event (FoSemTrace.tla)",
   text="The strict, left-to-right, lexically scoped semantics of the documented language (let, functions, closures, partial application, pipes, if/elif/else, union and string match, records, tuples, slices, destructuring, interpolation, library calls, = / <>) is an explicit TLA+ evaluator whose result includes the sequence of probe events, so evaluation order, short-circuit, only-the-taken-branch and match dispatch are all observable. Seeded type-directed random programs and systematic kernels (all boolean trees of depth 2 with probed atoms, operand/argument/field order, partial application at every arity, if chains under every truth assignment, union match over constructor x arm order x default x payload form, string match, closures) are transpiled by the real fc (one process each), compiled together and run; TLC checks every recorded event, the final status and the result against the evaluator.",
   note="Trusted: FoSem.tla as the intended semantics; probe.go's reflection decoder (documented Go representation); the generator's profile (DESIGN 8a). Two known findings are excluded from generation and probed separately (partial-app-effectful-arg, dangling-else-inner-if-only). Programs are sampled, kernels are exhaustive within their small grammar."),
 "C17": dict(
   category="model_checking", design_ref="4.17", engine="FoSem",
   technique="the same TLA+ semantics (FoSem.tla) and trace validation (FoSemTrace.tla) as C01, with the generator restricted to the tinyfo subset and the binary built from tinyfo/; every program is also transpiled by fc and the two recorded traces are compared",
   text="Seeded random programs of the tinyfo subset (annotated functions, + - comparisons && ||, if/elif/else, one-line if, records, unions with match, slices through variables, pairs and destructuring, pipes, partial application, package_info calls with monomorphic probes) and the C01 kernels inside that subset are transpiled by tinyfo, compiled and run; TLC validates each recorded event trace against the semantics, and the trace of fc's translation of the same program must be identical.",
   note="Trusted: as C01; the subset is calibrated on the pinned tree (what tinyfo accepts: no lambdas, * /, interpolation, string match, inner functions, generic probes, slice literals as arguments, let right-hand side on the next line); tinyfo reads the frt/slice/strings sections of pkg_all.foi."),
 "C03": dict(
   category="model_checking", design_ref="4.3", engine="FoRepr/FoSem",
   technique="TLA+ specification of the documented Go representation (FoRepr.tla: declaration -> Folang text and Go surface as compile-time assertions, enumerated by TLC) checked by the Go compiler against what the real fc emits; foreign calls as programs whose hand-written Go implementations record their arguments, traces validated by TLC against FoSem.tla (a foreign call records all arguments in source order)",
   text="(A) TLC enumerates record / union (generic or not, payload mixes) / top-level function (unit parameter, unit result, function-, tuple-, slice-typed parameters) / variable declarations, derives the Folang text and the documented Go surface as compile-time assertions (struct conversion with exact field names, types and order; U_C{Value}, New_U_C func vs package var; exact func signatures); the declarations are transpiled by the real fc and the Go compiler decides every assertion. (B) package_info functions (package _ or named, arity 0-4, int/unit result, generic with the type parameter in first / last / result position and explicit type argument int/string/any) are called directly, through every partial application and piped; the Go implementations, generated from the declared signature only, log the arguments (and the type argument) they receive; TLC validates the recorded traces against the semantics.",
   note="Trusted: Go compiler for the assertions; FoRepr.tla / FoSem.tla; a named package is provided as a package-level struct of functions (no import), generic foreign functions live in package _."),
 "C02": dict(
   category="model_checking", design_ref="4.2", engine="FoInfer",
   technique="TLA+ specification of unification as a nondeterministic machine (FoInfer.tla; TLC: termination and confluence against a deterministic oracle on constraint sets with sharing, diamonds, clashes and cycles) and of the signature function (principal type, first-occurrence numbering, Go mapping); generated functions with their constraint sets are transpiled by the real fc under every sampled subset of redundant annotations, signatures read back with go/parser and validated by TLC (FoInferTrace.tla)",
   text="TLC explores every processing order of the unification machine on a family of small constraint sets and checks that all behaviours terminate and agree with the deterministic unifier (verdict and types up to renaming), so the principal type is well defined. For seeded generated functions over the constructs with documented inference (typed arithmetic/comparison, =, library and user generic calls with a fresh instance per use, record/union construction, tuples, slices, destructuring, function-typed parameters, local lambdas returned un-applied) TLC computes the principal type, the T0.. numbering and which parameter annotations are redundant; the real fc must emit exactly that signature for the un-annotated function and byte-identical code for every subset of redundant annotations, and the un-annotated package must type-check in Go.",
   note="Stage 1 of DESIGN 4.2: the syntax-directed constraint rules live in tools/vlib/infgen.py (Python), not yet in TLA+; the white-box replay of Resolver behaviours is not built. Generic user records/unions are outside the generated profile (their type arguments are not unified by fc: candidate finding, see DESIGN 6). Trusted: go/parser reading of signatures."),
}

def cmd(pid, tier):
    return "python3 tools/vcheck %s --tier %s" % (pid, tier)

checks = []
for pid in ids:
    if pid not in CHECKS:
        continue
    c = CHECKS[pid]
    checks.append({
        "property_id": pid,
        "quick_cmd": cmd(pid, "quick"),
        "thorough_cmd": cmd(pid, "thorough"),
        "evidence_file": "/verif/evidence/%s.json" % pid,
        "replay_cmd_template": "python3 tools/vcheck %s --replay {path}" % pid,
        "engine": c["engine"],
        "level_claimed": {"category": c["category"], "text": c["text"], "design_ref": "DESIGN.md section " + c["design_ref"]},
        "level_note": c["note"],
        "technique": c["technique"],
    })

NA_REASON = "check not built yet (work in progress, see DESIGN.md section 9); nothing is claimed for it"
m = {
 "version": 1,
 "setup_cmd": "python3 tools/vcheck --setup",
 "hooks": {"guard": "verif (Go build tag)",
           "enable": "checks copy /repo's working tree to a scratch directory and build there with `go build -tags verif`",
           "baseline_off_cmd": "VERIF_JSON=1 tools/baseline_off.sh",
           "source_commits": ["206ba57", "15e803f"], "add_only": True},
 "engines": [
   {"name": "vcheck", "path": "tools/vcheck", "serves_properties": sorted(CHECKS), "kind_free_text": "python3 orchestrator: scratch build of /repo, TLC runs, Go replay drivers, evidence"},
   {"name": "TLA+ specifications", "path": "spec/", "serves_properties": sorted(CHECKS), "kind_free_text": "explicit TLA+ modules checked with TLC 1.8 (exhaustive, simulation, trace validation)"},
   {"name": "Go replay drivers", "path": "harness/", "serves_properties": sorted(CHECKS), "kind_free_text": "stdlib-only Go programs built against the scratch copy of /repo"},
 ],
 "checks": checks,
 "notes": "Exit status of every command: 0 held, 1 violation (VIOLATION line with replay file), 2 our own machinery failed (never a verdict). known_findings.txt lists fixed defects (fix: commits in /repo) and known findings.",
 "not_applicable": [{"property_id": i, "reason": NA_REASON} for i in ids if i not in CHECKS],
}
json.dump(m, open(os.path.join(V, "MANIFEST.json"), "w"), indent=1)
print("checks:", [c["property_id"] for c in checks])
