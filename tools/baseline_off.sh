#!/bin/bash
# Runs the repository's own test suite (all Go modules) with the verif build tag OFF,
# on a scratch copy of /repo's working tree (so /repo is never written to).
# Output: go test -json streams of every module on stdout; exit 0 iff all modules pass.
set -u
export GOFLAGS="-mod=mod -trimpath" GOPROXY=off GOSUMDB=off GOTOOLCHAIN=local
REPO=${VERIF_REPO:-/repo}
S=$(mktemp -d /tmp/verif-baseline.XXXXXX)
trap 'rm -rf "$S"' EXIT
rsync -a --exclude .git --exclude /fc/fc --exclude /tinyfo/tinyfo --exclude /cmd/build_sample_md/build_sample_md "$REPO"/ "$S"/repo/
rc=0
for m in cmd/build_sample_md fc pkg/buf pkg/dict pkg/frt pkg/slice pkg/strings pkg/sys tinyfo; do
  (cd "$S/repo/$m" && go test -mod=mod ${VERIF_JSON:+-json} -vet=off -count=1 -timeout 25m ./...) || rc=1
done
exit $rc
