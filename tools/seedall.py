#!/usr/bin/env python3
"""seedall.py [out.ndjson] [parallelism] [only,ids]
Re-runs every seeded change of /verif/seeded against the current /repo (scratch copies only; nothing is applied to /repo) with the checks
recorded in its meta.json.  One JSON line per seeded change."""
import json, os, subprocess, sys
from concurrent.futures import ThreadPoolExecutor
V = os.path.dirname(os.path.dirname(os.path.abspath(__file__)))
out = sys.argv[1] if len(sys.argv) > 1 else "/tmp/seedall.ndjson"
par = int(sys.argv[2]) if len(sys.argv) > 2 else 2
only = set(sys.argv[3].split(",")) if len(sys.argv) > 3 else None
dirs = sorted(d for d in os.listdir(os.path.join(V, "seeded")) if os.path.exists(os.path.join(V, "seeded", d, "meta.json")))
if only:
    dirs = [d for d in dirs if d in only]
open(out, "w").close()


def one(d):
    meta = json.load(open(os.path.join(V, "seeded", d, "meta.json")))
    checks = ",".join(meta["checks_run"].keys())
    r = subprocess.run(["python3", os.path.join(V, "tools", "seedtest.py"), os.path.join(V, "seeded", d), "--checks", checks], capture_output=True, text=True)
    try:
        j = json.loads(r.stdout)
        row = {"mutant": d, "applies": j["applies"], "tests": j.get("tests_pass_with_patch"), "demo_fail": j.get("demo_fails_with_patch"),
               "demo_ok_clean": j.get("demo_passes_without"), "checks": {k: v["rc"] for k, v in j.get("checks", {}).items()}, "was": meta["checks_run"]}
    except Exception as e:
        row = {"mutant": d, "error": str(e), "out": r.stdout[-300:] + r.stderr[-300:]}
    with open(out, "a") as f:
        f.write(json.dumps(row) + "\n")


with ThreadPoolExecutor(par) as ex:
    list(ex.map(one, dirs))
