#!/bin/bash
# Re-runs every seeded change of /verif/seeded against the current /repo (scratch copies only) with the checks recorded in its meta.json.
# usage: tools/seedall.sh [out.ndjson] [parallelism]
V=$(cd "$(dirname "$0")/.." && pwd)
OUT=${1:-/tmp/seedall.ndjson}
P=${2:-2}
: > "$OUT"
ls -d "$V"/seeded/*/ | xargs -P "$P" -I{} sh -c '
  m=$(basename {}); checks=$(python3 -c "import json,sys; print(\",\".join(json.load(open(sys.argv[1]))[\"checks_run\"].keys()))" {}/meta.json)
  python3 '"$V"'/tools/seedtest.py {} --checks "$checks" 2>&1 | python3 -c "
import json,sys
try:
    d=json.load(sys.stdin)
    print(json.dumps({\"mutant\": d[\"mutant\"].rstrip(\"/\").split(\"/\")[-1], \"applies\": d[\"applies\"], \"tests\": d.get(\"tests_pass_with_patch\"), \"demo_fail\": d.get(\"demo_fails_with_patch\"), \"demo_ok_clean\": d.get(\"demo_passes_without\"), \"checks\": {k: v[\"rc\"] for k, v in d.get(\"checks\", {}).items()}}))
except Exception as e:
    print(json.dumps({\"mutant\": \"$m\", \"error\": str(e)}))
" >> '"$OUT"'
'
