#!/usr/bin/env python3
"""Rewrites the table of seeded changes in DESIGN.md section 8 from /verif/seeded/*/meta.json."""
import glob, json, os, re
V = os.path.dirname(os.path.dirname(os.path.abspath(__file__)))
rows = []
for d in sorted(glob.glob(os.path.join(V, "seeded", "*"))):
    m = json.load(open(os.path.join(d, "meta.json")))
    sid = os.path.basename(d)
    summ = (m.get("summary") or "").replace("\n", " ").replace("|", "/")
    summ = summ[:170] + ("…" if len(summ) > 170 else "")
    cr = m["checks_run"]
    rows.append("| %s | %s | %s | %s |" % (sid, m["property"], summ, ", ".join("%s: %s" % (c, "**caught**" if v == "VIOLATION" else v) for c, v in cr.items()) +
                (" (when kept; *superseded* by a later repair of /repo, see meta.json)" if m.get("superseded") else "")))
p = os.path.join(V, "DESIGN.md")
s = open(p).read()
i = s.index("| seed | property | change (author's summary, abridged) | our checks |")
j = s.index("  Changes that were **missed at first**")
s = s[:i] + "| seed | property | change (author's summary, abridged) | our checks |\n|---|---|---|---|\n" + "\n".join(rows) + "\n\n" + s[j:]
open(p, "w").write(s)
print(len(rows), "rows")
